"""Shared machinery of the checks: PRNG, Coq term printers, Coq build / evaluation, the decision
logic of a check run (VIOLATION / KNOWN-FINDING lines, replay files, evidence files).

Everything is run with /venv/bin/python, PYTHONPATH=$VERIF_REPO/src (default /repo/src),
PYTHONHASHSEED=0.  See DESIGN.md sections 2 and 3.
"""
import fcntl
import json
import os
import re
import shutil
import subprocess
import sys
import time
import traceback

VERIF = os.path.dirname(os.path.dirname(os.path.abspath(__file__)))
COQ = os.path.join(VERIF, 'coq')
REPO = os.environ.get('VERIF_REPO', '/repo')
WORK = os.path.join(VERIF, 'work')
EVIDENCE = os.path.join(VERIF, 'evidence')
REPLAYS = os.path.join(VERIF, 'replays')
NCPU = min(16, os.cpu_count() or 4)

TRUSTED_BASE = [
    'Coq 8.16.1 kernel and its vm_compute bytecode VM (no native_compute, no -type-in-type, no -impredicative-set, '
    'guard/positivity/universe checks on)',
    'hand-written Gallina model of the anchored Python code (coq/Model/*.v): the Python text is modelled, not verified',
    'tie model<->code: differential correspondence harness (harness/*.py: generators, canonicalisers, Coq term '
    'printer) evaluated by vm_compute, and tabulating translators writing coq/Gen/*.v from the running code',
    'Python 3.12 interpreter and standard library executing /repo/src in process',
]


# --------------------------------------------------------------------------------------------
# PRNG: one SplitMix64 state per run, derived from VERIF_SEED
# --------------------------------------------------------------------------------------------
class Rng:
    M = (1 << 64) - 1

    def __init__(self, seed):
        # the state is a hash of the seed (two rounds of the SplitMix64 output function), so that the streams of
        # consecutive seeds are unrelated (seeding with seed * GAMMA made the stream of seed k+1 the stream of
        # seed k shifted by one)
        z = (seed ^ 0x6A09E667F3BCC909) & self.M
        for _ in range(2):
            z = (z + 0x9E3779B97F4A7C15) & self.M
            z = ((z ^ (z >> 30)) * 0xBF58476D1CE4E5B9) & self.M
            z = ((z ^ (z >> 27)) * 0x94D049BB133111EB) & self.M
            z = z ^ (z >> 31)
        self.s = z

    def next(self):
        self.s = (self.s + 0x9E3779B97F4A7C15) & self.M
        z = self.s
        z = ((z ^ (z >> 30)) * 0xBF58476D1CE4E5B9) & self.M
        z = ((z ^ (z >> 27)) * 0x94D049BB133111EB) & self.M
        return z ^ (z >> 31)

    def below(self, n):
        return self.next() % n

    def randint(self, a, b):
        return a + self.below(b - a + 1)

    def choice(self, seq):
        return seq[self.below(len(seq))]

    def chance(self, p):
        return self.below(1000000) < p * 1000000

    def shuffle(self, lst):
        for i in range(len(lst) - 1, 0, -1):
            j = self.below(i + 1)
            lst[i], lst[j] = lst[j], lst[i]

    def sample(self, seq, k):
        lst = list(seq)
        self.shuffle(lst)
        return lst[:k]

    def weighted(self, pairs):
        tot = sum(w for _, w in pairs)
        r = self.below(tot)
        for v, w in pairs:
            if r < w:
                return v
            r -= w
        return pairs[-1][0]


# --------------------------------------------------------------------------------------------
# Coq term printers
# --------------------------------------------------------------------------------------------
def cZ(n):
    return '(%d)%%Z' % n


def cN(n):
    assert n >= 0
    return '%d%%N' % n


def cnat(n):
    assert 0 <= n < 5000, 'nat literal too large'
    return '%d%%nat' % n


def cbool(b):
    return 'true' if b else 'false'


def clist(items, scope=None):
    s = '[' + '; '.join(items) + ']'
    return s if scope is None else s + '%' + scope


def copt(x, f):
    return 'None' if x is None else '(Some %s)' % f(x)


def ctext(s):
    """a Python str as list N of code points"""
    if not s:
        return '(@nil N)'
    return '[' + ';'.join(str(ord(c)) for c in s) + ']%N'


def cbytes(b):
    if not b:
        return '(@nil N)'
    return '[' + ';'.join(str(x) for x in b) + ']%N'


def ctuple(*xs):
    return '(' + ', '.join(xs) + ')'


def capp(f, *args):
    return '(' + f + ' ' + ' '.join(args) + ')'


def cstring(s):
    """a Coq [string] literal (ASCII identifiers only)"""
    assert all(32 <= ord(c) < 127 and c != '"' for c in s), s
    return '"%s"%%string' % s


# --------------------------------------------------------------------------------------------
# Coq build and evaluation
# --------------------------------------------------------------------------------------------
def _run(cmd, timeout, cwd=None, env=None):
    try:
        p = subprocess.run(cmd, cwd=cwd, env=env, stdout=subprocess.PIPE, stderr=subprocess.STDOUT,
                           timeout=timeout, text=True, errors='replace')
        return p.returncode, p.stdout
    except subprocess.TimeoutExpired as ex:
        out = ex.stdout or ''
        if isinstance(out, bytes):
            out = out.decode('utf-8', 'replace')
        return 124, out + '\n*** TIMEOUT after %s s' % timeout


class BuildResult:
    def __init__(self, ok, log, broken=None):
        self.ok = ok
        self.log = log
        self.broken = broken or []  # list of (file, line, statement-name, message)


_STMT_RE = re.compile(r'^\s*(?:Local\s+|Global\s+)?(Theorem|Lemma|Corollary|Example|Fact|Definition|Fixpoint|Remark|Proposition)\s+([A-Za-z0-9_\']+)')


def _statement_before(path, line_no):
    name = None
    try:
        with open(path) as f:
            for i, line in enumerate(f, 1):
                if i > line_no:
                    break
                m = _STMT_RE.match(line)
                if m:
                    name = m.group(2)
    except OSError:
        pass
    return name


def parse_coq_errors(log, cwd):
    broken = []
    for m in re.finditer(r'File "([^"]+)", line (\d+), characters [\d-]+:\s*\n(Error:.*?)(?=\n\S|\Z)', log, re.S):
        path = m.group(1)
        if not os.path.isabs(path):
            path = os.path.normpath(os.path.join(cwd, path))
        line_no = int(m.group(2))
        broken.append((os.path.relpath(path, VERIF), line_no, _statement_before(path, line_no) or '?',
                       ' '.join(m.group(3).split())[:400]))
    return broken


def coq_project_files():
    files = []
    for sub in ('Lib', 'Model', 'Spec', 'Proofs', 'Gen', 'Props'):
        d = os.path.join(COQ, sub)
        if os.path.isdir(d):
            for fn in sorted(os.listdir(d)):
                if fn.endswith('.v') and not fn.startswith('.'):
                    files.append(sub + '/' + fn)
    return files


def write_if_changed(path, content):
    try:
        if open(path).read() == content:
            return False
    except OSError:
        pass
    os.makedirs(os.path.dirname(path), exist_ok=True)
    tmp = path + '.tmp%d' % os.getpid()
    with open(tmp, 'w') as f:
        f.write(content)
    os.replace(tmp, path)
    return True


def coq_build(targets=None, timeout=1500, keep_going=False):
    """Full .vo build of the Coq project (never -vos), serialised by a lock.  [targets]: list of
    .vo files relative to coq/ (default: everything)."""
    os.makedirs(COQ, exist_ok=True)
    with open(os.path.join(COQ, '.lock'), 'w') as lk:
        fcntl.flock(lk, fcntl.LOCK_EX)
        proj = '-R . Exactly\n-arg -w -arg -notation-overridden,-deprecated\n' + '\n'.join(coq_project_files()) + '\n'
        if write_if_changed(os.path.join(COQ, '_CoqProject'), proj) or not os.path.exists(os.path.join(COQ, 'Makefile')):
            rc, out = _run(['coq_makefile', '-f', '_CoqProject', '-o', 'Makefile'], 120, cwd=COQ)
            if rc != 0:
                return BuildResult(False, out, [('coq/_CoqProject', 0, 'coq_makefile', out[-300:])])
        cmd = ['make', '-j%d' % NCPU] + (['-k'] if keep_going else []) + (targets or [])
        rc, out = _run(cmd, timeout, cwd=COQ)
        if rc != 0:
            broken = parse_coq_errors(out, COQ)
            if not broken:
                broken = [('coq', 0, 'make', out[-400:])]
            return BuildResult(False, out, broken)
        return BuildResult(True, out)


def coqc_file(path, timeout=600):
    """Compile one file outside the project build (case shards, assumption printing)."""
    env = dict(os.environ)
    return _run(['coqc', '-q', '-R', COQ, 'Exactly', '-w', '-notation-overridden,-deprecated', path], timeout,
                cwd=os.path.dirname(path), env=env)


def print_assumptions(prop):
    """Re-compile Props/<prop>.v (and the property's additional Props files) on their own and return
    (ok, {theorem: assumptions-text}, raw)."""
    res, raws = {}, []
    for name in [prop] + list(EXTRA_PROPS.get(prop, [])):
        src = os.path.join(COQ, 'Props', name + '.v')
        os.makedirs(os.path.join(work_dir(prop), 'props'), exist_ok=True)
        rc, out = _run(['coqc', '-q', '-R', COQ, 'Exactly', '-w', '-notation-overridden,-deprecated',
                        '-o', os.path.join(work_dir(prop), 'props', name + '.vo'), src], 900, cwd=COQ)
        raws.append(out)
        if rc != 0:
            return False, {}, out
        thms = re.findall(r'^\s*Print Assumptions\s+([A-Za-z0-9_\']+)\.', open(src).read(), re.M)
        blocks = re.split(r'(?=^Closed under the global context|^Axioms:|^Section Variables:)', out, flags=re.M)
        blocks = [b.strip() for b in blocks if b.strip().startswith(('Closed under', 'Axioms:', 'Section Variables:'))]
        for i, t in enumerate(thms):
            res[t] = blocks[i] if i < len(blocks) else '?'
    return True, res, '\n'.join(raws)


STDLIB_AXIOMS_ALLOWED = (
    'functional_extensionality_dep', 'classic', 'proof_irrelevance', 'JMeq_eq', 'eq_rect_eq',
    'propositional_extensionality', 'constructive_indefinite_description', 'constructive_definite_description',
)


def hygiene(files=None):
    """No Admitted / admit / Axiom / Parameter / Conjecture / disabled checks in the given files of coq/ (default: all)."""
    bad = []
    pat = re.compile(r'\b(Admitted|admit|Axiom|Axioms|Parameter|Parameters|Conjecture|Hypothesis|Hypotheses|Variable|Variables)\b|'
                     r'Unset\s+Guard|bypass_check|type-in-type|impredicative-set|Admit\s+Obligations|Unset\s+Positivity|'
                     r'Unset\s+Universe\s+Checking')
    for rel in (coq_project_files() if files is None else files):
        depth = 0
        for i, line in enumerate(open(os.path.join(COQ, rel)), 1):
            code = re.sub(r'\(\*.*?\*\)', '', line)
            if re.match(r'\s*(Section|Module)\s+\w+', code):
                depth += 1
            if re.match(r'\s*End\s+\w+', code):
                depth = max(0, depth - 1)
            m = pat.search(code)
            if m:
                word = m.group(0)
                if word in ('Variable', 'Variables', 'Hypothesis', 'Hypotheses') and depth > 0:
                    continue  # section-local: discharged at End, becomes an explicit premise
                if '(*' in line and line.index('(*') < line.find(word):
                    continue
                bad.append('%s:%d: %s' % (rel, i, line.strip()))
    return bad


EXTRA_PROPS = {}  # property -> additional Props files (composition theorems), set by main_check from the module


def deps_of(prop):
    """Transitive dependencies of Props/<prop>.v (and the property's additional Props files) inside coq/."""
    seen, todo = [], ['Props/%s.v' % prop] + ['Props/%s.v' % x for x in EXTRA_PROPS.get(prop, [])]
    while todo:
        f = todo.pop()
        if f in seen or not os.path.exists(os.path.join(COQ, f)):
            continue
        seen.append(f)
        txt = re.sub(r'\(\*.*?\*\)', '', open(os.path.join(COQ, f)).read(), flags=re.S)
        for m in re.finditer(r'Require\s+(?:Import\s+|Export\s+)?(.*?)\.(?=\s|$)', txt, re.S):
            for tok in m.group(1).split():
                tok = tok.replace('Exactly.', '')
                cand = tok.replace('.', '/') + '.v'
                if os.path.exists(os.path.join(COQ, cand)):
                    todo.append(cand)
    return seen


def count_obligations(prop):
    """(number of Qed/Defined-closed statements in the dependency cone, number of those in files whose
    .vo is present and newer than the source, list of files)."""
    files = deps_of(prop)
    total = done = 0
    for f in files:
        src = os.path.join(COQ, f)
        n = len(re.findall(r'\b(Qed|Defined)\s*\.', re.sub(r'\(\*.*?\*\)', '', open(src).read(), flags=re.S)))
        total += n
        vo = src[:-2] + '.vo'
        if os.path.exists(vo) and os.path.getmtime(vo) >= os.path.getmtime(src):
            done += n
    return total, done, files


SOURCE_TIE_NOTES = {}


def source_tie(prop):
    """Regenerate coq/Gen/Src_*.v for `prop` with the Python->Gallina translator (harness/py2coq.py) and add
    Props/SrcTie_<prop>.v to the property's theorem files.  A broken obligation there (the translated source no longer
    equals the hand model) is a broken proof of this check.  When the translator REFUSES the source (it left the supported
    subset) the syntactic tie does not apply: that is recorded in the evidence and the behavioural ties decide alone."""
    import py2coq
    name = 'SrcTie_%s' % prop
    try:
        files = py2coq.gen_for(prop)
        if name not in EXTRA_PROPS.setdefault(prop, []):
            EXTRA_PROPS[prop].append(name)
        SOURCE_TIE_NOTES[prop] = {'status': 'translated', 'generated': [os.path.relpath(f, VERIF) for f in files]}
    except py2coq.Unsupported as ex:
        if name in EXTRA_PROPS.get(prop, []):
            EXTRA_PROPS[prop].remove(name)
        SOURCE_TIE_NOTES[prop] = {'status': 'refused: the source left the translator\'s subset; syntactic tie not applied',
                                  'detail': str(ex)[:500]}


def work_dir(prop):
    d = os.path.join(WORK, prop)
    os.makedirs(d, exist_ok=True)
    return d


_SUMMARY_RE = re.compile(r'=\s*\(\s*(\d+)\s*,\s*(\d+)\s*,\s*(\[[^\]]*\]|nil)\s*,\s*(\[[^\]]*\]|nil)\s*\)')


def _parse_idx_list(s):
    return [int(x) for x in re.findall(r'\d+', s)]


def run_shards(prop, imports, check_fn, case_terms, shard_size=400, timeout=900, tag='cases', extra_defs=''):
    """Evaluate [check_fn : case -> bool * bool] (correspondence, property-on-implementation) on all
    case terms with vm_compute, in shards of <= shard_size, in parallel.
    Returns (corr_bad_indices, prop_bad_indices, errors)."""
    wd = work_dir(prop)
    shards = [case_terms[i:i + shard_size] for i in range(0, len(case_terms), shard_size)]
    paths = []
    for k, sh in enumerate(shards):
        p = os.path.join(wd, '%s_%s_%d.v' % (prop, tag, k))
        with open(p, 'w') as f:
            f.write('From Coq Require Import ZArith NArith List Bool String.\nImport ListNotations.\n')
            f.write('From Exactly Require Import Lib.Harness %s.\n' % ' '.join(imports))
            f.write('Set Printing Width 100000. Set Printing Depth 100000.\n')
            f.write(extra_defs + '\n')
            f.write('Definition cases := [\n' + ';\n'.join(sh) + '\n].\n')
            f.write('Definition verdicts := Eval vm_compute in map %s cases.\n' % check_fn)
            f.write('Eval vm_compute in summary verdicts.\n')
        paths.append(p)
    procs = []
    results = [None] * len(paths)
    errors = []
    running = {}
    idx = 0
    while idx < len(paths) or running:
        while idx < len(paths) and len(running) < NCPU:
            p = paths[idx]
            pr = subprocess.Popen(['timeout', str(timeout), 'coqc', '-q', '-R', COQ, 'Exactly', '-w',
                                   '-notation-overridden,-deprecated', p],
                                  cwd=wd, stdout=subprocess.PIPE, stderr=subprocess.STDOUT, text=True, errors='replace')
            running[idx] = pr
            idx += 1
        for k in list(running):
            pr = running[k]
            if pr.poll() is not None:
                out = pr.stdout.read()
                results[k] = (pr.returncode, out)
                del running[k]
        time.sleep(0.02)
    corr_bad, prop_bad = [], []
    for k, (rc, out) in enumerate(results):
        m = _SUMMARY_RE.search(out.replace('%nat', '')) if rc == 0 else None
        if not m:
            errors.append('shard %d (%s): rc=%s %s' % (k, paths[k], rc, out[-600:]))
            continue
        base = k * shard_size
        nc, npf = int(m.group(1)), int(m.group(2))
        ci, pi = _parse_idx_list(m.group(3)), _parse_idx_list(m.group(4))
        if nc != len(ci) or npf != len(pi):
            errors.append('shard %d: summary inconsistent: %s' % (k, m.group(0)))
        corr_bad += [base + i for i in ci]
        prop_bad += [base + i for i in pi]
    return corr_bad, prop_bad, errors


def coq_eval_terms(prop, imports, terms, timeout=300, tag='eval'):
    """vm_compute each term, return the printed results (strings), for replays."""
    wd = work_dir(prop)
    p = os.path.join(wd, '%s_%s.v' % (prop, tag))
    with open(p, 'w') as f:
        f.write('From Coq Require Import ZArith NArith List Bool String.\nImport ListNotations.\n')
        f.write('From Exactly Require Import Lib.Harness %s.\n' % ' '.join(imports))
        f.write('Set Printing Width 100000. Set Printing Depth 100000.\n')
        for t in terms:
            f.write('Eval vm_compute in (%s).\n' % t)
    rc, out = coqc_file(p, timeout)
    if rc != 0:
        return None, out
    parts = re.findall(r'^\s*=\s*(.*?)\n\s*:\s', out, re.S | re.M)
    return [' '.join(x.split()) for x in parts], out


# --------------------------------------------------------------------------------------------
# Known findings
# --------------------------------------------------------------------------------------------
def load_known_findings(prop):
    path = os.path.join(VERIF, 'known_findings.json')
    try:
        data = json.load(open(path))
    except OSError:
        return []
    return [e for e in data.get('findings', []) if e.get('property') == prop]


# --------------------------------------------------------------------------------------------
# The check driver
# --------------------------------------------------------------------------------------------
class Failure:
    """A case on which the property predicate is false on the implementation's behaviour."""

    def __init__(self, kind, case, detail=None, finding=None):
        self.kind = kind  # 'property' | 'correspondence'
        self.case = case  # JSON-able description of the input + observation
        self.detail = detail
        self.finding = finding  # id of the known finding whose predicate the input satisfies, or None


class Result:
    def __init__(self):
        self.evaluations = 0
        self.nontrivial = set()
        self.rule = ''
        self.samples = []
        self.distribution = {}
        self.prop_failures = []  # [Failure]
        self.disagreements = []  # [Failure]
        self.errors = []  # harness / tie errors (fail-closed)
        self.findings_exercised = {}  # id -> count
        self.extra = {}

    def count(self, key, n=1):
        self.distribution[key] = self.distribution.get(key, 0) + n


class Ctx:
    def __init__(self, prop, tier, seed):
        self.prop, self.tier, self.seed = prop, tier, seed
        self.rng = Rng(seed)
        self.work = work_dir(prop)
        self.t0 = time.time()

    @property
    def quick(self):
        return self.tier == 'quick'


def write_replay(prop, seed, n, payload):
    os.makedirs(REPLAYS, exist_ok=True)
    path = os.path.join(REPLAYS, '%s-%d-%d.json' % (prop, seed, n))
    with open(path, 'w') as f:
        json.dump(payload, f, indent=1, default=str)
    return path


def main_check(prop, module, argv):
    import argparse
    ap = argparse.ArgumentParser()
    ap.add_argument('--tier', default=os.environ.get('VERIF_TIER', 'quick'), choices=['quick', 'thorough'])
    ap.add_argument('--replay', default=None)
    ap.add_argument('--no-build', action='store_true')
    args = ap.parse_args(argv)
    seed = int(os.environ.get('VERIF_SEED', '20260926'))
    t0 = time.time()
    ctx = Ctx(prop, args.tier, seed)
    EXTRA_PROPS[prop] = list(getattr(module, 'EXTRA_PROPS', []))
    if args.replay:
        return module.replay(ctx, json.load(open(args.replay)))
    shutil.rmtree(ctx.work, ignore_errors=True)
    os.makedirs(ctx.work, exist_ok=True)
    if os.path.isdir(REPLAYS):
        for fn in os.listdir(REPLAYS):
            if fn.startswith(prop + '-'):
                os.remove(os.path.join(REPLAYS, fn))
    os.makedirs(EVIDENCE, exist_ok=True)

    tie_errors = []
    # 1. regenerate tables from the running code (T)
    if hasattr(module, 'gen_tables'):
        try:
            module.gen_tables(ctx)
        except Exception:
            tie_errors.append('tabulating translator failed (fail-closed): ' + traceback.format_exc()[-1500:])
    # 2. build + assumptions + hygiene
    proof_broken = []
    # full .vo build of this property's dependency cone (Props/<prop>.v and everything it requires, Gen tables included);
    # setup builds the whole project, so normally nothing but regenerated Gen files and what depends on them is rebuilt
    build = coq_build(targets=[f[:-2] + '.vo' for f in deps_of(prop)]) if not args.no_build else BuildResult(True, '')
    if not build.ok:
        for (f, line, name, msg) in build.broken:
            proof_broken.append({'file': f, 'line': line, 'statement': name, 'message': msg})
    assumptions = {}
    if not proof_broken:
        ok, assumptions, raw = print_assumptions(prop)
        if not ok:
            for (f, line, name, msg) in parse_coq_errors(raw, COQ) or [('coq/Props/%s.v' % prop, 0, '?', raw[-400:])]:
                proof_broken.append({'file': f, 'line': line, 'statement': name, 'message': msg})
        for thm, txt in assumptions.items():
            if txt.startswith('Closed under'):
                continue
            names = re.findall(r'^\s*([A-Za-z0-9_.\']+)\s*:', txt, re.M)
            for nm in names:
                if nm.split('.')[-1] not in STDLIB_AXIOMS_ALLOWED:
                    proof_broken.append({'file': 'coq/Props/%s.v' % prop, 'line': 0, 'statement': thm,
                                         'message': 'depends on an axiom outside the named trusted base: ' + nm})
    n_obl, n_done, cone_files = count_obligations(prop)
    # hygiene decides for the files this property's theorems depend on; findings elsewhere in the development are
    # recorded in the evidence (they concern other properties' checks)
    bad_hyg = hygiene(cone_files)
    for b in bad_hyg:
        proof_broken.append({'file': 'coq', 'line': 0, 'statement': 'hygiene', 'message': b})
    hyg_elsewhere = [b for b in hygiene() if b not in bad_hyg]

    # 3. correspondence + property on the implementation (D)
    res = Result()
    try:
        module.run(ctx, res)
    except Exception:
        res.errors.append('harness exception (fail-closed): ' + traceback.format_exc()[-2500:])
    res.errors = tie_errors + res.errors

    # 4. known findings
    findings = load_known_findings(prop)
    open_findings = [f for f in findings if f.get('status') == 'open']
    open_ids = {f['id'] for f in open_findings}
    unlisted = [f for f in res.prop_failures if f.finding not in open_ids]
    listed = [f for f in res.prop_failures if f.finding in open_ids]
    for f in open_findings:
        n = sum(1 for x in listed if x.finding == f['id']) + res.findings_exercised.get(f['id'], 0)
        print('KNOWN-FINDING: property=%s %s [%s; reproduced on %d input(s) this run]' % (prop, f['what_fails'], f['id'], n))

    # 5. outcome
    violations = 0
    exit_code = 0
    replay_n = 0
    if unlisted:
        for f in unlisted[:5]:
            replay_n += 1
            path = write_replay(prop, seed, replay_n, {
                'property': prop, 'kind': 'property fails on the implementation', 'seed': seed, 'tier': args.tier,
                'case': f.case, 'detail': f.detail,
                'replay_cmd': './check %s --replay <this file>' % prop})
            print('VIOLATION property=%s replay=%s' % (prop, path))
        violations = len(unlisted)
        exit_code = 1
    elif proof_broken or res.disagreements or res.errors:
        # failing-input search: the property is no longer shown to hold; look for a concrete failing input
        found = []
        if hasattr(module, 'search'):
            try:
                found = [f for f in module.search(ctx, res) if f.finding not in open_ids]
            except Exception:
                res.errors.append('search exception: ' + traceback.format_exc()[-1500:])
        if found:
            for f in found[:5]:
                replay_n += 1
                path = write_replay(prop, seed, replay_n, {
                    'property': prop, 'kind': 'property fails on the implementation (found by failing-input search)',
                    'seed': seed, 'tier': args.tier, 'case': f.case, 'detail': f.detail,
                    'proof_broken': proof_broken, 'errors': res.errors[:5]})
                print('VIOLATION property=%s replay=%s' % (prop, path))
            violations = len(found)
        else:
            replay_n += 1
            path = write_replay(prop, seed, replay_n, {
                'property': prop,
                'kind': 'proof obligation or model/implementation correspondence no longer checks; no failing input found',
                'seed': seed, 'tier': args.tier,
                'proof_broken': proof_broken,
                'correspondence_disagreements': [{'case': d.case, 'detail': d.detail} for d in res.disagreements[:10]],
                'errors': res.errors[:10]})
            print('VIOLATION property=%s replay=%s no-failing-input-found' % (prop, path))
            violations = 1
        exit_code = 1

    # 6. evidence
    full = sorted(t for t in assumptions if not t.endswith('_partial') and not t.endswith('_refuted'))
    cov = {
        'obligations': max(n_obl, 0),
        'discharged': 0 if proof_broken else n_done,
        'checker_cmd': 'make -C /verif/coq (coqc 8.16.1, full .vo build) ; coqc Props/%s.v (Print Assumptions) ; '
                       'coqc work/%s/*_cases_*.v (vm_compute correspondence)' % (prop, prop),
        'trusted_base': TRUSTED_BASE + list(getattr(module, 'TRUSTED_EXTRA', [])),
        'theorems': {'full': full,
                     'partial': sorted(t for t in assumptions if t.endswith('_partial')),
                     'refuted': sorted(t for t in assumptions if t.endswith('_refuted'))},
        'print_assumptions': assumptions,
        'proof_files': cone_files,
        'evaluations': res.evaluations,
        'distinct_nontrivial': len(res.nontrivial),
        'rule': res.rule,
        'samples': res.samples[:6],
        'disagreements_checked': res.evaluations,
        'correspondence_disagreements': len(res.disagreements),
        'property_failures_on_impl': len(res.prop_failures),
        'known_findings_exercised': {f['id']: sum(1 for x in listed if x.finding == f['id']) + res.findings_exercised.get(f['id'], 0)
                                     for f in open_findings},
        'input_distribution': res.distribution,
        'proof_broken': proof_broken,
        'source_tie': SOURCE_TIE_NOTES.get(prop),
        'hygiene_findings_outside_this_cone': hyg_elsewhere,
        'harness_errors': res.errors[:5],
        'explanation': getattr(module, 'EXPLANATION', ''),
    }
    cov.update(res.extra)
    ev = {
        'property_id': prop, 'tier': args.tier, 'seed': seed, 'level': 'proof',
        'coverage': cov,
        'assumptions': list(getattr(module, 'ASSUMPTIONS', [])),
        'wall_s': round(time.time() - t0, 2),
        'violations': violations,
    }
    with open(os.path.join(EVIDENCE, prop + '.json'), 'w') as f:
        json.dump(ev, f, indent=1, default=str)
    print('%s %s: theorems=%d obligations=%d/%d evaluations=%d nontrivial=%d disagreements=%d prop_failures=%d '
          '(listed %d) errors=%d wall=%.1fs -> exit %d' % (
              prop, args.tier, len(assumptions), cov['discharged'], n_obl, res.evaluations, len(res.nontrivial),
              len(res.disagreements), len(res.prop_failures), len(listed), len(res.errors), time.time() - t0, exit_code))
    for e in res.errors[:3]:
        print('  error:', e[:800])
    for pb in proof_broken[:5]:
        print('  proof-broken:', pb)
    return exit_code
