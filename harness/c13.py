"""C13 — line selection by `filter` is exact.  Correspondence harness (part 1: LINE-MATCHER filter).

Implementation side: the real parsers (`parse_line_matcher`, `parse_string_transformer`), the real
`interval_of_matcher`, the real matcher applied per line, and the real `filter` transformer applied to
a constant string source.  Model side: Model/Interval.v through Spec/C13.v (`check_icase`,
`check_lcase`), evaluated by vm_compute.
"""
import re
import shutil
import tempfile

import common
from common import Failure, cZ, cN, cnat, cbool, clist, copt, capp
import impl
import c13b

TRUSTED_EXTRA = ['harness/py2coq.py (Python->Gallina translator for the small pure functions named in DESIGN 12.8) and coq/Lib/PyVal.v: trusted by the SrcTie theorems only']
EXPLANATION = ('Theorems over the Gallina model of matcher_interval/combinations/intervals/model_construction '
               '(Props/C13.v) + differential correspondence of that model with the running code.')
ASSUMPTIONS = ['contents matchers are matchers of unknown class; their truth per line is an oracle computed with Python re',
               'the model mirrors the code as of the fix commit; the pre-fix algorithm is kept as eval ... false (refuted)']

EXPLANATION += ' ' + c13b.EXPLANATION_PART2
ASSUMPTIONS += list(c13b.ASSUMPTIONS_PART2)

def gen_tables(ctx):
    common.source_tie('C13')  # range_merge.py, transformers.py, intervals translated and proved equal to the models


CMPS = [('==', 'CEq'), ('!=', 'CNe'), ('<', 'CLt'), ('<=', 'CLe'), ('>', 'CGt'), ('>=', 'CGe')]
CONTENTS = ['a', 'b', 'ab', 'c', '']  # line contents (ids = index)
REGEXES = ['a', 'b', '^$', 'c']  # contents matchers `contents matches R`  (unknown class k = index)


# ---- expression ASTs: ('const', b) ('neg', e) ('conj', [e..]) ('disj', [e..]) ('cmp', op_idx, rhs)
#      ('num', ie) ('cont', k)
def gen_im(rng, depth, n):
    r = rng.below(10)
    if depth <= 0 or r < 4:
        if rng.chance(0.08):
            return ('const', rng.chance(0.5))
        return ('cmp', rng.below(6), rng.randint(-1, n + 2))
    if r < 6:
        return ('neg', gen_im(rng, depth - 1, n))
    k = 'conj' if r < 8 else 'disj'
    return (k, [gen_im(rng, depth - 1, n) for _ in range(rng.randint(2, 3))])


def gen_lm(rng, depth, n):
    r = rng.below(12)
    if depth <= 0 or r < 5:
        q = rng.below(10)
        if q < 1:
            return ('const', rng.chance(0.5))
        if q < 3:
            return ('cont', rng.below(len(REGEXES)))
        return ('num', gen_im(rng, rng.randint(0, 2), n))
    if r < 8:
        return ('neg', gen_lm(rng, depth - 1, n))
    k = 'conj' if r < 10 else 'disj'
    return (k, [gen_lm(rng, depth - 1, n) for _ in range(rng.randint(2, 3))])


def src_of(e, top=True):
    """render to exactly's syntax; n-ary nodes are parenthesised so the parsed tree is the given tree"""
    t = e[0]
    if t == 'const':
        return 'constant ' + ('true' if e[1] else 'false')
    if t == 'neg':
        return '! ' + src_of(e[1], False)
    if t in ('conj', 'disj'):
        op = ' && ' if t == 'conj' else ' || '
        return '( ' + op.join(src_of(x, False) for x in e[1]) + ' )'
    if t == 'cmp':
        return '%s %d' % (CMPS[e[1]][0], e[2])
    if t == 'num':
        return 'line-num ' + src_of(e[1], False)
    if t == 'cont':
        return 'contents matches ' + "'" + REGEXES[e[1]] + "'"
    raise ValueError(e)


def coq_of(e):
    t = e[0]
    if t == 'const':
        return '(MConst %s)' % cbool(e[1])
    if t == 'neg':
        return '(MNeg %s)' % coq_of(e[1])
    if t in ('conj', 'disj'):
        return '(%s %s %s)' % ('MConj' if t == 'conj' else 'MDisj', coq_of(e[1][0]), clist([coq_of(x) for x in e[1][1:]]))
    if t == 'cmp':
        return '(MLeaf (ICmp %s %s))' % (CMPS[e[1]][1], cZ(e[2]))
    if t == 'num':
        return '(MLeaf (LNum %s))' % coq_of(e[1])
    if t == 'cont':
        return '(MLeaf (LUnknown %s))' % cnat(e[1])
    raise ValueError(e)


def nontrivial(e):
    """has a negation above a conjunction/disjunction, or >= 2 different operator kinds"""
    s = repr(e)
    return ("'neg', ('conj'" in s or "'neg', ('disj'" in s or "'neg', ('num', ('conj'" in s
            or "'neg', ('num', ('disj'" in s) or (('conj' in s) and ('disj' in s))


def coq_itv(iv):
    if iv.is_empty:
        return 'Emp'
    return '(NE %s %s)' % (copt(iv.lower, cZ), copt(iv.upper, cZ))


def coq_wi(iv):
    return '(WI %s %s)' % (coq_itv(iv), coq_itv(iv.inversion))


class Impl:
    def __init__(self, tmp):
        from exactly_lib.impls.types.line_matcher import parse_line_matcher, line_nums_interval
        from exactly_lib.impls.types.string_transformer import parse_string_transformer
        self.plm, self.pst, self.lni = parse_line_matcher, parse_string_transformer, line_nums_interval
        self.env = impl.app_env(tmp)

    def line_matcher(self, src):
        return impl.primitive_of(impl.parse_full(self.plm, src), self.env)

    def transformer(self, src):
        return impl.primitive_of(impl.parse_full(self.pst, src), self.env)

    def obs_im(self, e, xs):
        lm = self.line_matcher('line-num ' + src_of(e))
        iv = lm.interval  # PropertyMatcherWithIntInterval
        truth = [(x, bool(lm.matches_w_trace((x, '')).value)) for x in xs]
        return iv, truth

    def obs_lm(self, e, lines):
        src = src_of(e)
        lm = self.line_matcher(src)
        iv = self.lni.interval_of_matcher(lm)
        truth = [bool(lm.matches_w_trace((n, CONTENTS[c])).value) for n, c in enumerate(lines, 1)]
        text = ''.join(CONTENTS[c] + '\n' for c in lines)
        tr = self.transformer('filter ' + src)
        out = tr.transform(impl.str_source(text, self.env)).contents().as_str
        out_lines = out.split('\n')
        assert out_lines[-1] == ''
        out_ids = [CONTENTS.index(l) for l in out_lines[:-1]]
        return iv, truth, out_ids


OTAB = clist([clist([cN(i) for i, c in enumerate(CONTENTS) if re.search(r, c)] or [], None) if any(re.search(r, c) for c in CONTENTS)
              else '(@nil N)' for r in REGEXES])


def icase_term(e, iv, truth):
    return '(ICase %s %s %s)' % (coq_of(e), coq_wi(iv), clist(['(%s, %s)' % (cZ(x), cbool(h)) for x, h in truth]))


def lcase_term(e, lines, iv, truth, out):
    def nl(xs):
        return clist([cN(x) for x in xs]) if xs else '(@nil N)'
    return '(LCase %s %s %s %s %s %s)' % (coq_of(e), nl(lines), OTAB, coq_itv(iv),
                                          clist([cbool(b) for b in truth]) if truth else '(@nil bool)', nl(out))


CORPUS_IM = [
    ('disj', [('cmp', 3, 2), ('cmp', 5, 10)]),  # ( <= 2 || >= 10 ): the repaired defect
    ('conj', [('cmp', 1, 1), ('neg', ('cmp', 4, 5))]),  # ( != 1 && ! > 5 )
    ('neg', ('disj', [('cmp', 3, 2), ('cmp', 5, 10)])),
]
CORPUS_LM = [
    (('neg', ('num', ('disj', [('cmp', 3, 2), ('cmp', 5, 10)]))), [0, 1, 2, 3, 4, 0, 1, 2, 3, 4, 0]),
    (('neg', ('num', ('conj', [('cmp', 1, 1), ('neg', ('cmp', 4, 5))]))), [0, 1, 2, 3, 0, 1, 2]),
    (('disj', [('num', ('cmp', 0, 2)), ('conj', [('cont', 0), ('num', ('cmp', 5, 4))])]), [0, 1, 0, 1, 0, 1]),
]


def run(ctx, res):
    rng = ctx.rng
    n_im, n_lm = (1500, 2500) if ctx.quick else (20000, 40000)
    tmp = tempfile.mkdtemp(prefix='c13-', dir=ctx.work)
    im = Impl(tmp)
    icases, lcases = [], []
    res.rule = ('random expressions (depth <= 4 line level, <= 3 integer level; all six comparison operators, operands '
                '-1..N+2; constants; contents matchers; !, &&, ||) x texts of 0..N lines (N <= 12); corpus of repaired '
                'defects first. non-trivial := negation above a conjunction/disjunction, or both && and || present; '
                'distinct := distinct (expression, text)')
    for e in CORPUS_IM + [gen_im(rng, rng.randint(1, 3), rng.randint(0, 12)) for _ in range(n_im)]:
        xs = list(range(-3, 16))
        iv, truth = im.obs_im(e, xs)
        icases.append((e, iv, truth))
        res.count('integer-level expressions')
        if nontrivial(e):
            res.nontrivial.add(('i', repr(e)))
    for j in range(len(CORPUS_LM) + n_lm):
        if j < len(CORPUS_LM):
            e, lines = CORPUS_LM[j]
        else:
            n = rng.randint(0, 12) if not rng.chance(0.1) else rng.randint(0, 2)
            e = gen_lm(rng, rng.randint(1, 4), n)
            lines = [rng.below(len(CONTENTS)) for _ in range(n)]
        iv, truth, out = im.obs_lm(e, lines)
        lcases.append((e, lines, iv, truth, out))
        res.count('line-level expressions')
        res.count('text of %d lines' % len(lines))
        if nontrivial(e):
            res.nontrivial.add(('l', repr(e), tuple(lines)))
    shutil.rmtree(tmp, ignore_errors=True)
    res.evaluations = len(icases) + len(lcases)
    res.samples = [{'integer_matcher': src_of(icases[3][0]), 'impl_interval': str(icases[3][1]),
                    'impl_inversion': str(icases[3][1].inversion)},
                   {'filter': src_of(lcases[5][0]), 'lines': [CONTENTS[c] for c in lcases[5][1]],
                    'impl_interval': str(lcases[5][2]), 'impl_output': [CONTENTS[c] for c in lcases[5][4]]}]
    cb, pb, errs = common.run_shards('C13', ['Model.Interval', 'Spec.C13'], 'check_icase',
                                     [icase_term(*c) for c in icases], tag='icases')
    res.errors += errs
    for i in pb:
        e, iv, truth = icases[i]
        res.prop_failures.append(Failure('property', {'level': 'integer-matcher', 'expression': src_of(e),
                                                      'impl_interval': str(iv), 'impl_inversion': str(iv.inversion),
                                                      'truth': truth},
                                         'the (interval, inversion) pair computed by the implementation is not sound for '
                                         'the truth values the real matcher gives'))
    for i in cb:
        e, iv, truth = icases[i]
        res.disagreements.append(Failure('correspondence', {'level': 'integer-matcher', 'expression': src_of(e),
                                                            'impl_interval': str(iv), 'impl_inversion': str(iv.inversion)},
                                         'model interval_of_imatcher differs from implementation'))
    cb, pb, errs = common.run_shards('C13', ['Model.Interval', 'Spec.C13'], 'check_lcase',
                                     [lcase_term(*c) for c in lcases], tag='lcases')
    res.errors += errs
    for i in pb:
        e, lines, iv, truth, out = lcases[i]
        res.prop_failures.append(Failure('property', {'level': 'line-matcher', 'filter': src_of(e),
                                                      'lines': [CONTENTS[c] for c in lines], 'impl_interval': str(iv),
                                                      'matcher_truth_per_line': truth,
                                                      'impl_output': [CONTENTS[c] for c in out]},
                                         'filter output differs from the lines the real matcher accepts, or an accepted '
                                         'line number lies outside the computed interval'))
    for i in cb:
        e, lines, iv, truth, out = lcases[i]
        res.disagreements.append(Failure('correspondence', {'level': 'line-matcher', 'filter': src_of(e),
                                                            'lines': [CONTENTS[c] for c in lines], 'impl_interval': str(iv),
                                                            'impl_output': [CONTENTS[c] for c in out]},
                                         'model (interval / filter output / truth) differs from implementation'))
    # part 2: filter -line-nums (harness/c13b.py)
    c13b.run_part2(ctx, res)


def replay(ctx, payload):
    case = payload.get('case') or (payload.get('correspondence_disagreements') or [{}])[0].get('case')
    if isinstance(case, dict) and case.get('level') == 'line-nums':
        return c13b.replay(ctx, payload)
    print(json_dumps(case))
    return 0


def json_dumps(x):
    import json
    return json.dumps(x, indent=1, default=str)
