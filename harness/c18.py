"""C18 — mistakes in a test case are reported as such, never as internal errors.

(T) `gen_tables` writes coq/Gen/C18_tables.v on every run:
    * the exception classes named by every `except` clause of the routing layers, read from the SOURCE by a small
      fail-closed `ast` visitor (`read_chains`);
    * the subclass relation of the modelled exception classes, from the running interpreter (`issubclass`);
    * the behavioural cross-check: every modelled exception class is RAISED through the real program at every site
      (a text-driven stub instruction / stub actor added to the real instruction set; the real document parser, accessor,
      processor, executor and result reporter run unchanged) and the outcome is tabulated (`route_table`).
(D) `run`:
    * integer expressions: random syntax trees rendered to Python text, run through the real `python_evaluate` and end to
      end through `exit-code == EXPR`, compared with Model/Errors.v (`py_eval`, `python_evaluate`);
    * replacement templates: random templates x regexes, through the real `re` template parser and the real `replace`
      transformer, compared with the model of `parse_template`;
    * the fuzz: valid test cases from a grammar over all instructions and types, each mutated, run IN PROCESS through
      `MainProgram.execute`; `P_C18` (Spec/C18.v) is evaluated on what was observed.
"""
import ast
import json
import os
import re
import shutil
import signal
import subprocess
import sys
import tempfile

import common
from common import Failure, cZ, cN, cnat, cbool, clist, copt, cstring

EXTRA_PROPS = ['C18C01']  # composition with the executor model (Props/C18C01.v): route = the executor's verdict for a single raising step
import impl

EXPLANATION = ('Theorems over the Gallina model of the exception-routing layers (total; parse-time errors are syntax errors; '
               'INTERNAL_ERROR only from non-HardError exceptions), of python_evaluate over Python integer arithmetic and of '
               'the replacement-template classifier (Props/C18.v); the chains are re-read from the source and every class is '
               'raised through the real program on every run; the universal claim over all parsers is FUZZED (grammar-based '
               'mutants run in process), not proved.')
ASSUMPTIONS = [
    'PARTIAL: that no parser/validator/instruction of the code base raises a non-HardError exception on some text is established '
    'only by fuzzing (grammar-based valid cases x mutations), not by a theorem',
    'Python int arithmetic is modelled as arithmetic on Z (no MemoryError, no time limit); float arithmetic is abstracted to '
    '"a non-int value or an exception of class Exception"',
    "Python's own expression parser is not modelled: the harness renders integer-expression syntax trees to text",
    "CPython 3.12 re._parser.parse_template is modelled by hand; str.isidentifier for non-ASCII group names is an oracle table",
    'the environment of the fuzz runs is benign (readable files, writable sandbox, UTF-8 streams), so every INTERNAL_ERROR / '
    'escaping exception observed there stems from the text alone',
]
TRUSTED_EXTRA = ['harness/c18.py: ast visitor reading except clauses (fail-closed), stub instruction / stub actor used to raise '
                 'exception classes through the real layers, mutation engine and outcome canonicaliser']

PROP = 'C18'
KF_CLEANUP, KF_EXIT, KF_BIGINT, KF_HANG = 'KF-C18-2', 'KF-C18-3', 'KF-C18-4', 'KF-C18-5'
KF_NUL, KF_LONG_NAME, KF_COPY_INTO_SELF = 'KF-C18-8', 'KF-C18-12', 'KF-C18-13'

# ---------------------------------------------------------------------------------------------
# exception classes of the model  (Coq constructor -> how to get the real class)
# ---------------------------------------------------------------------------------------------
_X = 'exactly_lib.'
CLASSES = [
    ('EBaseException', 'builtins.BaseException'), ('ESystemExit', 'builtins.SystemExit'),
    ('EKeyboardInterrupt', 'builtins.KeyboardInterrupt'), ('EException', 'builtins.Exception'),
    ('EHardError', _X + 'test_case.hard_error.HardErrorException'),
    ('ESingleInstrInvalidArg', _X + 'section_document.element_parsers.instruction_parser_exceptions.SingleInstructionInvalidArgumentException'),
    ('ESectionElementError', _X + 'section_document.section_element_parsing.SectionElementError'),
    ('EUnrecognizedSES', _X + 'section_document.section_element_parsing.UnrecognizedSectionElementSourceError'),
    ('ERecognizedSES', _X + 'section_document.section_element_parsing.RecognizedSectionElementSourceError'),
    ('EInvalidInstrSyntax', _X + 'section_document.element_parsers.instruction_parser_exceptions.InvalidInstructionSyntaxException'),
    ('EUnknownInstr', _X + 'section_document.element_parsers.instruction_parser_exceptions.UnknownInstructionException'),
    ('EInvalidInstrArg', _X + 'section_document.element_parsers.instruction_parser_exceptions.InvalidInstructionArgumentException'),
    ('EArgParsingImpl', _X + 'section_document.element_parsers.instruction_parser_exceptions.ArgumentParsingImplementationException'),
    ('EParseError', _X + 'section_document.exceptions.ParseError'),
    ('EFileSourceError', _X + 'section_document.exceptions.FileSourceError'),
    ('EFileAccessError', _X + 'section_document.exceptions.FileAccessError'),
    ('EProcessError', _X + 'processing.test_case_processing.ProcessError'),
    ('EAccessorError', _X + 'processing.test_case_processing.AccessorError'),
    ('EPhaseStepFailure', _X + 'execution.result.PhaseStepFailureException'),
    ('EActorParseException', _X + 'test_case.phases.act.actor.ParseException'),
    ('ENotAnInteger', _X + 'impls.types.integer.evaluate_integer.NotAnIntegerException'),
    ('ESyntaxError', 'builtins.SyntaxError'), ('EValueError', 'builtins.ValueError'),
    ('EUnicodeError', 'builtins.UnicodeError'), ('ETypeError', 'builtins.TypeError'), ('ENameError', 'builtins.NameError'),
    ('EArithmeticError', 'builtins.ArithmeticError'), ('EZeroDivision', 'builtins.ZeroDivisionError'),
    ('EOverflow', 'builtins.OverflowError'), ('ELookupError', 'builtins.LookupError'), ('EIndexError', 'builtins.IndexError'),
    ('EKeyError', 'builtins.KeyError'), ('EReError', 're.error'), ('EMemoryError', 'builtins.MemoryError'),
    ('ERuntimeError', 'builtins.RuntimeError'), ('ERecursionError', 'builtins.RecursionError'),
    ('ENotImplemented', 'builtins.NotImplementedError'), ('EOSError', 'builtins.OSError'),
    ('EFileNotFound', 'builtins.FileNotFoundError'), ('EAttributeError', 'builtins.AttributeError'),
    ('EAssertionError', 'builtins.AssertionError'),
]
COQ_OF_QUALNAME = {q: c for c, q in CLASSES}


def real_class(qualname):
    import importlib
    mod, _, name = qualname.rpartition('.')
    return getattr(importlib.import_module(mod), name)


def coq_class_of(cls):
    """the Coq constructor of a real class (fail-closed)"""
    q = cls.__module__ + '.' + cls.__qualname__
    if q not in COQ_OF_QUALNAME:
        raise KeyError('exception class not in the model: ' + q)
    return COQ_OF_QUALNAME[q]


# ---------------------------------------------------------------------------------------------
# (T1) the except chains, read from the source
# ---------------------------------------------------------------------------------------------
# (key used in the Coq table, file under src/exactly_lib, qualified function name)
CHAIN_SITES = [
    # (key, file under src/exactly_lib, locator).  locator = ('name', qualified function name): the try statements of that function;
    # ('calls', f): every try statement of the module whose BODY calls `f(` / `.f(`, wherever it lives (method, function, closure)
    ('extract_name', 'section_document/element_parsers/parser_for_dictionary_of_instructions.py',
     ('name', 'InstructionParserForDictionaryOfInstructions._extract_name')),
    ('instr_parse', 'section_document/element_parsers/parser_for_dictionary_of_instructions.py',
     ('name', 'InstructionParserForDictionaryOfInstructions._parse')),
    ('seq_parsers', 'section_document/element_parsers/section_element_parsers.py', ('name', 'ParserFromSequenceOfParsers.parse')),
    ('doc_parser', 'section_document/impl/document_parser.py', ('name', '_Impl.read_section_elements_until_next_section_or_eof')),
    ('parser_apply', 'processing/processors.py', ('name', '_Parser.apply')),
    ('source_reader', 'processing/processors.py', ('name', '_SourceReader.apply')),
    ('accessor_apply', 'processing/processing_utils.py', ('name', 'AccessorFromParts._apply')),
    ('processor', 'processing/processing_utils.py', ('name', 'ProcessorFromAccessorAndExecutor.apply')),
    ('execute_element', 'execution/impl/single_instruction_executor.py', ('name', 'execute_element')),
    ('action', 'execution/impl/phase_step_execution.py', ('name', 'execute_action_and_catch_internal_error_exception')),
    ('act_parse', 'execution/partial_execution/impl/act_helper.py', ('name', 'ActHelper.parse')),
    ('executor', 'execution/partial_execution/impl/executor.py', ('name', '_PartialExecutor.execute')),
    ('executor_before_assert', 'execution/partial_execution/impl/executor.py', ('name', '_PartialExecutor._continue_from_before_assert')),
    ('executor_cleanup', 'execution/partial_execution/impl/executor.py', ('name', '_PartialExecutor._finish_with_cleanup_phase')),
    ('executor_sequence', 'execution/partial_execution/impl/executor.py', ('name', '_PartialExecutor._sequence_with_cleanup')),
    ('suite_process_case', 'test_suite/processing.py', ('name', '_process_case')),
    ('python_evaluate', 'impls/types/integer/evaluate_integer.py', ('calls', 'eval')),
    ('replace_sub', 'impls/types/string_transformer/impl/replace/impl.py', ('calls', 'sub')),
]
TIE_REFUSED = {}  # site key -> why the source could not be read structurally (recorded in the evidence; the behavioural tables tie it)


class _Tries(ast.NodeVisitor):
    """the `try` statements with handlers of ONE function body, in source order (nested functions included)"""

    def __init__(self):
        self.nodes = []

    def visit_Try(self, node):
        if node.handlers:  # try/finally without handlers catches nothing
            self.nodes.append(node)
        self.generic_visit(node)

    def visit_TryStar(self, node):
        raise ValueError('except* is not supported by the chain reader')


def _dotted(e):
    if isinstance(e, ast.Name):
        return e.id
    if isinstance(e, ast.Attribute):
        return _dotted(e.value) + '.' + e.attr
    raise ValueError('unsupported class expression in an except clause: ' + ast.dump(e))


def _find_function(tree, qualname):
    node = tree
    for part in qualname.split('.'):
        found = [n for n in getattr(node, 'body', []) if
                 isinstance(n, (ast.FunctionDef, ast.AsyncFunctionDef, ast.ClassDef)) and n.name == part]
        if len(found) != 1:
            raise KeyError('%s: %d definitions of %s' % (qualname, len(found), part))
        node = found[0]
    if not isinstance(node, ast.FunctionDef):
        raise KeyError(qualname + ' is not a function')
    return node


def _resolve_name_in_module(path, dotted):
    """the object an `except` clause names, resolved in the namespace of the real, imported module"""
    import importlib
    rel = os.path.relpath(path, os.path.join(common.REPO, 'src'))
    mod = importlib.import_module(rel[:-3].replace(os.sep, '.'))
    import builtins
    parts = dotted.split('.')
    obj = getattr(mod, parts[0]) if hasattr(mod, parts[0]) else getattr(builtins, parts[0])
    for part in parts[1:]:
        obj = getattr(obj, part)
    if not (isinstance(obj, type) and issubclass(obj, BaseException)):
        raise TypeError('%s in %s is not an exception class' % (dotted, rel))
    return obj


class TieBroken(Exception):
    """the source says something the model cannot be compared with: fail closed"""


def _tries_calling(tree, fname):
    """every Try node of the module whose body (not its handlers) contains a call of fname( or .fname("""
    found = []
    for node in ast.walk(tree):
        if isinstance(node, ast.Try) and node.handlers:
            for stmt in node.body:
                for n in ast.walk(stmt):
                    if isinstance(n, ast.Call) and (isinstance(n.func, ast.Attribute) and n.func.attr == fname
                                                    or isinstance(n.func, ast.Name) and n.func.id == fname):
                        found.append(node)
                        break
                else:
                    continue
                break
    return found


def _clauses_of(try_node, path):
    cs = []
    for h in try_node.handlers:
        if h.type is None:
            cs.append(['EBaseException'])
        else:
            names = [_dotted(e) for e in h.type.elts] if isinstance(h.type, ast.Tuple) else [_dotted(h.type)]
            cs.append([coq_class_of(_resolve_name_in_module(path, n)) for n in names])
    return cs


def _catch_signature(clauses):
    """what a try statement catches, clause structure ignored (merging / splitting clauses is harmless)"""
    real = dict((c, real_class(q)) for c, q in CLASSES)
    named = [real[c] for cl in clauses for c in cl]
    return tuple(sorted(c for c, k in real.items() if any(issubclass(k, n) for n in named)))


def read_chains():
    """{site key: [try statements] or None}; classes as Coq constructors.  None = tie refused for that site: the source could not be
    read the way the site is described (function renamed / restructured, class outside the model); recorded in TIE_REFUSED and in the
    evidence, not an alarm - the behavioural tables (route table, pyeval, replace_sub) tie what the code DOES.  Raises TieBroken
    only for the structural sites when no try statement around the call exists any more or two of them disagree."""
    out = {}
    TIE_REFUSED.clear()
    for key, rel, (how, what) in CHAIN_SITES:
        path = os.path.join(common.REPO, 'src', 'exactly_lib', rel)
        try:
            tree = ast.parse(open(path).read(), path)
            if how == 'name':
                fn = _find_function(tree, what)
                v = _Tries()
                for stmt in fn.body:
                    v.visit(stmt)
                nodes = v.nodes
            else:
                nodes = _tries_calling(tree, what)
            tries = [_clauses_of(n, path) for n in nodes]
        except (KeyError, ValueError, TypeError, OSError, SyntaxError, AttributeError, ImportError) as ex:
            TIE_REFUSED[key] = '%s: %s' % (type(ex).__name__, ex)
            out[key] = None
            continue
        if how == 'calls':
            if not tries:
                raise TieBroken('%s: no try statement around a call of %s( is left in %s' % (key, what, rel))
            if len({_catch_signature(t) for t in tries}) != 1:
                raise TieBroken('%s: the try statements around %s( in %s catch different things: %r' % (key, what, rel, tries))
            tries = tries[:1]
        out[key] = tries
    return out


# ---------------------------------------------------------------------------------------------
# (T2) raising every class through the real program: text-driven stubs
# ---------------------------------------------------------------------------------------------
STUB_STEPS = ['parse', 'usages', 'pre', 'post', 'main']
ACT_STEPS = ['parse', 'usages', 'pre', 'post', 'prepare', 'execute']


def make_exception(coq_name):
    """an instance of the real class (with the payload the layers look at)"""
    from exactly_lib.common.report_rendering import text_docs
    from exactly_lib.util.line_source import LineSequence
    from exactly_lib.processing import test_case_processing as tcp
    from exactly_lib.test_case import error_description
    msg = text_docs.single_pre_formatted_line_object('raised by the C18 stub')
    base, _, pl = coq_name.partition(':')
    cls = real_class(dict(CLASSES)[base])
    ls = LineSequence(1, ('stub line',))
    ei = tcp.ErrorInfo(error_description.of_constant_message('raised by the C18 stub'))
    if base == 'EHardError' or base == 'EActorParseException':
        return cls(msg)
    if base in ('ESectionElementError', 'EUnrecognizedSES', 'ERecognizedSES'):
        return cls(ls, 'stub message')
    if base == 'EInvalidInstrSyntax':
        return cls(ls)
    if base == 'EUnknownInstr':
        return cls(ls, 'name')
    if base == 'EInvalidInstrArg':
        return cls(ls, 'name', 'stub message')
    if base == 'EArgParsingImpl':
        return cls(ls, 'name', None, 'stub message')
    if base == 'ESingleInstrInvalidArg':
        return cls('stub message')
    if base == 'EFileSourceError':
        import pathlib
        from exactly_lib.section_document.source_location import SourceLocation, SourceLocationPath, SourceLocationInfo
        return cls(ls, 'stub message', 'setup',
                   SourceLocationInfo(pathlib.Path('.'), SourceLocationPath(SourceLocation(ls, pathlib.Path('f')), [])))
    if base == 'EFileAccessError':
        import pathlib
        from exactly_lib.section_document.source_location import SourceLocation
        return cls(pathlib.Path('f'), 'stub message', [SourceLocation(ls, pathlib.Path('f'))])
    if base == 'EProcessError':
        return cls(ei)
    if base == 'EAccessorError':
        return cls(tcp.AccessErrorType[pl], ei)
    if base == 'EPhaseStepFailure':
        from exactly_lib.execution.result import PhaseStepFailure, ExecutionFailureStatus
        from exactly_lib.execution.failure_info import ActPhaseFailureInfo
        from exactly_lib.execution import phase_step
        from exactly_lib.test_case.result.failure_details import FailureDetails
        fi = ActPhaseFailureInfo(phase_step.ACT__EXECUTE, FailureDetails.new_constant_message('stub'), 'actor', 'src')
        return cls(PhaseStepFailure(ExecutionFailureStatus[pl], fi))
    if base == 'ENotAnInteger':
        return cls('x')
    if base == 'EReError':
        return cls('stub message')
    return cls('raised by the C18 stub')


class StubProgram:
    """MainProgram with the real instruction set + an instruction `stub STEP CLASS` in every phase, and an actor that
    understands `stub STEP CLASS` as the whole act phase (anything else: the default actor)."""

    def __init__(self, sandbox_root):
        import io
        from exactly_lib.cli import main_program as mp
        from exactly_lib.cli.test_case_def import TestCaseDefinitionForMainProgram
        from exactly_lib.cli_default.program_modes import test_suite
        from exactly_lib.cli_default.program_modes.test_case import builtin_symbols, default_instructions_setup, \
            test_case_handling_setup
        from exactly_lib.common import instruction_name_and_argument_splitter
        from exactly_lib.common.instruction_setup import SingleInstructionSetup
        from exactly_lib.processing.instruction_setup import TestCaseParsingSetup, InstructionsSetup
        from exactly_lib.processing.parse.act_phase_source_parser import ActPhaseParser
        from exactly_lib.processing.act_phase import ActPhaseSetup
        from exactly_lib.processing.preprocessor import IdentityPreprocessor
        from exactly_lib.processing.test_case_handling_setup import TestCaseHandlingSetup
        from exactly_lib.section_document.element_parsers.section_element_parsers import InstructionParser
        from exactly_lib.test_case.phases.configuration import ConfigurationPhaseInstruction
        from exactly_lib.test_case.phases.setup.instruction import SetupPhaseInstruction
        from exactly_lib.test_case.phases.before_assert import BeforeAssertPhaseInstruction
        from exactly_lib.test_case.phases.assert_ import AssertPhaseInstruction
        from exactly_lib.test_case.phases.cleanup import CleanupPhaseInstruction
        from exactly_lib.test_case.phases.act.actor import Actor, ActionToCheck
        from exactly_lib.test_case.result import svh, sh, pfh, eh
        from exactly_lib.impls.actors.util.source_code_lines import all_source_code_lines__std_syntax

        def boom(spec, step):
            if spec[0] == step:
                raise make_exception(spec[1])

        def mk_instruction(phase, spec):
            class Common:
                def symbol_usages(self):
                    boom(spec, 'usages')
                    return []

                def validate_pre_sds(self, environment):
                    boom(spec, 'pre')
                    return svh.new_svh_success()

                def validate_post_setup(self, environment):
                    boom(spec, 'post')
                    return svh.new_svh_success()

            if phase == 'conf':
                class I(ConfigurationPhaseInstruction):
                    def main(self, configuration_builder):
                        boom(spec, 'main')
                        return svh.new_svh_success()
            elif phase == 'setup':
                class I(Common, SetupPhaseInstruction):
                    def main(self, environment, settings, os_services, settings_builder):
                        boom(spec, 'main')
                        return sh.new_sh_success()
            elif phase == 'before-assert':
                class I(Common, BeforeAssertPhaseInstruction):
                    def main(self, environment, settings, os_services):
                        boom(spec, 'main')
                        return sh.new_sh_success()
            elif phase == 'assert':
                class I(Common, AssertPhaseInstruction):
                    def main(self, environment, settings, os_services):
                        boom(spec, 'main')
                        return pfh.new_pfh_pass()
            else:
                class I(Common, CleanupPhaseInstruction):
                    def main(self, environment, settings, os_services, previous_phase):
                        boom(spec, 'main')
                        return sh.new_sh_success()
            return I()

        class StubParser(InstructionParser):
            def __init__(self, phase):
                self.phase = phase

            def parse(self, fs_location_info, source):
                spec = source.remaining_part_of_current_line.split()
                source.consume_current_line()
                boom(spec, 'parse')
                return mk_instruction(self.phase, spec)

        class StubAtc(ActionToCheck):
            def __init__(self, spec):
                self.spec = spec

            def symbol_usages(self):
                boom(self.spec, 'usages')
                return []

            def validate_pre_sds(self, environment):
                boom(self.spec, 'pre')
                return svh.new_svh_success()

            def validate_post_setup(self, environment):
                boom(self.spec, 'post')
                return svh.new_svh_success()

            def prepare(self, environment, os_services):
                boom(self.spec, 'prepare')
                return sh.new_sh_success()

            def execute(self, environment, os_services, atc_input, output_files):
                boom(self.spec, 'execute')
                return eh.new_eh_exit_code(0)

        default_actor = test_case_handling_setup.TheActor()

        class StubActor(Actor):
            def parse(self, instructions):
                lines = all_source_code_lines__std_syntax(instructions)
                if lines and lines[0].split()[:1] == ['stub']:
                    spec = lines[0].split()[1:]
                    boom(spec, 'parse')
                    return StubAtc(spec)
                return default_actor.parse(instructions)

        real = default_instructions_setup.INSTRUCTIONS_SETUP
        any_doc = real.setup_instruction_set['dir'].documentation

        def with_stub(d, phase):
            d = dict(d)
            d['stub'] = SingleInstructionSetup(StubParser(phase), any_doc)
            return d

        isetup = InstructionsSetup(with_stub(real.config_instruction_set, 'conf'),
                                   with_stub(real.setup_instruction_set, 'setup'),
                                   with_stub(real.before_assert_instruction_set, 'before-assert'),
                                   with_stub(real.assert_instruction_set, 'assert'),
                                   with_stub(real.cleanup_instruction_set, 'cleanup'))
        self.sds_raise = None
        real_splitter = instruction_name_and_argument_splitter.splitter
        real_act_parser = ActPhaseParser()
        from exactly_lib.section_document.section_element_parsing import SectionElementParser

        class StubActPhaseParser(SectionElementParser):
            """the act phase's element parser: `stubsection CLASS` raises, everything else is the real parser's"""

            def parse(self, fs_location_info, source):
                line = source.remaining_part_of_current_line
                if line.startswith('stubsection '):
                    raise make_exception(line.split()[1])
                return real_act_parser.parse(fs_location_info, source)

        def splitter(line):
            if line.startswith('stubname '):
                boom(['name', line.split()[1]], 'name')
            return real_splitter(line)

        def mk():
            if self.sds_raise is not None:
                raise make_exception(self.sds_raise)
            return tempfile.mkdtemp(prefix='exactly-', dir=sandbox_root)

        self.mp = mp.MainProgram(
            TestCaseHandlingSetup(ActPhaseSetup('stub actor', StubActor()), IdentityPreprocessor()), mk,
            TestCaseDefinitionForMainProgram(TestCaseParsingSetup(splitter, isetup, StubActPhaseParser()), builtin_symbols.ALL),
            test_suite.test_suite_definition(), io.DEFAULT_BUFFER_SIZE)


IDENTS = ['SYNTAX_ERROR', 'PASS', 'VALIDATION_ERROR', 'FAIL', 'SKIPPED', 'XFAIL', 'XPASS', 'HARD_ERROR', 'INTERNAL_ERROR',
          'FILE_ACCESS_ERROR', 'PRE_PROCESS_ERROR']


def classify_run(pr):
    """what C18 talks about: exit code, the outcome identifier (first line of stdout), whether an exception escaped"""
    first = pr.out.split('\n', 1)[0] if pr.out else ''
    ident = first if first in IDENTS else None
    return pr.exit_code, ident, (None if pr.exception is None else type(pr.exception))


def c_pres(exit_code, ident):
    """the observed (exit code, identifier) as a [pres] of the model; fail-closed"""
    table = {(0, 'PASS'): 'RExecuted PASS', (0, 'SKIPPED'): 'RExecuted SKIPPED', (32, 'FAIL'): 'RExecuted FAIL',
             (33, 'XFAIL'): 'RExecuted XFAIL', (33, 'XPASS'): 'RExecuted XPASS',
             (65, 'VALIDATION_ERROR'): 'RExecuted VALIDATION_ERROR', (128, 'HARD_ERROR'): 'RExecuted HARD_ERROR',
             (65, 'FILE_ACCESS_ERROR'): 'RAccess FILE_ACCESS_ERROR', (65, 'PRE_PROCESS_ERROR'): 'RAccess PRE_PROCESS_ERROR'}
    return table[(exit_code, ident)]


ROUTE_SITES = [
    # (Coq site, phase header, line)   {C} = class
    ('SNameExtract', '[setup]', 'stubname {C}'),
    ('SInstrParse', '[conf]', 'stub parse {C}'), ('SInstrParse', '[setup]', 'stub parse {C}'),
    ('SInstrParse', '[before-assert]', 'stub parse {C}'), ('SInstrParse', '[assert]', 'stub parse {C}'),
    ('SInstrParse', '[cleanup]', 'stub parse {C}'),
    ('SConfInstr', '[conf]', 'stub main {C}'),
    ('SInstrStep', '[setup]', 'stub usages {C}'), ('SInstrStep', '[setup]', 'stub pre {C}'),
    ('SInstrStep', '[setup]', 'stub main {C}'), ('SInstrStep', '[setup]', 'stub post {C}'),
    ('SInstrStep', '[before-assert]', 'stub usages {C}'), ('SInstrStep', '[before-assert]', 'stub pre {C}'),
    ('SInstrStep', '[before-assert]', 'stub post {C}'), ('SInstrStep', '[before-assert]', 'stub main {C}'),
    ('SInstrStep', '[assert]', 'stub usages {C}'), ('SInstrStep', '[assert]', 'stub pre {C}'),
    ('SInstrStep', '[assert]', 'stub post {C}'), ('SInstrStep', '[assert]', 'stub main {C}'),
    ('SInstrStep', '[cleanup]', 'stub usages {C}'), ('SInstrStep', '[cleanup]', 'stub pre {C}'),
    ('SInstrStep', '[cleanup]', 'stub main {C}'),
    ('SSectionParser', '[act]', 'stubsection {C}'),
    ('SSdsSetup', '[setup]', 'stub none {C}'),
    ('SActParse', '[act]', 'stub parse {C}'),
    ('SActStep', '[act]', 'stub usages {C}'), ('SActStep', '[act]', 'stub pre {C}'), ('SActStep', '[act]', 'stub post {C}'),
    ('SActStep', '[act]', 'stub prepare {C}'), ('SActStep', '[act]', 'stub execute {C}'),
]
PAYLOADS = {'EAccessorError': ['FILE_ACCESS_ERROR', 'PRE_PROCESS_ERROR', 'SYNTAX_ERROR'],
            'EPhaseStepFailure': ['SYNTAX_ERROR', 'VALIDATION_ERROR', 'FAIL', 'HARD_ERROR', 'INTERNAL_ERROR']}
C_ACC = {'FILE_ACCESS_ERROR': 'FILE_ACCESS_ERROR', 'PRE_PROCESS_ERROR': 'PRE_PROCESS_ERROR', 'SYNTAX_ERROR': 'ACC_SYNTAX_ERROR'}
C_FAIL = {'SYNTAX_ERROR': 'FSyntax', 'VALIDATION_ERROR': 'FValidation', 'FAIL': 'FFail', 'HARD_ERROR': 'FHard',
          'INTERNAL_ERROR': 'FInternal'}
# abstract classes cannot be raised
NOT_RAISABLE = {'EParseError', 'EKeyboardInterrupt'}


def c_exc(spec):
    base, _, pl = spec.partition(':')
    if base == 'EAccessorError':
        return '(Exc EAccessorError (PAcc %s))' % C_ACC[pl]
    if base == 'EPhaseStepFailure':
        return '(Exc EPhaseStepFailure (PStep %s))' % C_FAIL[pl]
    return '(Exc %s PNone)' % base


def route_table(work, quick=False):
    """[(site, mode, exception spec, observed)] by running the real program; observed = Coq term of type [res pres]"""
    root = tempfile.mkdtemp(prefix='c18-route-', dir=work)
    sbx = os.path.join(root, 'sbx')
    os.makedirs(sbx)
    sp = StubProgram(sbx)
    rows = []
    specs = []
    for c, _ in CLASSES:
        if c in NOT_RAISABLE:
            continue
        if c in PAYLOADS:
            specs += ['%s:%s' % (c, p) for p in PAYLOADS[c]]
        else:
            specs.append(c)
    case_path = os.path.join(root, 'r.case')
    try:
        for mode, conf in (('TPass', ''), ('TFail', '[conf]\nstatus = FAIL\n')):
            for site, header, line in ROUTE_SITES:
                if mode == 'TFail' and header == '[conf]' and site == 'SInstrParse':
                    continue
                for spec in specs:
                    if mode == 'TFail' and quick and not (spec.startswith('EPhaseStepFailure') or spec in ('EHardError', 'EKeyError')):
                        continue
                    if site == 'SConfInstr' and mode == 'TFail':
                        text = '[conf]\nstatus = FAIL\n' + line.replace('{C}', spec) + '\n'
                    else:
                        text = conf + header + '\n' + line.replace('{C}', spec) + '\n'
                    with open(case_path, 'w') as f:
                        f.write(text)
                    sp.sds_raise = spec if site == 'SSdsSetup' else None
                    pr = impl.run_main(sp.mp, [case_path], root, root)
                    code, ident, exc = classify_run(pr)
                    if exc is not None:
                        obs = '(Raise %s)' % c_exc(spec) if coq_class_of(exc) == spec.partition(':')[0] else \
                            '(Raise (Exc %s PNone))' % coq_class_of(exc)
                    elif (code, ident) == (129, 'INTERNAL_ERROR'):
                        # the identifier does not tell an executed INTERNAL_ERROR from the processor's last resort;
                        # the message does: only the executed one names a phase
                        obs = '(Ret (RExecuted INTERNAL_ERROR))' if '\nIn [' in '\n' + pr.err else '(Ret RInternal)'
                    elif (code, ident) == (65, 'SYNTAX_ERROR'):
                        obs = '(Ret (RExecuted SYNTAX_ERROR))' if 'Actor "' in pr.err or '\nIn [act]' in '\n' + pr.err and \
                            site.startswith('SAct') else '(Ret (RAccess ACC_SYNTAX_ERROR))'
                    else:
                        obs = '(Ret (%s))' % c_pres(code, ident)
                    rows.append((site, mode, spec, obs, text))
    finally:
        shutil.rmtree(root, ignore_errors=True)
    return rows


def pyeval_table():
    """every raisable modelled class raised inside the real python_evaluate (the expression text throws it)"""
    from exactly_lib.impls.types.integer import evaluate_integer as ei
    rows = []
    for c, q in CLASSES:
        if c in NOT_RAISABLE or c in PAYLOADS or not q.startswith('builtins.') and c != 'EReError':
            continue
        mod, _, name = q.rpartition('.')
        arg = "'x'"
        expr = "(_ for _ in ()).throw(__import__('%s').%s(%s))" % (mod, name, arg)
        try:
            ei.python_evaluate(expr)
            raise AssertionError('python_evaluate returned for ' + expr)
        except ei.NotAnIntegerException:
            rows.append((c, True))
        except BaseException as ex:
            if isinstance(ex, KeyboardInterrupt):
                raise
            if coq_class_of(type(ex)) != c:
                raise AssertionError('python_evaluate: %s came out as %r' % (c, ex))
            rows.append((c, False))
    # the exception python_evaluate raises itself for a non-int value
    try:
        ei.python_evaluate('1.5')
        raise AssertionError('python_evaluate returned for 1.5')
    except ei.NotAnIntegerException:
        rows.append(('ENotAnInteger', True))
    return rows


def replace_sub_table():
    """every raisable modelled class raised by the `sub` method of the compiled regex while the real `replace` transformer - built
    by the public parser from `replace a x` - is applied.  Only `re.compile` of parse_regex is wrapped; how the replacer is
    structured internally (classes, functions, closures) does not matter.  -> rows, or None = tie refused (recorded)"""
    from exactly_lib.impls.types.regex import parse_regex
    from exactly_lib.impls.types.string_transformer import parse_string_transformer
    from exactly_lib.test_case.hard_error import HardErrorException
    real_re = parse_regex.re
    tmp = tempfile.mkdtemp(prefix='c18-rst-', dir=common.work_dir(PROP))
    env = impl.app_env(tmp)
    state = {'spec': None, 'called': 0}

    class WrappedPattern:
        def __init__(self, real):
            self._real = real

        def sub(self, repl, string, count=0):
            state['called'] += 1
            raise make_exception(state['spec'])

        def __getattr__(self, name):
            return getattr(self._real, name)

    class ReShim:
        def compile(self, pattern, flags=0):
            return WrappedPattern(real_re.compile(pattern, flags))

        def __getattr__(self, name):
            return getattr(real_re, name)

    rows = []
    parse_regex.re = ReShim()
    try:
        for c, q in CLASSES:
            if c in NOT_RAISABLE:
                continue
            state['spec'] = c if c not in PAYLOADS else '%s:%s' % (c, PAYLOADS[c][0])
            seen = set()
            for src, text in (('replace a x', 'a\n'), ('replace -preserve-new-lines a x', 'a\n'), ('replace -preserve-new-lines a x', 'a')):
                state['called'] = 0
                try:
                    tr = impl.primitive_of(impl.parse_full(parse_string_transformer, src), env)
                    tr.transform(impl.str_source(text, env)).contents().as_str
                    seen.add('returned')
                except HardErrorException:
                    seen.add('hard')
                except BaseException as ex:
                    if isinstance(ex, KeyboardInterrupt):
                        raise
                    seen.add('same' if coq_class_nearest(type(ex)) == c else 'other:' + type(ex).__name__)
                if state['called'] == 0:
                    seen.add('sub-not-called')
            if seen - {'hard', 'same'} or len(seen) != 1:
                TIE_REFUSED['replace_sub (behavioural)'] = 'class %s: %s' % (c, sorted(seen))
                return None
            rows.append((c, seen == {'hard'}))
    finally:
        parse_regex.re = real_re
        shutil.rmtree(tmp, ignore_errors=True)
    return rows


def subclass_table():
    real = [(c, real_class(q)) for c, q in CLASSES]
    return [(c, [d for d, dk in real if issubclass(k, dk)]) for c, k in real]


def gen_tables(ctx):
    chains = read_chains()
    rows = route_table(ctx.work, ctx.quick)
    ctx.c18_route_rows = len(rows)
    lines = ['(* GENERATED on every run by harness/c18.py from the source and the running code under /repo/src. Do not edit. *)',
             'From Coq Require Import ZArith NArith List Bool String.',
             'From Exactly Require Import Model.Outcome Model.Errors.', 'Import ListNotations.', 'Open Scope string_scope.', '']

    def cl(xs, ty):
        return clist(xs) if xs else '(@nil %s)' % ty

    ch = []
    for key, _, _ in CHAIN_SITES:
        if chains[key] is None:
            ch.append('("%s", None)' % key)
            continue
        tries = cl([cl([cl(names, 'pyexc') for names in clauses], '(list pyexc)') for clauses in chains[key]],
                   '(list (list pyexc))')
        ch.append('("%s", Some %s)' % (key, tries))
    lines.append('(* None = tie refused for that function (it could not be found / read as described); see the evidence *)')
    lines.append('Definition gen_chains : list (string * option (list (list (list pyexc)))) :=\n  %s.\n' % clist(ch).replace('; (', ';\n   ('))
    lines.append('Definition gen_subclass : list (pyexc * list pyexc) :=\n  %s.\n' % clist(
        ['(%s, %s)' % (c, clist(ds)) for c, ds in subclass_table()]).replace('; (', ';\n   ('))
    lines.append('Definition gen_pyeval : list (pyexc * bool) :=\n  %s.\n' % clist(
        ['(%s, %s)' % (c, cbool(b)) for c, b in pyeval_table()]))
    rst = replace_sub_table()
    lines.append('Definition gen_replace_sub : list (pyexc * bool) :=\n  %s.\n' % (clist(
        ['(%s, %s)' % (c, cbool(b)) for c, b in rst]) if rst else '(@nil (pyexc * bool))'))
    ctx.c18_tie_refused = dict(TIE_REFUSED)
    lines.append('Definition gen_route : list (site * tc_status * exc * res pres) :=\n  [%s].\n' % ';\n   '.join(
        '(%s, %s, %s, %s)' % (site, mode, c_exc(spec), obs) for site, mode, spec, obs, _ in rows))
    common.write_if_changed(os.path.join(common.COQ, 'Gen', 'C18_tables.v'), '\n'.join(lines))
    return rows


# ---------------------------------------------------------------------------------------------
# running one case file through the real program, with a time limit
# ---------------------------------------------------------------------------------------------
# a token (start of line, after white space, a quote or `=`) that begins an absolute path; group 1 = the path
_ABS_TOKEN = re.compile(r'(?:^|[\s\'"=])(/)', re.M)
MAX_DOTDOT = 3  # < nesting depth of case directories and sandboxes below the scratch root (5)


class _Timeout(BaseException):
    pass


def _on_alarm(signum, frame):
    raise _Timeout()


class Runner:
    """MainProgram (default instruction set) in process; private sandbox root; stdin of the process is /dev/null"""

    def __init__(self, work, tag='run'):
        self.root = tempfile.mkdtemp(prefix='c18-%s-' % tag, dir=work)
        # sandboxes and case directories lie NEST levels below the scratch root, so that `..` in a generated path stays inside it
        self.sbx = os.path.join(self.root, 's1', 's2', 's3', 's4', 's5', 'sbx')
        self.cases = os.path.join(self.root, 'h1', 'h2', 'h3', 'h4', 'h5')
        self.io = os.path.join(self.root, 'io')  # captured stdout / stderr: out of the reach of the case
        self.skipped_unsafe = 0
        os.makedirs(self.sbx)
        os.makedirs(self.io)
        self.odd = []  # cases after which their own directory was gone or changed unexpectedly
        self.mp = impl.main_program(self.sbx)
        self.n = 0
        self._old_stdin = os.dup(0)
        self._devnull = os.open(os.devnull, os.O_RDONLY)
        os.dup2(self._devnull, 0)
        self.cwd0 = os.getcwd()

    def close(self):
        os.dup2(self._old_stdin, 0)
        os.close(self._old_stdin)
        os.close(self._devnull)
        os.chdir(self.cwd0)
        shutil.rmtree(self.root, ignore_errors=True)

    def new_dir(self):
        self.n += 1
        d = os.path.join(self.cases, 'd%d' % self.n)
        os.makedirs(d)
        return d

    def is_unsafe(self, text, files=None):
        """a generated case must not be able to write outside the scratch root: no absolute path outside it, and no more `..`
        than the nesting of the case directory / sandbox allows"""
        for t in [text] + [v for v in (files or {}).values() if isinstance(v, str)]:
            for m in _ABS_TOKEN.finditer(t):
                if not t[m.start(1):].startswith(self.root):
                    return True
            if t.count('..') > MAX_DOTDOT:
                return True
        return False

    def run_text(self, text, files=None, limit=10, keep=False):
        """-> (ProgramRun, timed_out, dir)"""
        d = self.new_dir()
        text = text.replace('{DIR}', os.path.basename(d)).replace('{ABS}', d)
        for name, contents in (files or {}).items():
            p = os.path.join(d, name)
            os.makedirs(os.path.dirname(p), exist_ok=True)
            if isinstance(contents, tuple):  # ('symlink', target relative to the link's directory)
                os.symlink(contents[1], p)
                continue
            with open(p, 'w', encoding='utf-8', newline='') as f:
                f.write(contents.replace('{DIR}', os.path.basename(d)).replace('{ABS}', d))
            if name in EXECUTABLES:
                os.chmod(p, 0o755)
        case = os.path.join(d, 'test.case')
        with open(case, 'w', encoding='utf-8', newline='') as f:
            f.write(text)
        old = signal.signal(signal.SIGALRM, _on_alarm)
        signal.alarm(limit)
        timed_out = False
        try:
            pr = impl.run_main(self.mp, [case], d, self.io)
        except _Timeout:
            timed_out = True
            pr = impl.ProgramRun(None, '', '', None)
            os.chdir(self.cwd0)
        finally:
            signal.alarm(0)
            signal.signal(signal.SIGALRM, old)
        if pr.exception is not None and isinstance(pr.exception, _Timeout):
            timed_out, pr = True, impl.ProgramRun(None, pr.out, pr.err, None)
        for fn in os.listdir(self.sbx):  # sandboxes are removed by the program; what a cut-off run leaves behind is ours
            shutil.rmtree(os.path.join(self.sbx, fn), ignore_errors=True)
        if not os.path.exists(case):
            self.odd.append(text)
        self.last_text = text
        if not keep:
            shutil.rmtree(d, ignore_errors=True)
        return pr, timed_out, d


def c_fobs(pr, timed_out, text, offending=None):
    code, ident, exc = classify_run(pr)
    if offending is None:
        shown = source_shown(text, pr.err)
    else:  # the line that is wrong by construction must be the one that is shown
        shown = any(l.strip() == offending.strip() for l in pr.err.splitlines())
    return '(FObs %s %s %s %s %s)' % (copt(code, cZ), copt(ident, cstring), cbool(exc is not None), cbool(timed_out),
                                       cbool(shown))


def source_shown(text, err):
    """stderr shows at least one non-blank line of the case (compared without surrounding white space), or - for an error
    about a phase as a whole, e.g. an act phase without source - names the phase"""
    lines = {l.strip() for l in text.splitlines() if l.strip()}
    return any(l.strip() in lines or _LOC.match(l) for l in err.splitlines() if l.strip())


# ---------------------------------------------------------------------------------------------
# (D1) integer expressions
# ---------------------------------------------------------------------------------------------
BINOPS = [('OAdd', '+'), ('OSub', '-'), ('OMul', '*'), ('OFloorDiv', '//'), ('OMod', '%'), ('OPow', '**'), ('OTrueDiv', '/')]
INT_LITS = [0, 1, 2, 3, 5, 7, 10, 64, 255, 256, 1000, 65536, 2 ** 31, 10 ** 12]
NAMES = ['zz', 'foo_1', 'X9', 'undefined']
FLOATS = ['1.5', '2e3', '0.0', '.5', '1e-3']


class TooBig(Exception):
    pass


def gen_iexpr(rng, depth):
    r = rng.below(20)
    if depth <= 0 or r < 6:
        q = rng.below(20)
        if q == 0:
            return ('name', rng.choice(NAMES))
        if q == 1:
            return ('float', rng.choice(FLOATS))
        v = rng.choice(INT_LITS) if rng.chance(0.6) else rng.below(12)
        return ('lit', v, rng.choice(['d', 'd', 'd', 'x', 'o', 'b', '_']))
    if r < 9:
        return (rng.choice(['neg', 'neg', 'pos', 'inv']), gen_iexpr(rng, depth - 1))
    op = rng.weighted([(0, 4), (1, 4), (2, 4), (3, 5), (4, 5), (5, 4), (6, 1)])
    return ('bin', op, gen_iexpr(rng, depth - 1), gen_iexpr(rng, depth - 1))


def iexpr_guard(e):
    """value (int), 'nonint' or 'exc' by a bounded evaluation; raises TooBig beyond the sizes we want to feed to Python and Coq"""
    t = e[0]
    if t == 'lit':
        return e[1]
    if t == 'float':
        return 'nonint'
    if t == 'name':
        return 'exc'
    if t in ('neg', 'pos', 'inv'):
        v = iexpr_guard(e[1])
        if not isinstance(v, int):
            return v
        return {'neg': -v, 'pos': v, 'inv': ~v}[t]
    a = iexpr_guard(e[2])
    if a == 'exc':
        return 'exc'
    b = iexpr_guard(e[3])
    if b == 'exc':
        return 'exc'
    if a == 'nonint' or b == 'nonint':
        if isinstance(a, int) and abs(a) > 10 ** 300 or isinstance(b, int) and abs(b) > 10 ** 300:
            raise TooBig()
        return 'nonint'
    op = e[1]
    if op == 5:
        if b < 0:
            return 'exc' if a == 0 else 'nonint'
        if b > 400 or abs(a).bit_length() * b > 3000:
            raise TooBig()
        return a ** b
    if op in (3, 4, 6) and b == 0:
        return 'exc'
    if op == 6:
        return 'nonint'
    v = [a + b, a - b, a * b, None, None][op] if op < 3 else (a // b if op == 3 else a % b)
    if abs(v).bit_length() > 3000:
        raise TooBig()
    return v


def render_lit(v, form):
    if form == 'x':
        return hex(v)
    if form == 'o':
        return oct(v)
    if form == 'b' and v < 2 ** 16:
        return bin(v)
    if form == '_' and v >= 1000:
        return '{:_}'.format(v)
    return str(v)


def render_iexpr(e, rng=None):
    t = e[0]
    if t == 'lit':
        return render_lit(e[1], e[2])
    if t in ('float', 'name'):
        return e[1]
    if t in ('neg', 'pos', 'inv'):
        return '(%s%s)' % ({'neg': '-', 'pos': '+', 'inv': '~'}[t], render_iexpr(e[1]))
    return '(%s %s %s)' % (render_iexpr(e[2]), BINOPS[e[1]][1], render_iexpr(e[3]))


def coq_iexpr(e):
    t = e[0]
    if t == 'lit':
        return '(ILit %s)' % cZ(e[1])
    if t == 'float':
        return 'IFloatLit'
    if t == 'name':
        return 'IName'
    if t in ('neg', 'pos', 'inv'):
        return '(%s %s)' % ({'neg': 'INeg', 'pos': 'IPos', 'inv': 'IInv'}[t], coq_iexpr(e[1]))
    return '(IBin %s %s %s)' % (BINOPS[e[1]][0], coq_iexpr(e[2]), coq_iexpr(e[3]))


def iexpr_nontrivial(e):
    """>= 2 operators, at least one of //, %, ** , /"""
    s = repr(e)
    return s.count("'bin'") + s.count("'neg'") + s.count("'inv'") >= 2 and any("'bin', %d" % k in s for k in (3, 4, 5, 6))


CORPUS_IEXPR = [
    ('bin', 3, ('lit', 1, 'd'), ('lit', 0, 'd')),  # 1//0  (FIX-C18-1)
    ('bin', 4, ('lit', 1, 'd'), ('lit', 0, 'd')),  # 1%0
    ('bin', 5, ('lit', 2, 'd'), ('neg', ('lit', 1, 'd'))),  # 2**-1: a float
    ('bin', 5, ('lit', 0, 'd'), ('neg', ('lit', 1, 'd'))),  # 0**-1: ZeroDivisionError
    ('bin', 3, ('neg', ('lit', 7, 'd')), ('lit', 2, 'd')),  # -7//2 = -4
    ('bin', 4, ('lit', 7, 'd'), ('neg', ('lit', 2, 'd'))),  # 7%-2 = -1
    ('bin', 6, ('lit', 4, 'd'), ('lit', 2, 'd')),  # 4/2 = 2.0: not an int
    ('bin', 0, ('name', 'zz'), ('bin', 3, ('lit', 1, 'd'), ('lit', 0, 'd'))),  # NameError before ZeroDivisionError
    ('bin', 2, ('float', '1.5'), ('lit', 2, 'd')),  # 3.0
    ('inv', ('lit', 5, 'd')),
]


def observe_iexpr(text):
    from exactly_lib.impls.types.integer import evaluate_integer as ei
    try:
        v = ei.python_evaluate(text)
        return '(OValue %s)' % cZ(int(v)), ('value', int(v))
    except ei.NotAnIntegerException:
        return 'ONotInt', ('notint',)
    except BaseException as ex:
        if isinstance(ex, KeyboardInterrupt):
            raise
        return '(OEscapes %s)' % coq_class_of(type(ex)), ('escapes', type(ex).__name__)


def eval_oracle(text):
    """what Python's eval itself does with the text, in the name space python_evaluate evaluates it in -> Coq [ires]"""
    from exactly_lib.impls.types.integer import evaluate_integer as ei
    try:
        v = eval(text, dict(vars(ei)), {'s': text})
    except BaseException as ex:
        if isinstance(ex, (KeyboardInterrupt, _Timeout)):
            raise
        return '(RExc %s)' % coq_class_nearest(type(ex))
    if isinstance(v, int):
        if abs(int(v)).bit_length() > 3000:
            return None  # too big to print: covered end to end (KF-C18-4)
        return '(RInt %s)' % cZ(int(v))
    return 'RNonInt'


def opaque_int_texts():
    """argument texts outside the modelled expression syntax: the ill-formed / extreme integer family (quotes of the test-case
    syntax removed), the digit-like family, and the two texts of KF-C18-3"""
    out = []
    for t in BAD_INTS:
        if len(t) >= 2 and t[0] == t[-1] and t[0] in '\'"':
            t = t[1:-1]
        if '@[' in t or t in out or '9**9**9' in t:
            continue
        out.append(t)
    return out + ['exit()', 'quit(3)']


def run_opaque_ints(ctx, res):
    """python_evaluate on every opaque text, against the model applied to what eval itself does with it"""
    terms, meta, findings = [], [], []
    for text in opaque_int_texts():
        oracle = eval_oracle(text)
        if oracle is None:
            continue
        direct, d = observe_iexpr(text)
        terms.append('(ICase (IOracle %s) %s None)' % (oracle, direct))
        meta.append({'kind': 'integer argument text', 'text': text, 'python_eval': oracle, 'python_evaluate': d})
        findings.append(KF_EXIT if d == ('escapes', 'SystemExit') and kf_exit_pred(text) else None)
        res.count('opaque integer text: ' + d[0])
        res.nontrivial.add(('o', text))
    cb, pb, errs = common.run_shards(PROP, ['Model.Outcome', 'Model.Errors', 'Spec.C18'], 'check_icase', terms, tag='ocases')
    res.errors += errs
    for i in pb:
        res.prop_failures.append(Failure('property', meta[i], 'an exception other than NotAnIntegerException leaves python_evaluate for '
                                                               'this argument text', finding=findings[i]))
    for i in cb:
        res.disagreements.append(Failure('correspondence', meta[i], 'python_evaluate differs from the model applied to what eval does '
                                                                     'with the text'))
    return len(terms)


def run_iexprs(ctx, res, runner):
    rng = ctx.rng
    n = 1500 if ctx.quick else 20000
    n_e2e = 250 if ctx.quick else 2500
    cases = []
    exprs = list(CORPUS_IEXPR)
    while len(exprs) < n + len(CORPUS_IEXPR):
        e = gen_iexpr(rng, rng.randint(1, 4))
        try:
            g = iexpr_guard(e)
        except TooBig:
            res.count('iexpr: regenerated (too big)')
            continue
        exprs.append(e)
    terms, meta = [], []
    for k, e in enumerate(exprs):
        text = render_iexpr(e)
        direct, d = observe_iexpr(text)
        run_t = 'None'
        info = {'kind': 'integer expression', 'expression': text, 'python_evaluate': d}
        if k < len(CORPUS_IEXPR) + n_e2e:
            case = '[assert]\nexit-code == "%s"\n' % text
            pr, to, _ = runner.run_text(case)
            code, ident, exc = classify_run(pr)
            info['case'] = case
            info['observed'] = {'exit': code, 'identifier': ident, 'exception': repr(pr.exception), 'timeout': to}
            if exc is not None or to or ident is None:
                res.prop_failures.append(Failure('property', info, 'exit-code == EXPR: no documented outcome'))
                continue
            run_t = '(Some (%s, %s))' % (cZ(code), cstring(ident))
            res.count('iexpr end-to-end: ' + ident)
        terms.append('(ICase %s %s %s)' % (coq_iexpr(e), direct, run_t))
        meta.append(info)
        res.count('iexpr: ' + d[0])
        if iexpr_nontrivial(e):
            res.nontrivial.add(('i', text))
    cb, pb, errs = common.run_shards(PROP, ['Model.Outcome', 'Model.Errors', 'Spec.C18'], 'check_icase', terms, tag='icases')
    res.errors += errs
    for i in pb:
        res.prop_failures.append(Failure('property', meta[i], 'an integer expression is reported as INTERNAL_ERROR / an exception '
                                                               'other than NotAnIntegerException leaves python_evaluate'))
    for i in cb:
        res.disagreements.append(Failure('correspondence', meta[i], 'model python_evaluate / exit-code model differs from the implementation'))
    res.samples.append(meta[len(CORPUS_IEXPR) + 3])
    return len(terms)


# ---------------------------------------------------------------------------------------------
# (D2) replacement templates
# ---------------------------------------------------------------------------------------------
REGEXES = ['a', '(a)', '(a)(b)?', '(?P<nm>a)', '(?P<x>a)(?P<y_1>b)|c', '((a)|(b))(c)?', '(?P<\u00e9>a)', '.', '(a)' * 11]
T_PLAIN = ['x', 'y', ' ', '<', '>', 'g', '0', '1', '9', '\u00e9', '&', '-', '_']
T_ESC = list('0123456789gntrabfvqzAZ&<>\\ _-') + ['\u00e9']
T_NAMES = ['nm', 'x', 'y_1', 'foo', '1', '0', '2', '12', '99', '1a', '', '-1', '\u00e9', ' 1', '\u0661', '\u20ac', '_', 'a-b', '007',
           '\\', 'n\\>m', '9999999999999999999999']


def gen_template(rng):
    parts = []
    for _ in range(rng.randint(0, 5)):
        r = rng.below(10)
        if r < 3:
            parts.append(rng.choice(T_PLAIN))
        elif r < 7:
            e = '\\' + rng.choice(T_ESC)
            if rng.chance(0.4):
                e += rng.choice('0123456789') + (rng.choice('0123456789') if rng.chance(0.5) else '')
            parts.append(e)
        else:
            g = '\\g' + ('<' if rng.chance(0.9) else '') + rng.choice(T_NAMES) + ('>' if rng.chance(0.85) else '')
            parts.append(g)
    if rng.chance(0.07):
        parts.append('\\')
    return ''.join(parts)


CORPUS_TEMPLATES = [('a', '\\6'), ('a', '\\g<foo>'), ('(a)', '\\g<foo>\\'), ('(a)', '\\1'), ('a', '\\q'), ('a', '\\'),
                    ('a', '\\400'), ('a', '\\377'), ('(?P<nm>a)', 'x\\1\\g<nm>\\n'), ('a', '\\g<0>'), ('(a)', '\\g<1'),
                    ('(?P<\u00e9>a)', '\\g<\u00e9>'), ('a', '\\g<\u0661>'), ('(a)' * 11, '\\11'), ('(a)' * 11, '\\111'),
                    ('(a)', '\\18'), ('a', '\\g<n\\>m>')]


def ident_table(tmpl):
    """str.isidentifier for every candidate group name of the template that has a non-ASCII character"""
    out = {}
    for i, c in enumerate(tmpl):
        if c == '<':
            j = tmpl.find('>', i + 1)
            if j > 0:
                name = tmpl[i + 1:j]
                if not name.isascii():
                    out[name] = name.isidentifier()
    return out


def observe_template(rx, tmpl):
    p = re.compile(rx)
    try:
        p.sub(tmpl, 'ab a')
        return 'TOk'
    except re.error:
        return 'TReError'
    except IndexError:
        return 'TIndexError'


def ctext_n(s):
    return common.ctext(s) if s else '(@nil N)'


def run_templates(ctx, res, runner):
    rng = ctx.rng
    n = 700 if ctx.quick else 8000
    pairs = list(CORPUS_TEMPLATES)
    while len(pairs) < n + len(CORPUS_TEMPLATES):
        t = gen_template(rng)
        if "'" in t or '@' in t or '\n' in t:
            continue
        pairs.append((rng.choice(REGEXES), t))
    terms, meta = [], []
    for rx, tmpl in pairs:
        p = re.compile(rx)
        obs_re = observe_template(rx, tmpl)
        case = "[setup]\nfile g.txt = -contents-of -rel-home in.txt -transformed-by replace '%s' '%s'\n" % (rx, tmpl)
        pr, to, _ = runner.run_text(case, files={'in.txt': 'ab a\n'})
        code, ident, exc = classify_run(pr)
        info = {'kind': 'replacement template', 'regex': rx, 'template': tmpl, 're_template_parser': obs_re, 'case': case,
                'observed': {'exit': code, 'identifier': ident, 'exception': repr(pr.exception), 'timeout': to}}
        if exc is not None:
            step = '(SUncaught %s)' % coq_class_of(exc)
        elif to:
            res.prop_failures.append(Failure('property', info, 'replace: the run did not terminate'))
            continue
        elif (code, ident) == (0, 'PASS'):
            step = 'SOk'
        elif (code, ident) == (128, 'HARD_ERROR'):
            step = '(SFail FHard)'
        elif (code, ident) == (129, 'INTERNAL_ERROR'):
            step = '(SFail FInternal)'
        else:
            res.errors.append('replace case with an outcome the generator does not expect: %r' % info)
            continue
        idt = ident_table(tmpl)
        terms.append('(TCase %s %s %s %s %s %s)' % (
            cN(p.groups), clist([ctext_n(k) for k in p.groupindex]) if p.groupindex else '(@nil ttext)',
            clist(['(%s, %s)' % (ctext_n(k), cbool(v)) for k, v in idt.items()]) if idt else '(@nil (ttext * bool))',
            ctext_n(tmpl), obs_re, step))
        meta.append(info)
        res.count('template: %s' % obs_re)
        if '\\' in tmpl:
            res.nontrivial.add(('t', rx, tmpl))
    cb, pb, errs = common.run_shards(PROP, ['Model.Outcome', 'Model.Errors', 'Spec.C18'], 'check_tcase', terms, tag='tcases')
    res.errors += errs
    for i in pb:
        res.prop_failures.append(Failure('property', meta[i], 'replace with this replacement string ends in INTERNAL_ERROR / an escaping '
                                                               'exception instead of HARD_ERROR'))
    for i in cb:
        res.disagreements.append(Failure('correspondence', meta[i], 'model parse_template / replace_step differs from the implementation'))
    res.samples.append(meta[len(CORPUS_TEMPLATES) + 2])
    return len(terms)


RULE = ('three streams. (1) integer expressions: random syntax trees (depth <= 4; literals in decimal/hex/octal/binary/underscore form, '
        'float literals, undefined names; unary - + ~; binary + - * // % ** /; magnitudes bounded to 3000 bits) rendered to Python '
        'text, through the real python_evaluate and (a sample) end to end through `exit-code == EXPR`; corpus of the repaired defects '
        'first; non-trivial := >= 2 operators incl. one of // % ** /. (2) replacement templates: random sequences of plain '
        'characters, backslash escapes (digits, letters, g, one to three digits), \\g<NAME> groups (names: defined, undefined, numeric, '
        'ill-formed, non-ASCII; with and without closing >), trailing backslash, x 9 regexes with 0..11 groups and named groups, through '
        're and end to end through `file .. = -contents-of F -transformed-by replace RX TEMPLATE`; non-trivial := template with a '
        'backslash. (3) fuzz: valid cases from a grammar over all instructions of all phases and all types (string, list, path, '
        'integer, integer/line/text/file/files-matcher, files-condition, files-source, text-source, text-transformer, program, '
        'here-documents, symbols of every type, four actors), each run as is and mutated: token deletion / duplication / replacement '
        '(by a token of any earlier case or an odd character) / transposition, truncation at any character, quote imbalance, '
        'wrong-type arguments (symbol of another type, keyword of another type, type of a definition), ill-formed or extreme '
        'integers / regexes / globs / replacement strings, line deletion / duplication / swap / join / garbage, phase headers '
        '(unknown, malformed, moved), single-character damage (incl. NUL, NBSP, U+2028, BOM), combinations; corpus of known '
        'failing inputs first; non-trivial := mutated case; distinct := distinct text')


def run(ctx, res):
    runner = Runner(ctx.work)
    try:
        n = run_iexprs(ctx, res, runner)
        n += run_opaque_ints(ctx, res)
        n += run_templates(ctx, res, runner)
        n += run_fuzz(ctx, res, runner)
        if not ctx.quick:
            n += reproduce_hang(ctx, res)
    finally:
        runner.close()
    res.evaluations = n
    res.extra['cases_that_removed_their_own_file'] = runner.odd[:5]
    res.extra['disagreement_samples'] = [{'case': d.case, 'detail': d.detail} for d in res.disagreements[:5]]
    res.rule = RULE
    res.extra['route_table_rows'] = getattr(ctx, 'c18_route_rows', None)
    res.extra['source_tie_refused'] = getattr(ctx, 'c18_tie_refused', {})


def reproduce_hang(ctx, res):
    """KF-C18-5, only in a child process with a time limit and an address-space limit"""
    import resource
    d = tempfile.mkdtemp(prefix='c18-hang-', dir=ctx.work)
    case = os.path.join(d, 'hang.case')
    text = '[assert]\nexit-code == "9**9**9**9"\n'
    with open(case, 'w') as f:
        f.write(text)
    env = dict(os.environ, PYTHONPATH=common.REPO + '/src', PYTHONWARNINGS='ignore')

    def limits():
        resource.setrlimit(resource.RLIMIT_AS, (3 << 30, 3 << 30))

    info = {'kind': 'child process', 'case': text, 'time_limit_s': 5}
    try:
        p = subprocess.run([sys.executable, common.REPO + '/src/default-main-program-runner.py', case], cwd=d, env=env,
                           stdout=subprocess.PIPE, stderr=subprocess.PIPE, timeout=5, preexec_fn=limits, text=True)
        info['observed'] = {'exit': p.returncode, 'stdout': p.stdout[:200]}
        res.count('hang reproduction: terminated (exit %s)' % p.returncode)
    except subprocess.TimeoutExpired:
        info['observed'] = {'timeout': True}
        res.prop_failures.append(Failure('property', info, 'Exactly did not terminate within the time limit', finding=KF_HANG))
        res.count('hang reproduction: did not terminate in 5 s')
    shutil.rmtree(d, ignore_errors=True)
    return 1


def search(ctx, res):
    """failing-input search (a proof or the correspondence broke): the three streams again, from a derived seed, at three times
    the quick size; returns the property failures found"""
    ctx2 = common.Ctx(PROP, 'quick', ctx.seed * 7919 + 13)
    ctx2.work = ctx.work
    found = []
    for rnd in range(3):
        r2 = common.Result()
        runner = Runner(ctx.work, 'search')
        try:
            run_iexprs(ctx2, r2, runner)
            run_opaque_ints(ctx2, r2)
            run_templates(ctx2, r2, runner)
            run_fuzz(ctx2, r2, runner)
        finally:
            runner.close()
        found += r2.prop_failures
        if any(f.finding is None for f in found):
            break
    return found


def replay(ctx, payload):
    case = payload.get('case') or (payload.get('correspondence_disagreements') or [{}])[0].get('case') or {}
    text = case.get('case')
    print(json.dumps({k: v for k, v in case.items() if k != 'observed'}, indent=1, default=str))
    if text is None:
        print(json.dumps(payload, indent=1, default=str)[:4000])
        return 0
    os.makedirs(ctx.work, exist_ok=True)
    runner = Runner(ctx.work, 'replay')
    try:
        files = dict(HOME_FILES)
        if case.get('kind') == 'replacement template':
            files['in.txt'] = 'ab a\n'
        extra = {k: (tuple(v) if isinstance(v, list) else v) for k, v in (case.get('extra_files') or {}).items()}
        term, info, finding, o = run_one_fuzz(runner, text, common.Result(), 'replay', None, extra or None)
    finally:
        runner.close()
    print('stored observation :', json.dumps(case.get('observed'), default=str)[:1500])
    print('observed now       :', json.dumps(info['observed'], default=str)[:1500])
    print('known finding      :', finding)
    vals, out = common.coq_eval_terms(PROP, ['Model.Outcome', 'Model.Errors', 'Spec.C18'], ['check_fcase %s' % term], tag='replay')
    print('check_fcase (correspondence, property) =', vals[0] if vals else out[-800:])
    return 0


# ---------------------------------------------------------------------------------------------
# (D3) the grammar of valid test cases: tokens are (role, text); 'nl' ends a line
# ---------------------------------------------------------------------------------------------
NL = ('nl', '\n')
SYMBOLS = {  # type -> (name, definition generator name)
    'string': 'S_STR', 'list': 'S_LIST', 'path': 'S_PATH', 'integer-matcher': 'S_IM', 'line-matcher': 'S_LM',
    'file-matcher': 'S_FM', 'files-matcher': 'S_FSM', 'files-condition': 'S_FC', 'files-source': 'S_FSRC',
    'text-source': 'S_TS', 'text-matcher': 'S_TM', 'text-transformer': 'S_TT', 'program': 'S_PGM',
}
HOME_FILES = {'in.txt': 'ab a\nsecond line\n\nlast', 'empty.txt': '', 'd/x.txt': 'x\n', 'd/y.log': 'y\ny\n', 'd/sub/z.txt': 'z\n',
              'prog.sh': '#!/bin/sh\necho out\necho err >&2\nexit 0\n', 'src.py': 'print("py")\n',
              'inc.xly': 'def string INCLUDED = from-included-file\n', 'inc2.xly': '# only a comment\n'}
EXECUTABLES = ['prog.sh']


BUILTIN_PATH_SYMBOLS = ['EXACTLY_HOME', 'EXACTLY_ACT_HOME', 'EXACTLY_ACT', 'EXACTLY_TMP', 'EXACTLY_RESULT']


def kw(s):
    return ('kw', s)


def op(s):
    return ('op', s)


class Gram:
    def __init__(self, rng, chain_focus=False):
        self.rng = rng
        self.chain_focus = chain_focus
        self.act_focus = False
        self.defined = set()  # symbol types defined in this case
        self.n_files = 0
        self.included = 0
        self.composed_names = []  # symbols whose value references other symbols
        self.chain_defs = 0
        self.dirs = []  # directories created in the sandbox (relative act dir)
        self.files = []  # files created in the sandbox

    # ---- small helpers
    def ch(self, xs):
        return self.rng.choice(xs)

    def p(self, x):
        return self.rng.chance(x)

    def sym(self, ty):
        return ('sym:' + ty, SYMBOLS[ty])

    def has(self, ty):
        return ty in self.defined

    def new_name(self, ext='.txt'):
        self.n_files += 1
        return 'f%d%s' % (self.n_files, ext)

    # ---- data types
    def composed(self):
        """a reference to one of the composed symbols defined so far (symbols whose value references other symbols)"""
        name = self.ch(self.composed_names)
        return self.ch(['@[%s]@', '@[%s]@', '"@[%s]@"', 'x@[%s]@', '"@[%s]@ + 1"']) % name

    def string(self):
        r = self.rng.below(10)
        if self.composed_names and self.p(0.25):
            return [('str', self.composed())]
        if self.p(0.06):
            return [('str', self.ch(['@[%s]@', '"@[%s]@/x"', 'pre@[%s]@']) % self.ch(BUILTIN_PATH_SYMBOLS))]
        if r < 4:
            return [('str', self.ch(['abc', 'x', 'hello', 'a.b', 'A1', 'line']))]
        if r < 6:
            return [('str', self.ch(["'a b'", "'it is'", "''", "'x  y'"]))]
        if r < 8:
            return [('str', self.ch(['"a b"', '"q"', '""', '"tab\tbed"']))]
        if self.has('string'):
            return [('str', self.ch(['@[S_STR]@', '"pre @[S_STR]@ post"', 'x@[S_STR]@']))]
        return [('str', 'plain')]

    def here_doc(self):
        m = self.ch(['EOF', 'END', 'MARKER'])
        lines = [self.ch(['ab a', 'line', '', 'x y z', '  indented', 'ab a']) for _ in range(self.rng.randint(0, 3))]
        out = [('hd', '<<' + m), NL]
        for l in lines:
            out += [('hdline', l), NL]
        out += [('hdend', m)]
        return out

    def rich_string(self, eol_ok=True):
        r = self.rng.below(10)
        if eol_ok and r == 0:
            return [('op', ':>'), ('raw', self.ch(['text until end of line', 'a "b" c', "x 'y"]))]
        if eol_ok and r < 3:
            return self.here_doc()
        return self.string()

    def list_(self):
        out = []
        for _ in range(self.rng.randint(0, 3)):
            if self.has('list') and self.p(0.2):
                out.append(('str', '@[S_LIST]@'))
            else:
                out += self.string()
        return out

    def integer(self):
        r = self.rng.below(12)
        if self.composed_names and self.p(0.15):
            return [('int', self.composed())]
        if r < 7:
            return [('int', str(self.rng.below(6)))]
        if r < 9:
            return [('int', self.ch(['1+1', '2*3', '10//3', '"1 + 2"', "'7 % 4'", '2**3', '(1+2)']))]
        if r < 10 and self.has('string'):
            return [('int', self.ch(['@[S_STR]@', '"@[S_STR]@ + 1"']))]
        return [('int', self.ch(['12', '100', '65536', '0']))]

    def regex(self):
        out = []
        if self.p(0.15):
            out.append(kw('-ignore-case'))
        if self.p(0.08):
            sym = self.ch(BUILTIN_PATH_SYMBOLS + ([SYMBOLS['path']] if self.has('path') else []) + self.composed_names)
            out.append(('regex', self.ch(['@[%s]@', '"^@[%s]@/"', "x@[%s]@"]) % sym))
            return out
        out.append(('regex', self.ch(['a', 'ab', "'a.*b'", '"^a"', "'(a)|(b)'", "'[a-c]+'", 'x$', "'l(i)ne'", "'\\\\.txt$'", "'a{1,2}'"])))
        return out

    def glob(self):
        return [('glob', self.ch(['*.txt', "'*'", 'x*', "'?.txt'", '[xy]*', "'**/*.txt'", '*.log']))]

    def fname_new(self, ext='.txt'):
        return [('fname', self.new_name(ext))]

    def path_existing_file(self):
        r = self.rng.below(12)
        if r >= 10:
            return [('fname', self.ch(['in.txt', 'empty.txt', 'd/x.txt', "'in.txt'", '"d/x.txt"']))]  # default relativity
        if r < 4:
            return [kw('-rel-home'), ('fname', self.ch(['in.txt', 'empty.txt', 'd/x.txt']))]
        if r < 6 and self.files:
            return [kw('-rel-act'), ('fname', self.ch(self.files))]
        if r < 7 and self.has('path'):
            return [kw('-rel'), self.sym('path'), ('fname', 'x.txt')]
        return [kw('-rel-home'), ('fname', 'in.txt')]

    def path_existing_dir(self):
        r = self.rng.below(12)
        if r >= 10:
            return [('fname', self.ch(['d', 'd/sub', "'d'"]))]
        if r < 5:
            return [kw('-rel-home'), ('fname', self.ch(['d', 'd/sub']))]
        if r < 7 and self.dirs:
            return [kw('-rel-act'), ('fname', self.ch(self.dirs))]
        if r < 8 and self.has('path'):
            return [('fname', '@[S_PATH]@')]
        return [kw('-rel-home'), ('fname', 'd')]

    def path_new(self, ext='.txt'):
        r = self.rng.below(10)
        if r < 4:
            return self.fname_new(ext)
        if r < 7:
            return [kw(self.ch(['-rel-act', '-rel-tmp', '-rel-cd']))] + self.fname_new(ext)
        if r < 8:
            return [('fname', 'newdir%d/' % self.n_files + self.new_name(ext))]
        return self.fname_new(ext)

    # ---- matchers (d = remaining depth; simple=True: no unparenthesised infix operators at top)
    def _combine(self, prim, d, simple, ty, conj=('&&', '||')):
        r = self.rng.below(10)
        if d <= 0 or r < 6:
            return prim()
        if r < 7 and conj != ('|',):
            return [op('!')] + self._combine(prim, d - 1, True, ty, conj)
        if r < 8 and self.has(ty):
            return [self.sym(ty)]
        if r < 9 and conj != ('|',):
            return [kw('constant'), kw(self.ch(['true', 'false']))]
        inner = self._combine(prim, d - 1, True, ty, conj) + [op(self.ch(conj))] + self._combine(prim, d - 1, True, ty, conj)
        if simple or self.p(0.5):
            return [op('(')] + inner + [op(')')]
        return inner

    def int_matcher(self, d=1, simple=True):
        return self._combine(lambda: [op(self.ch(['==', '!=', '<', '<=', '>', '>=']))] + self.integer(), d, simple, 'integer-matcher')

    def line_matcher(self, d=1, simple=True):
        def prim():
            if self.p(0.5):
                return [kw('line-num')] + self.int_matcher(d - 1)
            return [kw('contents')] + self.text_matcher(d - 1, True, programs=False)
        return self._combine(prim, d, simple, 'line-matcher')

    def text_matcher(self, d=1, simple=True, programs=True):
        def prim():
            r = self.rng.below(12)
            if r == 0:
                return [kw('is-empty')]
            if r < 3:
                return [kw(self.ch(['equals', '=='])), ] + self.text_source(d - 1, eol_ok=False)
            if r < 5:
                return [kw(self.ch(['matches', '~']))] + ([kw('-full')] if self.p(0.3) else []) + self.regex()
            if r < 7:
                return [kw(self.ch(['every', 'any'])), kw('line'), op(':')] + self.line_matcher(d - 1)
            if r < 9:
                return [kw('num-lines')] + self.int_matcher(d - 1)
            if r < 10 and d > 0:
                return [kw('-transformed-by')] + self.text_transformer(d - 1, True) + self.text_matcher(d - 1, True, programs)
            if r < 11 and programs and d > 0:
                return [kw('run')] + self.program(d - 1)
            return [kw('is-empty')]
        return self._combine(prim, d, simple, 'text-matcher')

    def text_transformer(self, d=1, simple=True):
        def prim():
            r = self.rng.below(14)
            if r < 2:
                if self.p(0.4):
                    rs = []
                    for _ in range(self.rng.randint(1, 3)):
                        a, b = self.rng.randint(-3, 5), self.rng.randint(-3, 5)
                        rs.append(('int', self.ch([str(a), ':%d' % b, '%d:' % a, '%d:%d' % (a, b)])))
                    return [kw('filter'), kw('-line-nums')] + rs
                return [kw('filter')] + self.line_matcher(d - 1)
            if r < 4:
                return [kw('grep')] + ([kw('-full')] if self.p(0.2) else []) + self.regex()
            if r < 7:
                out = [kw('replace')]
                if self.p(0.2):
                    out += [kw('-at')] + self.line_matcher(d - 1)
                if self.p(0.3):
                    out.append(kw('-preserve-new-lines'))
                return out + self.regex() + [('repl', self.ch(['X', "'<\\1>'", "'\\n'", '""', "'a\\\\b'", "'\\g<0>'"]))]
            if r < 8:
                return [kw('char-case'), kw(self.ch(['-to-lower', '-to-upper']))]
            if r < 10:
                return [kw('strip')] + ([kw(self.ch(['-trailing-space', '-trailing-new-lines']))] if self.p(0.5) else [])
            if r < 11:
                return [kw('replace-test-case-dirs')]
            if r < 12:
                return [kw('identity')]
            return [kw('identity')]
        return self._combine(prim, d, simple, 'text-transformer', conj=('|',))

    def file_matcher(self, d=1, simple=True):
        def prim():
            r = self.rng.below(12)
            if r < 3:
                return [kw('type'), kw(self.ch(['file', 'dir', 'symlink']))]
            if r < 5:
                return [kw('contents')] + self.text_matcher(d - 1, True, programs=False)
            if r < 6 and d > 0:
                return [kw('dir-contents')] + self.dc_options() + self.files_matcher(d - 1, True)
            if r < 10:
                k = kw(self.ch(['path', 'name', 'stem', 'suffixes', 'suffix']))
                return [k] + (self.glob() if self.p(0.6) else [op('~')] + self.regex())
            return [kw('type'), kw('file')]
        return self._combine(prim, d, simple, 'file-matcher')

    def dc_options(self):
        if not self.p(0.3):
            return []
        out = [kw('-recursive')]
        if self.p(0.4):
            out += [kw('-min-depth')] + self.integer()
        if self.p(0.4):
            out += [kw('-max-depth')] + self.integer()
        return out

    def files_matcher(self, d=1, simple=True):
        def prim():
            r = self.rng.below(12)
            if r < 2:
                return [kw('is-empty')]
            if r < 4:
                return [kw('matches')] + ([kw('-full')] if self.p(0.3) else []) + self.files_condition(d - 1)
            if r < 6:
                return [kw(self.ch(['every', 'any'])), kw('file'), op(':')] + self.file_matcher(d - 1)
            if r < 8:
                return [kw('num-files')] + self.int_matcher(d - 1)
            if r < 10 and d > 0:
                return [kw(self.ch(['-selection', '-with-pruned']))] + self.file_matcher(d - 1) + self.files_matcher(d - 1, True)
            return [kw('is-empty')]
        return self._combine(prim, d, simple, 'files-matcher')

    def files_condition(self, d=1):
        if self.has('files-condition') and self.p(0.2):
            return [self.sym('files-condition')]
        out = [op('{'), NL]
        for _ in range(self.rng.randint(0, 3)):
            out.append(('fname', self.ch(['x.txt', 'y.log', 'sub', 'sub/z.txt', "'no such'"])))
            if self.p(0.5):
                out += [op(':')] + self.file_matcher(d - 1, False)
            out.append(NL)
        return out + [op('}')]

    def files_source(self, d=1):
        r = self.rng.below(10)
        if r < 2:
            return [kw('dir-contents-of')] + self.path_existing_dir()
        if r < 3 and self.has('files-source'):
            return [self.sym('files-source')]
        out = [op('{'), NL]
        for i in range(self.rng.randint(0, 3)):
            if self.p(0.7):
                out += [kw('file'), ('fname', 'g%d.txt' % i)]
                if self.p(0.6):
                    out += [op('=')] + self.text_source(d - 1, eol_ok=False)
            else:
                out += [kw('dir'), ('fname', 'gd%d' % i)]
                if self.p(0.3) and d > 0:
                    out += [op('=')] + self.files_source(d - 1)
            out.append(NL)
        return out + [op('}')]

    def text_source(self, d=1, eol_ok=True):
        r = self.rng.below(12)
        if r < 5:
            out = self.rich_string(eol_ok)
            if out[-1][0] in ('raw', 'hdend'):
                return out
        elif r < 8:
            out = [kw('-contents-of')] + self.path_existing_file()
        elif r < 9 and self.has('text-source'):
            out = [('str', '@[S_TS]@')]
        elif r < 10 and eol_ok and d > 0:
            return [kw(self.ch(['-stdout-from', '-stderr-from']))] + ([kw('-ignore-exit-code')] if self.p(0.3) else []) + self.program(d - 1)
        else:
            out = self.string()
        if self.p(0.25) and d > 0:
            out += [kw('-transformed-by')] + self.text_transformer(d - 1, True)
        return out

    def program(self, d=1):
        """ends its line"""
        r = self.rng.below(12)
        if r < 4:
            out = [op('%'), ('str', self.ch(['echo', 'true', 'cat', 'echo']))] + self.program_args()
        elif r < 7:
            out = [op('$'), ('raw', self.ch(['true', 'echo hello', 'echo a b > out-sh.txt', 'cat', 'exit 0', 'exit 3', 'echo err >&2']))]
        elif r < 8 and self.has('program'):
            out = [op('@'), self.sym('program')] + self.program_args()
        elif r < 9:
            out = [kw('-python'), ('str', '-c'), op(':>'), ('raw', self.ch(['pass', 'print(1)', 'import sys; sys.exit(0)']))]
        elif r < 10:
            out = [kw('-rel-home'), ('fname', 'prog.sh')] + self.program_args()
        else:
            out = [op('%'), ('str', 'echo')] + self.program_args()
        if self.p(0.15) and d > 0:
            out += [NL, kw('-stdin')] + self.text_source(d - 1, eol_ok=False)
        if self.p(0.15) and d > 0:
            out += [NL, kw('-transformed-by')] + self.text_transformer(d - 1, True)
        return out

    def program_args(self, rich=False):
        out = []
        for _ in range(self.rng.randint(0, 4 if rich else 3)):
            r = self.rng.below(10)
            if rich and r < 5:
                r = 6 + self.rng.below(4)
            if r < 6:
                out += self.string()
            elif r < 7:
                out += [kw('-existing-file')] + self.path_existing_file()
            elif r < 8:
                out += [kw('-existing-dir')] + self.path_existing_dir()
            elif r < 9 and rich:
                out += [kw('-existing-path')] + (self.path_existing_file() if self.p(0.5) else self.path_existing_dir())
            else:
                out += [('str', self.ch(['-x', '--opt', 'arg']))]
        if self.p(0.1):
            out += [op(':>'), ('raw', 'rest of the line')]
        return out

    # ---- instructions
    def def_(self, ty):
        name = SYMBOLS[ty]
        value = {
            'string': lambda: self.rich_string(),
            'list': lambda: self.list_(),
            'path': lambda: [kw(self.ch(['-rel-home', '-rel-act-home', '-rel-here'])), ('fname', 'd')],
            'integer-matcher': lambda: self.int_matcher(2, False),
            'line-matcher': lambda: self.line_matcher(2, False),
            'file-matcher': lambda: self.file_matcher(2, False),
            'files-matcher': lambda: self.files_matcher(2, False),
            'files-condition': lambda: self.files_condition(1),
            'files-source': lambda: self.files_source(1),
            'text-source': lambda: self.text_source(1),
            'text-matcher': lambda: self.text_matcher(2, False),
            'text-transformer': lambda: self.text_transformer(2, False),
            'program': lambda: self.program(1),
        }[ty]()
        self.defined.add(ty)
        return [kw('def'), kw(ty), ('symdef', name), op('=')] + value

    def chain_def(self):
        """def of a symbol of a data type whose value references 1..3 earlier symbols (any data type, any order)"""
        self.chain_defs += 1
        name = 'C%d' % self.chain_defs
        pool = [SYMBOLS[t] for t in ('string', 'list', 'path') if t in self.defined] + self.composed_names
        if self.p(0.3):
            pool = pool + BUILTIN_PATH_SYMBOLS
        lits = ['1', '2', 'a', 'd/', '-', ' ', '+']  # never a leading '/': a composed value must not become an absolute path
        parts = []
        for _ in range(self.rng.randint(1, 3)):
            parts.append('@[%s]@' % self.ch(pool) if pool and self.p(0.8) else self.ch(lits))
            if self.p(0.3):
                parts.append(self.ch(lits))
        ty = self.ch(['string', 'string', 'string', 'list', 'path'])
        if ty == 'string':
            v = ''.join(parts)
            value = [('str', v if ' ' not in v else '"%s"' % v)]
        elif ty == 'list':
            value = [('str', x) for x in parts if x.strip()] or [('str', 'e')]
        else:
            value = [kw(self.ch(['-rel-act', '-rel-home', '-rel-tmp'])), ('fname', ''.join(x for x in parts if x.strip()) or 'p')]
        self.composed_names.append(name)
        return [kw('def'), kw(ty), ('symdef', name), op('=')] + value

    def chain_use(self):
        """a use of a composed symbol where only plain strings are allowed (or where a path / list is natural)"""
        u = self.rng.below(9)
        c = ('str', self.composed())
        if u == 0:
            return [kw('file'), kw('-rel-act'), c, op('='), ('str', 'contents')]
        if u == 1:
            return [kw('env'), ('str', 'MY_VAR'), op('='), c]
        if u == 2:
            return [op('%'), c, ('str', 'arg')]
        if u == 3:
            return [kw('timeout'), op('='), ('int', c[1])]
        if u == 4:
            return [kw('dir'), kw('-rel-act'), ('fname', self.new_name('')), op('='), op('{'), NL, kw('file'), c, NL, op('}')]
        if u == 5:
            return [kw('run'), op('%'), ('str', 'echo'), c, kw('-existing-path'), c]
        if u == 6:
            return [kw('file'), kw('-rel-act'), ('fname', self.new_name()), op('='), c, kw('-transformed-by'), kw('filter'),
                    kw('-line-nums'), ('int', c[1])]
        if u == 7:
            return [kw('file'), kw('-rel-act'), ('fname', self.new_name()), op('='), ('str', 'x'), kw('-transformed-by'),
                    kw('replace'), ('regex', c[1]), ('repl', c[1])]
        return [kw('copy'), kw('-rel-home'), ('fname', 'in.txt'), kw('-rel-act'), c]

    def chain_case(self):
        """symbols of the data types, symbols composed of references to them (chains), and uses of the composed ones"""
        self.chain_focus = True
        lines = [[('phase', '[setup]')]]
        for ty in ('string', 'path', 'list'):
            if self.p(0.75):
                lines.append(self.def_(ty))
        for _ in range(self.rng.randint(1, 3)):
            lines.append(self.chain_def())
        for _ in range(self.rng.randint(0, 2)):
            lines.append(self.chain_use() if self.p(0.7) else self.multi_phase('setup'))
        if self.p(0.5):
            lines += [[('phase', '[act]')], [op('$'), ('raw', 'true')]]
        lines.append([('phase', '[assert]')])
        for _ in range(self.rng.randint(1, 3)):
            lines.append(self.assert_instr())
        if self.p(0.3):
            lines += [[('phase', '[cleanup]')], self.chain_use()]
        return lines

    def multi_phase(self, phase):
        r = self.rng.below(20)
        if self.p(0.05):
            self.included += 1
            return [kw('including'), ('fname', 'inc.xly' if self.included == 1 else 'inc2.xly')]
        if self.chain_focus and self.composed_names and self.p(0.3):
            return self.chain_use()
        if r < 2:
            return [op('$'), ('raw', self.ch(['true', 'echo hello', 'echo x > sh-out.txt', 'cat', 'exit 0', 'exit 0', 'exit 2']))]
        if r < 3:
            return [op('%'), ('str', self.ch(['echo', 'true']))] + self.program_args()
        if r < 5:
            return [kw('run')] + ([kw('-ignore-exit-code')] if self.p(0.3) else []) + self.program(1)
        if r < 6:
            if self.dirs and self.p(0.7):
                return [kw('cd'), kw('-rel-act'), ('fname', self.ch(self.dirs))]
            return [kw('cd'), kw(self.ch(['-rel-act', '-rel-tmp', '-rel-cd'])), ('fname', '.')]
        if r < 7:
            out = [kw('copy')] + (self.path_existing_file() if self.p(0.6) else self.path_existing_dir())
            if self.p(0.5):
                out += [kw(self.ch(['-rel-act', '-rel-tmp'])), ('fname', 'copied%d' % self.rng.below(1000))]
            return out
        if r < 10:
            ty = self.ch([t for t in SYMBOLS if t not in self.defined] or ['string'])
            if ty in self.defined:
                return [kw('dir')] + self.path_new('')
            return self.def_(ty)
        if r < 12:
            nm = self.new_name('')
            out = [kw('dir'), kw('-rel-act'), ('fname', nm)]
            self.dirs.append(nm)
            if self.p(0.5):
                out += [op('=')] + self.files_source(1)
            return out
        if r < 16:
            nm = self.new_name()
            out = [kw('file'), kw('-rel-act'), ('fname', nm)]
            self.files.append(nm)
            if self.p(0.8):
                out += [op('=')] + self.text_source(2)
            return out
        if r < 18:
            out = [kw('env')]
            if self.p(0.3):
                out += [kw('-of'), kw(self.ch(['act', '!act']))]
            if self.p(0.25):
                return out + [kw('unset'), ('str', self.ch(['MY_VAR', 'PATH_X', 'HOME']))]
            return out + [('str', self.ch(['MY_VAR', 'OTHER'])), op('=')] + self.text_source(1)
        return [kw('timeout'), op('='), (('int', self.ch(['5', '10', '60'])) if self.p(0.7) else kw('none'))]

    def assert_instr(self):
        r = self.rng.below(20)
        if self.chain_focus and self.composed_names and self.p(0.6):
            c = self.composed()
            return self.ch([[kw('exit-code'), op('=='), ('int', c)],
                            [kw('contents'), kw('-rel-act'), ('fname', c), op(':'), kw('is-empty')],
                            [kw('stdout'), kw('num-lines'), op('<='), ('int', c)],
                            [kw('exists'), ('fname', c)],
                            [kw('stdout'), kw('equals'), ('str', c)]])
        if r < 4:
            return [kw('exit-code')] + self.int_matcher(2, False)
        if r < 5:
            return [kw('exit-code'), kw('-from')] + self.program(0) + [NL] + self.int_matcher(1, False)
        if r < 9:
            return [kw(self.ch(['stdout', 'stderr']))] + self.text_matcher(2, False)
        if r < 10:
            return [kw(self.ch(['stdout', 'stderr'])), kw('-from')] + self.program(0) + [NL] + self.text_matcher(1, False)
        if r < 13:
            return [kw('contents')] + self.path_existing_file() + [op(':')] + self.text_matcher(2, False)
        if r < 16:
            return [kw('dir-contents')] + self.path_existing_dir() + [op(':')] + self.dc_options() + self.files_matcher(2, False)
        if r < 18:
            out = [kw('exists')] + ([op('!')] if self.p(0.2) else [])
            out += self.path_existing_file() if self.p(0.5) else self.path_existing_dir()
            if self.p(0.5):
                out += [op(':')] + self.file_matcher(2, False)
            return out
        return self.multi_phase('assert')

    def conf_instr(self):
        r = self.rng.below(10)
        if r < 3:
            return [kw('status'), op('='), kw(self.ch(['PASS', 'PASS', 'FAIL', 'SKIP']))]
        if r < 5:
            return [kw(self.ch(['home', 'act-home'])), op('='), ('fname', self.ch(['.', 'd/..']))]
        return [kw('status'), op('='), kw('PASS')]

    def act(self):
        if self.act_focus:
            r = self.rng.below(10)
            if r < 4:
                return [], [op('%'), ('str', self.ch(['echo', 'true', 'cat']))] + self.program_args(rich=True)
            if r < 7:
                return [], [('fname', self.ch(['prog.sh', "'prog.sh'", '"prog.sh"']))] + self.program_args(rich=True)
            if r < 8 and self.has('program'):
                return [], [op('@'), self.sym('program')] + self.program_args(rich=True)
            if r < 9:
                return [], [kw(self.ch(['-rel-home', '-rel-act-home'])), ('fname', 'prog.sh')] + self.program_args(rich=True)
            return [], [kw('-python'), ('str', '-c'), ('str', "'pass'")] + self.program_args(rich=True)
        r = self.rng.below(10)
        if r < 3:
            return ([kw('actor'), op('='), kw('command')] if self.p(0.2) else []), \
                [op('$'), ('raw', self.ch(['echo hello', 'true', 'cat', 'echo out; echo err >&2; exit 3', 'exit 1']))]
        if r < 5:
            return [], [op('%'), ('str', self.ch(['echo', 'true', 'cat']))] + self.program_args()
        if r < 6:
            return [], [('fname', 'prog.sh')] + self.program_args()
        if r < 7:
            return [kw('actor'), op('='), kw('null')], []
        if r < 8:
            return [kw('actor'), op('='), kw('source'), op('%'), ('str', 'sh')], [('raw', 'echo from-source')]
        if r < 9:
            return [kw('actor'), op('='), kw('file'), op('%'), ('str', 'sh')], [('fname', 'prog.sh')]
        return [], []

    def act_case(self):
        """a case that is little more than an [act] phase with a rich command line"""
        self.act_focus = True
        lines = []
        if self.p(0.4):
            lines.append([('phase', '[setup]')])
            for ty in ('string', 'path', 'list', 'program'):
                if self.p(0.4):
                    lines.append(self.def_(ty))
            if len(lines) == 1:
                lines.append([kw('file'), kw('-rel-act'), ('fname', 'made.txt')])
        _, act_line = self.act()
        lines.append([('phase', '[act]')])
        lines.append(act_line)
        if self.p(0.3):
            lines += [[('phase', '[assert]')], [kw('exit-code'), op('=='), ('int', '0')]]
        return lines

    def case(self):
        """-> list of lines; a line = list of tokens (phase headers are single tokens of role 'phase')"""
        lines = []
        conf_actor, act_line = self.act()
        conf = [self.conf_instr() for _ in range(self.rng.below(2))]
        if conf_actor:
            conf.append(conf_actor)
        if conf:
            lines.append([('phase', '[conf]')])
            lines += conf
        phases = []
        n_setup = self.rng.randint(0, 4)
        setup = []
        for _ in range(n_setup):
            if self.p(0.15):
                setup.append([kw('stdin'), op('=')] + self.text_source(2))
            else:
                setup.append(self.multi_phase('setup'))
        if setup:
            lines.append([('phase', '[setup]')])
            lines += setup
        if act_line or self.p(0.3):
            lines.append([('phase', '[act]')])
            if act_line:
                lines.append(act_line)
        ba = [self.multi_phase('before-assert') for _ in range(self.rng.below(2))]
        if ba:
            lines.append([('phase', '[before-assert]')])
            lines += ba
        asserts = [self.assert_instr() for _ in range(self.rng.randint(0, 3))]
        if asserts:
            lines.append([('phase', '[assert]')])
            lines += asserts
        cl = [self.multi_phase('cleanup') for _ in range(self.rng.below(2))]
        if cl:
            lines.append([('phase', '[cleanup]')])
            lines += cl
        if self.p(0.15):
            k = self.rng.below(len(lines) + 1)
            lines.insert(k, [('comment', self.ch(['# a comment', '', '   ', '#']))])
        return [l for l in lines if l]


def split_lines(tokens):
    lines, cur = [], []
    for t in tokens:
        if t[0] == 'nl':
            lines.append(cur)
            cur = []
        else:
            cur.append(t)
    lines.append(cur)
    return lines


def flatten(lines):
    """instruction lines (each may contain 'nl' tokens) -> physical lines of tokens"""
    out = []
    for l in lines:
        out += split_lines(l)
    return out


def render(phys_lines):
    return ''.join(' '.join(t[1] for t in l) + '\n' for l in phys_lines)


# ---------------------------------------------------------------------------------------------
# (D3) mutations
# ---------------------------------------------------------------------------------------------
BAD_INTS = ["''", 'abc', '1.5', '1//0', '1%0', '2**-1', '0**-1', '10**100', '10**5000', '-(10**5000)', '1<<20000', '-1', '+3',
            '0x1F', '1e3', '007', '99999999999999999999999999', '"1 2"', '"1 +"', '()', '[]', 'None', "int('3')", "len('ab')",
            '"\'a\'"', '1_000', '--5', '~0', '1<<100', '\u0661\u0662', '\uff11\uff12', '0b102', '"1;2"', '"lambda: 1"', 'exit', 'True',
            '1j', '"[1][1]"', '"{}[0]"', '1/0', '1.0//0', '2.0**10000', '"1 if"', '"(1"', '1)', '"1,2"', '5:', ':', '"\\n1"', '1\u00a0',
            '"2**0.5"', '"0.1+0.2"', '"\'1\'*3"', '"-0"', '"9"*3', 'zz', '@[UNDEFINED_SYMBOL]@', '"@[S_LIST]@"', '10**4299',
            '10**4300 - 10**4300', '"int(\'1\'*5000)"']
# characters for which str.isdigit() / isdecimal() / isnumeric() is true but that are not ASCII digits (Unicode Nd, No, Nl), alone,
# repeated and mixed with ASCII: what int() and eval() make of them differs from character to character
DIGIT_LIKE_CHARS = ['\u00b2', '\u00b3', '\u00b9', '\u2460', '\u2473', '\uff10', '\uff11', '\uff19', '\u0663', '\u0661', '\u06f3', '\u0969',
                    '\u0e53', '\u216b', '\u2177', '\u00bd', '\u3007', '\u32bf', '\U0001d7cf', '\U0001d7e1', '\u07c1', '\u2070', '\u2079',
                    '\u2080', '\u2488', '\u24ea', '\u3021', '\u5341', '\u0be7', '\u1369', '\U00010107', '\u2189']
DIGIT_LIKE = (DIGIT_LIKE_CHARS + [c * 2 for c in DIGIT_LIKE_CHARS[:12]] + ['1' + c for c in DIGIT_LIKE_CHARS[:16]]
              + [c + '1' for c in DIGIT_LIKE_CHARS[:16]] + ['\u00b9\u00b2', '\uff11\uff12\uff13', '\u0661\u0662\u0663', '"\u0663 + 1"', '"2**\u00b2"',
                                                          '-\u00b2', '"(\u2460)"', '\u00b2\u0663', '0\u00b2', '"\u00b2 "', '"1_\u0661"', '0x\uff11'])
# characters that are significant for str.format / % formatting: an error message built by formatting must not choke on them
FORMAT_BITS = ['{', '}', '{0}', '{x}', '{}', '{{', '%s', '%d', '%(x)s', '%']
BAD_INTS = BAD_INTS + DIGIT_LIKE + ['(1}', '{1', '2}', '"{1 + 2"', '[1}', '"1 + {x}"', '{0}', '{}', '"{x}"', '%s', '"%d"', '"1 % s"', '"{"',
                                    '"}"', '"{{1}}"', '"(1 + 2}}"', '"%(x)s"', "\"{'a': 1}['b']\"", '"1}{"']
# well-formed but extreme integers: just above the machine word sizes (2**31, 2**63, 2**64), beyond them, and their negatives - they
# pass validation and must also be APPLIED without an internal error
EXTREME_INTS = ['2**31', '2**31+1', '2147483648', '2**32', '2**63-1', '2**63', '2**63+1', '9223372036854775808', '2**64', '2**64+1',
                '18446744073709551616', '2**70', '10**30', '-1', '-2**31-1', '-2**63', '-2**63-1', '-2**64', '-2**70', '"-(2**70)"', '0']
BAD_INTS = BAD_INTS + [v for v in EXTREME_INTS if v not in BAD_INTS]
# LINE-NUMBER-RANGEs of `filter -line-nums`: every form (N  :N  N:  N:M) with ordinary, negative and extreme limits
_LIMITS = ['1', '2', '-1', '-2', '0', '2**31', '2**63', '2**64', '2**70', '-2**64', '-2**70', '10**30', '-10**30']
LINE_NUM_RANGES = sorted({f for n in _LIMITS for f in (n, ':' + n, n + ':')} | {a + ':' + b for a in _LIMITS for b in _LIMITS
                                                                                  if a in ('1', '2', '-2', '2**70', '-2**70') or b in ('-2', '2**64', '-2**70')})
BAD_REGEXES = ["'('", "'[a'", "'*a'", "'a{2,1}'", "'(?P<n>a)(?P<n>b)'", "'\\'", "'(?z)'", "'a**'", "'(?<=a+)b'", "'[z-a]'", "'\\1'",
               "'(?i'", "')'", "'\\p{L}'", "'(?P<n'", "'(?P<1>a)'", "'\\g<1>'", "'a{99999999999}'", "'(?#'", "'\\N{no such}'",
               "'[[:alpha:]]'", "'(?P=zz)'", "'\\8'", "'x(?=y'", "'(' ", '@[UNDEFINED_SYMBOL]@', "''", '"\\"', "'(?-i)a'", "'((a)'",
               "'\\Z\\z'", "'(a)\\2'",
               # extreme ones: re.compile rejects some of these with an exception that is NOT re.error
               "'a{4294967296}'", "'x{1,99999999999999999999}'", "'a{2147483648}'", "'(?u)(?a)x'", "'(?a)(?L)x'", "'(?i)(?-i)a'",
               "'" + '(' * 300 + 'a' + ')' * 300 + "'", "'" + '(a|' * 2000 + 'b' + ')' * 2000 + "'", "'[\\x00-\\U0010ffff]+'",
               "'(?<=a*)b'", "'(?<!a|bc)d'", "'\\N{LATIN SMALL LETTER A}'", "'" + 'a' * 5000 + "'", "'(?P<" + 'n' * 1000 + ">a)'",
               "'" + 'a?' * 25 + 'a' * 25 + "'", "'[' + 'a-z' * 500 + ']'", "'\\x{41}'", "'\\u12'", "'\\U00110000'", "'(?:){4294967295}'",
               "'a{,}'", "'a{1,2}{3}'", "'(?s:.)(?x: a b )'", "'(?P<\u00e9>a)(?P=\u00e9)'", "'[\\d-z]'", "'\\777'"]
BAD_GLOBS = ["'['", "'[!'", "'**'", "'***'", "''", "'a/../b'", "'{a,b}'", "'\\'", "'[z-a]'", "'[]'", "'[!]'", "'**/'", "'../*'",
             "'*/'", "'.'", "'..'", "'a//b'", '@[UNDEFINED_SYMBOL]@', "'[a-'", "'?' ", "'\u00e9*'", "'[[]'", "'**a'"]
BAD_REPLS = ["'\\6'", "'\\g<foo>'", "'\\q'", "'\\'", "'\\g<'", "'\\g<1'", "'\\400'", "'\\g<-1>'", "'\\g<>'", "'\\g'", '"\\"', "'\\99'",
             "'\\g<1a>'", "'\\g<\u00e9>'", "'\\Z'"]
BAD_FNAMES = ["''", '""', "'.'", "'..'", "'a/../b'", "'a//b'", "'x/'", "' '", "'a b'", 'a' * 300, "'" + 'd/' * 200 + "x'", "'" + '\u00e9' * 200 + "'",
              '-', '--', "'-rel-act'", '@[UNDEFINED_SYMBOL]@', "'\\'", "'*'", "'a\tb'", '\x00', "'a\x00b'", "'\u2028'", 'in.txt/x', 'd', 'in.txt',
              "'~'", "'$HOME'", "'%s'", "'{}'", 'CON', "'\ud7ff'"]
BAD_REGEXES += ["'{0}('", "'%s('", "'a{'", "'}('", "'{x}['", "'(?P<{0}>a)'", "'%(x)s)'", "'{{}}*+'", "'*{}'"]
BAD_GLOBS += ["'{0}'", "'%s['", "'{x}[!'", "'}'", "'{'", "'%d*'"]
BAD_REPLS += ["'{0}\\6'", "'%s\\q'", "'\\g<{0}>'", "'{x}\\'", "'\\g<%s>'", "'{\\400}'"]
BAD_FNAMES += ["'{0}'", "'%s'", "'{x}/{y}'", "'{'", "'}'", "'%(x)s'", "'{0}" + 'a' * 300 + "'"]
PHASE_HEADERS = ['[conf]', '[setup]', '[act]', '[before-assert]', '[assert]', '[cleanup]']
BAD_HEADERS = ['[nope]', '[setup', 'setup]', '[ setup ]', '[[setup]]', '[]', '[Setup]', '[assert] x', '[before_assert]', '[cleanup]]',
               '[conf][setup]', '[\u00e9]', '[setup\t]', '[ ]', '[act] $ echo']
GARBAGE_LINES = ['no-such-instruction a b', "'unterminated", '"', '= = =', ':', '}', '{', ')', '( (', '@[X]@', 'def', 'def string', 'file',
                 '\\', '$', '%', 'including no-such-file.xly', 'including', 'including inc.xly inc2.xly', 'including inc2.xly', 'including \'inc.xly',
                 'including inc2.xly x y', 'including  ', 'including -rel-home inc.xly', '<<EOF', 'EOF', '-rel-act', '!', '&& ||', '\u00a0', '\t\t',
                 '#!', "exit-code == 'unterminated", 'run', 'def string S_STR = dup', 'stdin = @[S_PGM]@', '\x00', '\x0c', '\u2028x']
ODD_CHARS = ["'", '"', '\\', '#', '@', '[', ']', '(', ')', '{', '}', ':', '=', '!', '|', '&', '<', '>', '$', '%', '~', '*', '?', ' ', '\t',
             '\u00a0', '\r', '\x0b', '\x0c', '\x00', '\u2028', '\u00e9', '\U0001f600', '-', '\x1b', '\ufeff', '\u200b', '`', ';', ',']
WRONG_SYMBOL_SWAP = True
MUTATIONS = ['tok_delete', 'tok_dup', 'tok_replace', 'tok_swap', 'truncate', 'truncate_line', 'quote', 'wrong_type', 'bad_int', 'bad_regex', 'bad_glob',
             'bad_repl', 'line_op', 'header', 'char', 'def_type', 'combo']


class Mutator:
    def __init__(self, rng):
        self.rng = rng
        self.pool = {}  # role -> list of token texts seen so far

    def learn(self, phys):
        for l in phys:
            for role, t in l:
                self.pool.setdefault(role.split(':')[0], [])
                if t not in self.pool[role.split(':')[0]] and len(self.pool[role.split(':')[0]]) < 400:
                    self.pool[role.split(':')[0]].append(t)

    def any_token(self):
        role = self.rng.choice(sorted(self.pool))
        return self.rng.choice(self.pool[role])

    def positions(self, phys, pred=lambda r: True):
        return [(i, j) for i, l in enumerate(phys) for j, (r, _) in enumerate(l) if pred(r)]

    def mutate(self, phys, kind=None):
        """phys: physical lines of (role, text) -> (kind, text) ; never returns the unchanged text on purpose"""
        rng = self.rng
        phys = [list(l) for l in phys]
        kind = kind or rng.choice(MUTATIONS)
        pos = self.positions(phys)
        if not pos:
            return 'empty', ''
        if kind == 'combo':
            k1, t1 = self.mutate(phys, rng.choice(MUTATIONS[:-1]))
            # a second damage on the text of the first mutant: a character, or the final newline
            if rng.chance(0.25) and t1.endswith('\n'):
                return 'combo(%s+no-final-newline)' % k1, t1[:-1]
            return 'combo(%s+char)' % k1, self._char(t1)
        if kind == 'tok_delete':
            i, j = rng.choice(pos)
            del phys[i][j]
        elif kind == 'tok_dup':
            i, j = rng.choice(pos)
            phys[i].insert(j, phys[i][j])
        elif kind == 'tok_replace':
            i, j = rng.choice(pos)
            phys[i][j] = ('x', self.any_token() if rng.chance(0.8) else rng.choice(ODD_CHARS))
        elif kind == 'tok_swap':
            i, j = rng.choice(pos)
            if len(phys[i]) >= 2:
                k = (j + 1) % len(phys[i]) if rng.chance(0.7) else rng.below(len(phys[i]))
                phys[i][j], phys[i][k] = phys[i][k], phys[i][j]
            else:
                i2 = rng.below(len(phys))
                if phys[i2]:
                    k = rng.below(len(phys[i2]))
                    phys[i][j], phys[i2][k] = phys[i2][k], phys[i][j]
        elif kind == 'truncate':
            text = render(phys)
            return kind, text[:rng.below(len(text))]
        elif kind == 'truncate_line':
            # the file ends after a whole line: with its newline, without it, or the whole file just loses its final newline
            k = rng.randint(1, len(phys))
            text = render(phys[:k])
            if rng.chance(0.3) and rng.chance(0.5):
                text = render(phys)
                return kind, text[:-1]
            return kind, text if rng.chance(0.4) else text[:-1]
        elif kind == 'quote':
            i, j = rng.choice(pos)
            t = phys[i][j][1]
            if t[:1] in '\'"' and len(t) >= 2 and rng.chance(0.5):
                t = t[1:] if rng.chance(0.5) else t[:-1]  # drop one of the quotes
            else:
                k = rng.below(len(t) + 1)
                t = t[:k] + rng.choice(['\'', '"']) + t[k:]
            phys[i][j] = ('x', t)
        elif kind == 'wrong_type':
            syms = self.positions(phys, lambda r: r.startswith('sym:'))
            if syms and rng.chance(0.6):
                i, j = rng.choice(syms)
                other = rng.choice([v for v in SYMBOLS.values() if v != phys[i][j][1]])
                phys[i][j] = ('x', other if rng.chance(0.7) else '@[%s]@' % other)
            else:
                kws = self.positions(phys, lambda r: r == 'kw')
                if not kws:
                    return self.mutate(phys, 'tok_replace')
                i, j = rng.choice(kws)
                phys[i][j] = ('x', rng.choice(self.pool.get('kw', ['identity'])))
        elif kind in ('bad_int', 'bad_regex', 'bad_glob', 'bad_repl'):
            role = kind[4:]
            bad = {'int': BAD_INTS, 'regex': BAD_REGEXES, 'glob': BAD_GLOBS, 'repl': BAD_REPLS}[role]
            cands = self.positions(phys, lambda r: r == role)
            if not cands:
                # no argument of that kind in this case: put the bad value where a string / file name / keyword stands
                cands = self.positions(phys, lambda r: r in ('str', 'fname', 'int', 'regex'))
                if not cands:
                    return self.mutate(phys, 'tok_replace')
            i, j = rng.choice(cands)
            phys[i][j] = ('x', rng.choice(bad))
        elif kind == 'line_op':
            r = rng.below(5)
            i = rng.below(len(phys))
            if r == 0:
                del phys[i]
            elif r == 1:
                phys.insert(i, list(phys[i]))
            elif r == 2:
                k = rng.below(len(phys))
                phys[i], phys[k] = phys[k], phys[i]
            elif r == 3:
                phys.insert(i, [('x', rng.choice(GARBAGE_LINES))])
            else:
                phys[i] = phys[i] + phys.pop(i + 1) if i + 1 < len(phys) else phys[i] + [('x', '\\')]  # join two lines
        elif kind == 'header':
            heads = self.positions(phys, lambda r: r == 'phase')
            r = rng.below(4)
            if heads and r < 3:
                i, j = rng.choice(heads)
                phys[i][j] = ('x', rng.choice(BAD_HEADERS) if r < 2 else rng.choice(PHASE_HEADERS))
            else:
                phys.insert(rng.below(len(phys) + 1), [('x', rng.choice(PHASE_HEADERS + BAD_HEADERS))])
        elif kind == 'char':
            return kind, self._char(render(phys))
        elif kind == 'def_type':
            defs = [(i, j) for (i, j) in self.positions(phys, lambda r: r == 'kw') if phys[i][j][1] in SYMBOLS and j >= 1
                    and phys[i][j - 1][1] == 'def']
            if not defs:
                names = self.positions(phys, lambda r: r == 'kw' and True)
                i, j = rng.choice(names) if names else rng.choice(pos)
                phys[i][j] = ('x', 'no-such-' + phys[i][j][1])
            else:
                i, j = rng.choice(defs)
                phys[i][j] = ('x', rng.choice([t for t in SYMBOLS if t != phys[i][j][1]] + ['no-such-type', 'String']))
        return kind, render(phys)

    def _char(self, text):
        rng = self.rng
        if not text:
            return rng.choice(ODD_CHARS)
        k = rng.below(len(text) + 1)
        r = rng.below(3)
        if r == 0:
            return text[:k] + rng.choice(ODD_CHARS) + text[k:]
        if r == 1:
            return text[:k] + text[k + 1:]
        return text[:k] + rng.choice(ODD_CHARS) + text[k + 1:]


# ---------------------------------------------------------------------------------------------
# known-finding predicates (on the INPUT)
# ---------------------------------------------------------------------------------------------
_EXIT_CALL = re.compile(r'\b(exit|quit)\s*\(')


def kf_exit_pred(text):
    return bool(_EXIT_CALL.search(text))


_NUMERIC_NODES = (ast.Expression, ast.BinOp, ast.UnaryOp, ast.Constant, ast.Add, ast.Sub, ast.Mult, ast.Pow, ast.LShift, ast.FloorDiv,
                  ast.Mod, ast.USub, ast.UAdd, ast.Invert)


def _safe_int_value(tok):
    """the int a token denotes if it is pure integer arithmetic of moderate cost, else None"""
    try:
        tree = ast.parse(tok.strip(), mode='eval')
    except (SyntaxError, ValueError, MemoryError, RecursionError):
        return None
    for n in ast.walk(tree):
        if not isinstance(n, _NUMERIC_NODES) or isinstance(n, ast.Constant) and type(n.value) is not int:
            return None

    def ev(n):
        if isinstance(n, ast.Expression):
            return ev(n.body)
        if isinstance(n, ast.Constant):
            return n.value
        if isinstance(n, ast.UnaryOp):
            v = ev(n.operand)
            return -v if isinstance(n.op, ast.USub) else v if isinstance(n.op, ast.UAdd) else ~v
        a, b = ev(n.left), ev(n.right)
        if isinstance(n.op, ast.Pow):
            if b < 0 or b > 10 ** 5 or abs(a).bit_length() * b > 10 ** 6:
                raise OverflowError
            return a ** b
        if isinstance(n.op, ast.LShift):
            if b < 0 or b > 10 ** 6:
                raise OverflowError
            return a << b
        if isinstance(n.op, (ast.FloorDiv, ast.Mod)):
            return a // b if isinstance(n.op, ast.FloorDiv) else a % b
        return a + b if isinstance(n.op, ast.Add) else a - b if isinstance(n.op, ast.Sub) else a * b

    try:
        return ev(tree)
    except (OverflowError, ZeroDivisionError, TypeError, ValueError):
        return None


def kf_bigint_pred(text):
    """some token (bare or quoted) of the text is integer arithmetic with |value| >= 10**4300"""
    toks = set(re.findall(r'"([^"\n]*)"|\'([^\'\n]*)\'|(\S+)', text))
    for a, b, c in toks:
        for tok in (a, b, c):
            if tok and any(ch.isdigit() for ch in tok) and ('**' in tok or '<<' in tok or len(tok) > 4000):
                v = _safe_int_value(tok)
                if v is not None and abs(v) >= 10 ** 4300:
                    return True
    return False


_DCO_ROOT = re.compile(r'dir-contents-of\s+(-rel-\S+\s+)?(\'\'|""|\'\.\'|"\."|\'\./\'|"\./"|\.|\./)(\s|$)')


def kf_copy_into_self_pred(text):
    """`dir-contents-of` of the root directory of a relativity (PATH token empty, '.' or './')"""
    return bool(_DCO_ROOT.search(text))


def kf_long_name_pred(text):
    """some path component (run of characters other than white space, quotes and '/') is longer than 255 bytes"""
    return any(len(c.encode('utf-8', 'replace')) > 255 for c in re.split(r'[\s/\'"]+', text))


def kf_nul_pred(text):
    return '\x00' in text


def _parse_doc(text, path):
    """the real document parser on the text: (doc, None) or (None, exception)"""
    from exactly_lib.processing.parse import test_case_parser
    from exactly_lib.processing.instruction_setup import TestCaseParsingSetup
    from exactly_lib.processing.parse.act_phase_source_parser import ActPhaseParser
    from exactly_lib.processing import test_case_processing as tcp
    from exactly_lib.common import instruction_name_and_argument_splitter
    from exactly_lib.cli_default.program_modes.test_case import default_instructions_setup
    from exactly_lib.section_document.parse_source import ParseSource
    import pathlib
    setup = TestCaseParsingSetup(instruction_name_and_argument_splitter.splitter, default_instructions_setup.INSTRUCTIONS_SETUP,
                                 ActPhaseParser())
    import io
    text = io.StringIO(text, newline=None).read()  # as _SourceReader reads the file: text mode, universal newlines
    try:
        return test_case_parser.new_parser(setup).apply(tcp.test_case_reference_of_source_file(pathlib.Path(path)),
                                                        ParseSource(text)), None
    except BaseException as ex:
        if isinstance(ex, (KeyboardInterrupt, _Timeout)):
            raise
        return None, ex


_LOC = re.compile(r'^In \[([a-z-]+)\]\s*$')
_LINE = re.compile(r', line (\d+)\s*$')
PHASE_ORDER = {'conf': 0, 'setup': 1, 'act': 2, 'before-assert': 3, 'assert': 4, 'cleanup': 5}


def kf_cleanup_pred(text, runner, files):
    """KF-C18-2 / KF-C08-1: a [cleanup] instruction references (directly or through other symbols) a symbol whose defining
    instruction's main step is scheduled after a step that fails.  Decided on the input: symbol usages from the real parser;
    the failing step from a run of the case WITHOUT its [cleanup] instructions."""
    from exactly_lib.symbol.sdv_structure import SymbolDefinition, SymbolReference
    doc, ex = _parse_doc(text, os.path.join(runner.root, 'kf.case'))
    if doc is None:
        return False
    defs = {}  # name -> (phase order, line, names referenced by the definition)
    for ph, sec in (('setup', doc.setup_phase), ('before-assert', doc.before_assert_phase), ('assert', doc.assert_phase)):
        for el in sec.elements:
            if el.instruction_info is None:
                continue
            try:
                us = el.instruction_info.instruction.symbol_usages()
            except Exception:
                continue
            for u in us:
                if isinstance(u, SymbolDefinition) and u.name not in defs:
                    defs[u.name] = (PHASE_ORDER[ph], el.source.first_line_number, [r.name for r in u.references])
    refs, cleanup_lines = set(), set()
    for el in doc.cleanup_phase.elements:
        for k in range(len(el.source.lines)):
            cleanup_lines.add(el.source.first_line_number + k)
        if el.instruction_info is None:
            continue
        try:
            us = el.instruction_info.instruction.symbol_usages()
        except Exception:
            continue
        for u in us:
            if isinstance(u, SymbolReference):
                refs.add(u.name)
            elif isinstance(u, SymbolDefinition):
                refs.update(r.name for r in u.references)
    todo, closure = list(refs), set()
    while todo:
        n = todo.pop()
        if n in closure or n not in defs:
            continue
        closure.add(n)
        todo += defs[n][2]
    if not closure:
        return False
    lines = text.split('\n')
    text2 = '\n'.join('' if i + 1 in cleanup_lines else l for i, l in enumerate(lines))
    pr, to, _ = runner.run_text(text2, files=files)
    if to or pr.exception is not None:
        return False
    ph, ln = None, 0
    for l in pr.err.splitlines():
        m = _LOC.match(l)
        if m and ph is None:
            ph = m.group(1)
        m = _LINE.search(l)
        if m and ph is not None and ln == 0:
            ln = int(m.group(1))
    code, ident, _ = classify_run(pr)
    if ident in ('PASS', 'SKIPPED', 'XPASS') or ph not in PHASE_ORDER:
        return False
    fail_at = (PHASE_ORDER[ph], ln)
    return any((defs[n][0], defs[n][1]) > fail_at for n in closure)


def coq_class_nearest(cls):
    """the nearest modelled base class (exact for routing: every class a chain names is modelled)"""
    for k in cls.__mro__:
        q = k.__module__ + '.' + k.__qualname__
        if q in COQ_OF_QUALNAME:
            return COQ_OF_QUALNAME[q]
    raise KeyError('no modelled base class of %r' % cls)


CORPUS_CASES = [
    # (name, text, expected finding or None)
    ('A2 integer expression raising ZeroDivisionError (FIX-C18-1)', '[assert]\nexit-code == 1//0\n', None),
    ('A2b modulo by zero', '[assert]\nexit-code == 1%0\n', None),
    ('A3 invalid group reference in replacement (FIX-C18-2)',
     "[setup]\nfile out.txt = -contents-of -rel-home in.txt -transformed-by replace a '\\6'\n", None),
    ('A3b unknown group name in replacement (FIX-C18-2)',
     "[setup]\nfile out.txt = -contents-of -rel-home in.txt -transformed-by replace a '\\g<foo>'\n", None),
    ('A3c bad escape in replacement, in an assertion',
     "[setup]\nfile in2.txt = 'a'\n[assert]\ncontents in2.txt : -transformed-by replace -preserve-new-lines a '\\q' equals 'b'\n", None),
    ('A3d bad replacement consumed by the act phase as stdin',
     "[setup]\nstdin = -contents-of -rel-home in.txt -transformed-by replace a '\\6'\n[act]\n$ cat\n[assert]\nexit-code == 0\n", None),
    ('A10 symbol defined after a failing assertion, used in cleanup (KF-C18-2)',
     '[act]\n$ true\n[assert]\nexit-code == 1\ndef string X = a\n[cleanup]\n$ echo @[X]@\n', KF_CLEANUP),
    ('A10b the same through a second symbol',
     '[assert]\nexit-code == 1\ndef string X = a\ndef string Y = @[X]@\n[cleanup]\nfile f.txt = @[Y]@\n', KF_CLEANUP),
    ('N1 exit() in an integer expression (KF-C18-3)', '[assert]\nexit-code == exit()\n', KF_EXIT),
    ('N1b quit(3)', '[assert]\nexit-code == "quit(3)"\n', KF_EXIT),
    ('N2 integer with more than 4300 digits in a failure message (KF-C18-4)', '[assert]\nexit-code == 10**5000\n', KF_BIGINT),
    ('N2b the same in num-lines', "[setup]\nfile f.txt = 'a'\n[assert]\ncontents f.txt : num-lines == 10**5000\n", KF_BIGINT),
    ('N4 timeout too large for a float (FIX-C18-4)', '[setup]\ntimeout = 10**400\n[act]\n$ true\n', None),
    ('N4b huge negative timeout: the validator renders it (KF-C18-4)', '[setup]\ntimeout = -(10**5000)\n', KF_BIGINT),
    ('N5 empty string as program of the act phase (FIX-C18-3)', '[act]\n""\n', None),
    ('N5b the same with an argument', '[act]\n"" x\n', None),
    ('N6 NUL character in a path (KF-C18-8)', '[setup]\ncopy -rel-home \x00\n', KF_NUL),
    ('N7 regex with a reference to a path of the home directory structure (FIX-C18-5)',
     '[assert]\nstdout matches @[EXACTLY_HOME]@\n', None),
    ('N7b the same through a path symbol and a string symbol, in a transformer',
     '[setup]\ndef path P = -rel-home d\ndef string C = @[P]@1\nfile f.txt = x -transformed-by replace @[C]@ y\n', None),
    ('N8 empty glob pattern for the `path` file matcher (FIX-C18-6)', "[assert]\nexists -rel-home d : path ''\n", None),
    ('N8b glob pattern without a path component for the `path` file matcher (FIX-C18-7)', "[assert]\nexists -rel-home d : path './'\n", None),
    ('N9 file name longer than 255 bytes in cd (KF-C18-12)', '[setup]\ncd -rel-act %s\n' % ('a' * 300), KF_LONG_NAME),
    ('N9b the same as program of the act phase', '[act]\n%s\n' % ('n' * 256), KF_LONG_NAME),
    ('N10 a directory copied into its own sub directory (KF-C18-13)',
     "[setup]\ndir -rel-act f1 = {\ndir gd0 = dir-contents-of -rel-act ''\n}\n", KF_COPY_INTO_SELF),
    ('unknown instruction', '[setup]\nno-such-instruction x\n', None),
    ('unknown phase', '[nope]\nx\n', None),
    ('unterminated quote', "[setup]\nfile f.txt = 'abc\n", None),
    ('invalid regex', "[assert]\nstdout matches '('\n", None),
    ('invalid glob', "[assert]\ndir-contents . : every file : name '['\n", None),
    ('wrong symbol type', '[setup]\ndef string S = a\n[assert]\nstdout S\n', None),
    ('undefined symbol', '[setup]\nfile f.txt = @[UNDEF]@\n', None),
    ('empty file', '', None),
    ('only a NUL character', '\x00', None),
    ('instruction in no phase is act source', 'file f.txt\n', None),
]


def corpus_files():
    """regression inputs stored as harness/corpus/C18/*.json: (name, text, expected finding, expected identifier or None)"""
    d = os.path.join(os.path.dirname(os.path.abspath(__file__)), 'corpus', PROP)
    out = []
    if os.path.isdir(d):
        for fn in sorted(os.listdir(d)):
            if fn.endswith('.json'):
                c = json.load(open(os.path.join(d, fn), encoding='utf-8'))
                out.append(('file ' + c['name'], c['text'], c.get('finding'), c.get('expected_identifier')))
    return out


def run_one_fuzz(runner, text, res, label, offending=None, files=None):
    """-> (coq term or None, info, finding id or None); term None: the case was not run (it could write outside the scratch root)"""
    all_files = dict(HOME_FILES)
    all_files.update(files or {})
    if runner.is_unsafe(text, files):
        res.count('fuzz: generated cases NOT run (absolute path outside the scratch root, or more than %d `..`)' % MAX_DOTDOT)
        return None, None, None, None
    pr, to, d = runner.run_text(text, files=all_files, keep=True)
    # what the real document parser does with the text, in the directory of the case (file inclusion is relative to it)
    doc, pex = _parse_doc(runner.last_text, os.path.join(d, 'test.case'))
    shutil.rmtree(d, ignore_errors=True)
    if to:
        # a cut-off run is an alarm only if it is confirmed with a generous limit (a loaded machine must not cry)
        res.count('fuzz: runs cut off at 10 s and repeated with 90 s')
        pr, to, _ = runner.run_text(text, files=all_files, limit=90)
    code, ident, exc = classify_run(pr)
    info = {'kind': 'fuzz', 'mutation': label, 'case': text,
            'observed': {'exit': code, 'identifier': ident, 'exception': None if pr.exception is None else repr(pr.exception)[:300],
                         'timeout': to, 'stderr_tail': pr.err[-700:]},
            'document_parser': 'returned a document' if pex is None else type(pex).__name__}
    if files:
        # {DIR} / {ABS} in the texts = name / absolute path of the directory the case is run in
        info['extra_files'] = {k: (list(v) if isinstance(v, tuple) else v) for k, v in files.items()}
    finding = None
    internal = ident == 'INTERNAL_ERROR'
    last = pr.err.strip().splitlines()[-1] if pr.err.strip() else ''
    if exc is SystemExit and kf_exit_pred(text):
        finding = KF_EXIT
    elif (exc is ValueError and 'integer string conversion' in str(pr.exception)
          or internal and last.startswith('ValueError: Exceeds the limit')) and kf_bigint_pred(text):
        finding = KF_BIGINT
    elif internal and last.startswith('RecursionError') and 'shutil.py' in pr.err and 'copytree' in pr.err and kf_copy_into_self_pred(text):
        finding = KF_COPY_INTO_SELF
    elif internal and last.startswith('OSError: [Errno 36] File name too long') and kf_long_name_pred(text):
        finding = KF_LONG_NAME
    elif (internal and (last.startswith('ValueError: embedded null byte') or last.strip() == 'embedded null byte')
          or exc is ValueError and 'embedded null byte' in str(pr.exception)) and kf_nul_pred(text):
        finding = KF_NUL
    elif internal and last.startswith('KeyError') and 'In [cleanup]' in pr.err and kf_cleanup_pred(text, runner, HOME_FILES):
        finding = KF_CLEANUP
    term = '(FCase %s %s)' % ('None' if pex is None else '(Some %s)' % coq_class_nearest(type(pex)), c_fobs(pr, to, text, offending))
    if offending is not None:
        info['offending_line'] = offending
    return term, info, finding, (code, ident, exc, to)


POSITIONS = {
    'regex': [
        '[assert]\nstdout matches {V}\n',
        '[assert]\nstderr ~ -ignore-case {V}\n',
        '[assert]\ncontents -rel-home in.txt : any line : contents matches {V}\n',
        '[setup]\nfile f.txt = -contents-of -rel-home in.txt -transformed-by replace {V} X\n',
        '[setup]\nfile f.txt = -contents-of -rel-home in.txt -transformed-by grep {V}\n',
        '[assert]\nexists -rel-home d : name ~ {V}\n',
        '[assert]\ndir-contents -rel-home d : every file : path ~ {V}\n',
        '[setup]\ndef string R = {V}\n[assert]\nstdout matches @[R]@\n',
        '[setup]\ndef text-transformer T = grep {V}\n[assert]\nstdout -transformed-by T is-empty\n',
        '[before-assert]\nfile g.txt = x -transformed-by replace -at contents matches {V} a b\n',
        '[cleanup]\ndef text-matcher M = matches -full {V}\n',
        '[assert]\ndir-contents -rel-home d : -selection suffix ~ {V} is-empty\n',
    ],
    'int': [
        '[assert]\nexit-code == {V}\n',
        '[assert]\nstdout num-lines >= {V}\n',
        '[setup]\ntimeout = {V}\n',
        '[assert]\ndir-contents -rel-home d : -recursive -max-depth {V} is-empty\n',
        '[assert]\ncontents -rel-home in.txt : any line : line-num == {V}\n',
        '[setup]\nfile f.txt = -contents-of -rel-home in.txt -transformed-by filter -line-nums {V}\n',
        '[assert]\ndir-contents -rel-home d : num-files < {V}\n',
        '[setup]\ndef integer-matcher I = > {V}\n[assert]\nexit-code I\n',
        '[assert]\ndir-contents -rel-home d : -recursive -min-depth {V} is-empty\n',
        '[setup]\ntimeout = {V}\n[act]\n$ true\n[assert]\nexit-code == 0\n',
        '[setup]\nfile f.txt = -contents-of -rel-home in.txt -transformed-by filter line-num <= {V}\n',
        '[assert]\ncontents -rel-home in.txt : ! num-lines != {V}\n',
        '[setup]\ndef string N = {V}\n[assert]\nexit-code == @[N]@\n',
    ],
    'linenums': [
        '[setup]\nfile f.txt = -contents-of -rel-home in.txt -transformed-by filter -line-nums {V}\n',
        '[act]\n$ echo a; echo b; echo c\n[assert]\nstdout -transformed-by filter -line-nums {V} is-empty\n',
        '[setup]\ndef string R = {V}\n[cleanup]\nfile f.txt = -contents-of -rel-home in.txt -transformed-by filter -line-nums @[R]@\n',
        '[assert]\ncontents -rel-home in.txt : -transformed-by filter -line-nums 1 {V} 2: num-lines >= 0\n',
        '[setup]\ndef text-transformer T = filter -line-nums {V}\n[before-assert]\nfile f.txt = -contents-of -rel-home empty.txt -transformed-by T\n',
    ],
    'glob': [
        '[assert]\nexists -rel-home d : name {V}\n',
        '[assert]\nexists -rel-home d : path {V}\n',
        '[assert]\ndir-contents -rel-home d : every file : stem {V}\n',
        '[assert]\ndir-contents -rel-home d : -recursive -selection suffixes {V} is-empty\n',
        '[setup]\ndef file-matcher F = suffix {V}\n[assert]\ndir-contents -rel-home d : any file : F\n',
    ],
    'fname': [
        '[setup]\ncd -rel-act {V}\n', '[setup]\nfile {V} = x\n', '[setup]\ndir -rel-tmp {V}\n', '[assert]\nexists {V}\n',
        '[assert]\ncontents -rel-home {V} : is-empty\n', '[setup]\ncopy -rel-home {V}\n', '[act]\n{V} arg\n', '[setup]\nrun % {V}\n',
        '[conf]\nhome = {V}\n', '[conf]\nact-home = {V}\n', '[assert]\ndir-contents {V} : is-empty\n', '[setup]\nstdin = -contents-of {V}\n',
        '[setup]\ndef path P = -rel-act {V}\n[assert]\nexists @[P]@\n', '[setup]\nenv {V} = x\n', '[setup]\nincluding {V}\n',
    ],
    'repl': [
        '[setup]\nfile f.txt = -contents-of -rel-home in.txt -transformed-by replace a {V}\n',
        '[assert]\nstdout -transformed-by replace -preserve-new-lines a {V} is-empty\n[act]\n$ echo a\n',
        '[setup]\ndef text-transformer T = replace (a) {V}\n[act]\n$ echo a\n[assert]\nstdout -transformed-by T is-empty\n',
    ],
}
EVERY_PHASE = ['[setup]', '[before-assert]', '[assert]', '[cleanup]']
EVERY_PHASE_POSITIONS = {
    'regex': ["{PH}\nfile pp.txt = 'abc' -transformed-by replace {V} x\n",
              "{PH}\nfile pp.txt = 'abc' -transformed-by filter contents matches {V}\n",
              "{PH}\nfile pp.txt = 'abc' -transformed-by grep {V}\n",
              "{PH}\ndef text-transformer TT = grep {V}\nfile pq.txt = 'abc' -transformed-by TT\n"],
    'repl': ["{PH}\nfile pp.txt = 'abc' -transformed-by replace b {V}\n"],
    'int': ["{PH}\nfile pp.txt = 'abc' -transformed-by filter -line-nums {V}\n",
            "{PH}\nfile pp.txt = 'abc' -transformed-by filter line-num == {V}\n", '{PH}\ntimeout = {V}\n'],
    'fname': ['{PH}\nfile {V}\n', '{PH}\ncopy -rel-home {V}\n', "{PH}\nfile pp.txt = -contents-of -rel-act {V}\n"],
    'glob': ["{PH}\ndir pd = {\nfile a.txt\n}\ndef files-matcher FSM = every file : name {V}\n"],
}
DIRECTIVE_PHASES = ['[conf]', '[setup]', '[before-assert]', '[assert]', '[cleanup]']
DIRECTIVE_VARIANTS = [('including', True), ('including inc.xly inc2.xly', True), ('including inc2.xly x y', True), ('including  ', True),
                      ('including inc2.xly', False), ('including no-such-file.xly', True), ("including 'unterminated", True)]


SDS_SYMBOLS = ['EXACTLY_ACT', 'EXACTLY_TMP', 'EXACTLY_RESULT', 'SP_ACT', 'SP_TMP']
SDS_DEFS = {'SP_ACT': 'def path SP_ACT = -rel-act sub\n', 'SP_TMP': 'def path SP_TMP = -rel-tmp t\n'}


def sandbox_dependent(value, sym, front):
    """the value combined with a reference to a symbol that denotes a path in the sandbox: such a value can be resolved - and so
    validated - only after the sandbox has been created"""
    v = value.strip()
    if len(v) >= 2 and v[0] == v[-1] and v[0] in '\'"':
        v = v[1:-1]
    ref = '@[%s]@' % sym
    body = ref + v if front else v + ref
    return '"%s"' % body if any(ch.isspace() for ch in body) or '\'' in body or not body else body


def with_def(template, sym):
    if sym not in SDS_DEFS:
        return template
    if template.startswith('[setup]\n'):
        return '[setup]\n' + SDS_DEFS[sym] + template[len('[setup]\n'):]
    if template.startswith('[conf]\n'):
        return template
    return '[setup]\n' + SDS_DEFS[sym] + template


def systematic_cases(ctx):
    """(label, text, offending line or None): every ill-formed / extreme value at argument positions of its kind (quick: two positions
    per value, thorough: all); every malformed file-inclusion directive in every instruction phase, as last line with and without
    final newline and followed by another line"""
    rng = ctx.rng
    out = []
    for role, bad in (('regex', BAD_REGEXES), ('int', BAD_INTS), ('glob', BAD_GLOBS), ('repl', BAD_REPLS), ('fname', BAD_FNAMES),
                      ('linenums', LINE_NUM_RANGES)):
        for v in bad:
            ts = POSITIONS[role] if not ctx.quick else rng.sample(POSITIONS[role], 2)
            for t in ts:
                out.append(('systematic %s' % role, t.replace('{V}', v.strip() if role != 'regex' else v), None))
            # the same value made sandbox dependent (validated post-sds): quick one position, thorough every position
            if '"' in v or '\n' in v or '\x00' in v or role == 'linenums':
                continue
            for t in (POSITIONS[role] if not ctx.quick else rng.sample(POSITIONS[role], 1)):
                sym = rng.choice(SDS_SYMBOLS)
                out.append(('systematic %s, sandbox dependent' % role,
                            with_def(t, sym).replace('{V}', sandbox_dependent(v, sym, rng.chance(0.7))), None))
    # the same families in instructions that exist in EVERY phase and apply the value there ([cleanup] has no step of its own for
    # post-setup validation: its main step does it): constant, made sandbox dependent by a symbol reference, and as the file name of
    # a path symbol in the sandbox that is then used as the value
    k = 0
    for role, bad in (('regex', BAD_REGEXES), ('int', BAD_INTS), ('glob', BAD_GLOBS), ('repl', BAD_REPLS), ('fname', BAD_FNAMES)):
        for v in bad:
            if '"' in v or '\n' in v or '\x00' in v or len(v) > 400:
                continue
            for t in (EVERY_PHASE_POSITIONS[role] if not ctx.quick else [EVERY_PHASE_POSITIONS[role][k % len(EVERY_PHASE_POSITIONS[role])]]):
                for ph in (EVERY_PHASE if not ctx.quick else [EVERY_PHASE[k % 4], '[cleanup]'][:1 if k % 4 == 3 else 2]):
                    k += 1
                    form = k % 3 if not ctx.quick else rng.below(3)
                    for f in ([0, 1, 2] if not ctx.quick else [form]):
                        if f == 0:
                            text = t.replace('{PH}', ph).replace('{V}', v.strip())
                        elif f == 1:
                            sym = SDS_SYMBOLS[k % len(SDS_SYMBOLS)]
                            text = with_def(t.replace('{PH}', ph), sym).replace('{V}', sandbox_dependent(v, sym, k % 2 == 0))
                        else:
                            q = v.strip()
                            if '/' in q or q in ("''", '""') or q.startswith('@['):
                                continue
                            text = '[setup]\ndef path BP = -rel-act %s\n' % q + t.replace('{PH}', ph if ph != '[setup]' else '').replace('{V}', '@[BP]@')
                            text = text.replace('\n\n', '\n')
                        out.append(('every-phase %s %s' % (role, ph), text, None))
    for ph in DIRECTIVE_PHASES:
        for line, is_error in DIRECTIVE_VARIANTS:
            for ending, tag in (('\n', 'last line'), ('', 'last line, no final newline'), ('\n# next line\n', 'followed by a line')):
                out.append(('directive %s, %s' % (ph, tag), '%s\n%s%s' % (ph, line, ending), line if is_error else None))
    return out


# (type, definition with {N} = defined name and {R} = referenced name, a valid value, uses that resolve {N}: (phase, line))
REF_DEFS = [
    ('string', 'def string {N} = "a @[{R}]@ b"', 'plain', [('[setup]', 'file u.txt = @[{N}]@'), ('[act]', '% echo @[{N}]@'), ('[assert]', 'stdout equals @[{N}]@')]),
    ('string', 'def string {N} = @[{R}]@', 'plain', [('[cleanup]', 'env V = @[{N}]@'), ('[assert]', 'exit-code == @[{N}]@')]),
    ('list', 'def list {N} = x @[{R}]@ y', 'a b', [('[setup]', '% echo @[{N}]@'), ('[act]', '% echo @[{N}]@')]),
    ('path', 'def path {N} = @[{R}]@/sub', '-rel-act p', [('[assert]', 'exists @[{N}]@'), ('[act]', '% echo -existing-path @[{N}]@')]),
    ('path', 'def path {N} = -rel {R} sub', '-rel-tmp p', [('[setup]', 'dir @[{N}]@'), ('[cleanup]', 'cd -rel {N} .')]),
    ('integer-matcher', 'def integer-matcher {N} = {R} && > 0', '== 0', [('[assert]', 'exit-code {N}'), ('[assert]', 'stdout num-lines {N}')]),
    ('integer-matcher', 'def integer-matcher {N} = ! {R}', '== 0', [('[assert]', 'exit-code {N}')]),
    ('line-matcher', 'def line-matcher {N} = {R} && line-num > 0', 'line-num == 1', [('[assert]', 'stdout any line : {N}'),
                                                                                     ('[setup]', "file u.txt = 'x' -transformed-by filter {N}")]),
    ('file-matcher', 'def file-matcher {N} = ! {R}', 'type file', [('[assert]', 'exists -rel-home d : {N}'),
                                                                  ('[assert]', 'dir-contents -rel-home d : every file : {N}')]),
    ('files-matcher', 'def files-matcher {N} = {R} || is-empty', 'is-empty', [('[assert]', 'dir-contents -rel-home d : {N}')]),
    ('files-condition', 'def files-condition {N} = {R}', '{\nx.txt\n}', [('[assert]', 'dir-contents -rel-home d : matches {N}')]),
    ('files-source', 'def files-source {N} = {R}', '{\nfile a.txt\n}', [('[setup]', 'dir ud = {N}'), ('[cleanup]', 'dir ud = {N}')]),
    ('text-source', 'def text-source {N} = @[{R}]@', 'plain', [('[setup]', 'file u.txt = @[{N}]@'), ('[setup]', 'stdin = @[{N}]@')]),
    ('text-source', 'def text-source {N} = @[{R}]@ -transformed-by identity', 'plain', [('[before-assert]', 'file u.txt = @[{N}]@')]),
    ('text-matcher', 'def text-matcher {N} = {R} && is-empty', 'is-empty', [('[assert]', 'stdout {N}'), ('[assert]', 'contents -rel-home in.txt : {N}')]),
    ('text-matcher', 'def text-matcher {N} = -transformed-by identity {R}', 'is-empty', [('[assert]', 'stderr {N}')]),
    ('text-transformer', 'def text-transformer {N} = {R} | identity', 'identity', [('[assert]', 'stdout -transformed-by {N} is-empty'),
                                                                                   ('[cleanup]', "file u.txt = 'x' -transformed-by {N}")]),
    ('program', 'def program {N} = @ {R} arg', '% echo', [('[setup]', 'run @ {N}'), ('[act]', '@ {N}'), ('[assert]', 'stdout -from @ {N}\nis-empty')]),
]
DEF_PHASES = ['[setup]', '[before-assert]', '[assert]', '[cleanup]']
PHASE_RANK = {'[setup]': 1, '[act]': 2, '[before-assert]': 3, '[assert]': 4, '[cleanup]': 5}


def reference_order_cases(ctx):
    """(label, text): definitions that refer to themselves, to a symbol defined later, or to each other - for every type whose value can
    contain references, in both reference syntaxes - each followed by a use that resolves the symbol: in the next instruction, in a
    later phase, in [act]"""
    out = []
    for ty, d, valid, uses in REF_DEFS:
        for ph_use, use in uses:
            # the definition goes into the latest phase that still precedes the use (or the same phase)
            cands = [p for p in DEF_PHASES if PHASE_RANK[p] <= PHASE_RANK[ph_use]]
            for ph_def in ([cands[-1]] + ([cands[0]] if cands[0] != cands[-1] else [])):
                def case(lines_def, tag):
                    body = [ph_def] + lines_def
                    if ph_use != ph_def:
                        body.append(ph_use)
                    body.append(use.replace('{N}', 'S'))
                    return ('reference order: %s, %s, used in %s' % (tag, ty, ph_use), '\n'.join(body) + '\n')
                out.append(case([d.replace('{N}', 'S').replace('{R}', 'S')], 'self reference'))
                out.append(case([d.replace('{N}', 'S').replace('{R}', 'LATER')], 'reference to a symbol defined after the use')
                           [:1] + (case([d.replace('{N}', 'S').replace('{R}', 'LATER')], '')[1] + '%s\ndef %s LATER = %s\n' % (
                    '[cleanup]', ty, valid),))
                out.append(case([d.replace('{N}', 'S').replace('{R}', 'LATER'), 'def %s LATER = %s' % (ty, valid)],
                                'reference to the symbol defined by the next instruction'))
                out.append(case([d.replace('{N}', 'S').replace('{R}', 'T'), d.replace('{N}', 'T').replace('{R}', 'S')], 'mutual reference'))
                out.append(case([d.replace('{N}', 'A').replace('{R}', 'B'), d.replace('{N}', 'B').replace('{R}', 'S'),
                                 d.replace('{N}', 'S').replace('{R}', 'A')], 'cycle of three'))
    return out


def inclusion_cases(ctx):
    """(label, text of test.case, extra files): the file-inclusion directive - self inclusion, 2- and 3-cycles, the paths written
    plainly, with `.`, `..`, `sub/..`, absolute and through a symbolic link; a missing file; a directory; an included file with a
    syntax error / an unknown phase / an invalid regex; a legal chain of depth 50.  {DIR} = name of the case directory, {ABS} = its
    absolute path (inside the scratch root)."""
    out = []
    phases = ['[setup]'] if ctx.quick else ['[conf]', '[setup]', '[before-assert]', '[assert]', '[cleanup]']
    self_paths = ['test.case', './test.case', '../{DIR}/test.case', 'd/../test.case', 'd/sub/../../test.case', '{ABS}/test.case',
                  'link.case', 'd/../link.case', "'test.case'", '././test.case']
    for ph in phases:
        for p in self_paths:
            out.append(('inclusion: self, written %s, %s' % (p, ph), '%s\nincluding %s\n' % (ph, p), {'link.case': ('symlink', 'test.case')}))
        # 2-cycles
        for back in ('../test.case', '../inc/../test.case', '{ABS}/test.case', '../link.case'):
            out.append(('inclusion: 2-cycle back via %s, %s' % (back, ph), '%s\nincluding inc/a.xly\n' % ph,
                        {'inc/a.xly': 'including %s\n' % back, 'link.case': ('symlink', 'test.case')}))
        out.append(('inclusion: 2-cycle between included files with .., %s' % ph, '%s\nincluding lib/b.xly\n' % ph,
                    {'lib/b.xly': 'including ../lib/c.xly\n', 'lib/c.xly': 'including b.xly\n'}))
        out.append(('inclusion: 2-cycle plain, %s' % ph, '%s\nincluding a.xly\n' % ph, {'a.xly': 'including test.case\n'}))
        # 3-cycles
        out.append(('inclusion: 3-cycle with .. and sub/.., %s' % ph, '%s\nincluding inc/a.xly\n' % ph,
                    {'inc/a.xly': 'including ../b.xly\n', 'b.xly': 'including d/../test.case\n'}))
        out.append(('inclusion: 3-cycle plain, %s' % ph, '%s\nincluding a.xly\n' % ph,
                    {'a.xly': 'including b.xly\n', 'b.xly': 'including a.xly\n'}))
        # no cycle: the same file twice through different spellings is legal or a documented error, never internal
        out.append(('inclusion: same file twice, different spelling, %s' % ph, '%s\nincluding inc2.xly\nincluding d/../inc2.xly\n' % ph, {}))
        # errors that are not cycles
        out.append(('inclusion: missing file, %s' % ph, '%s\nincluding no/such/file.xly\n' % ph, {}))
        out.append(('inclusion: a directory, %s' % ph, '%s\nincluding d\n' % ph, {}))
        out.append(('inclusion: a directory written d/sub/.., %s' % ph, '%s\nincluding d/sub/..\n' % ph, {}))
        out.append(('inclusion: dangling symbolic link, %s' % ph, '%s\nincluding dangling.xly\n' % ph, {'dangling.xly': ('symlink', 'nowhere.xly')}))
        out.append(('inclusion: included file with a syntax error, %s' % ph, '%s\nincluding bad.xly\n' % ph,
                    {'bad.xly': 'no-such-instruction x\n'}))
        out.append(('inclusion: included file with an unknown phase, %s' % ph, '%s\nincluding bad.xly\n' % ph, {'bad.xly': '[nope]\nx\n'}))
        out.append(('inclusion: included file with an unterminated quote, %s' % ph, '%s\nincluding bad.xly\n' % ph,
                    {'bad.xly': "def string Q = 'unterminated\n"}))
        out.append(('inclusion: included file switches phase, invalid regex there, %s' % ph, '%s\nincluding sw.xly\n' % ph,
                    {'sw.xly': "[assert]\nstdout matches '('\n"}))
        out.append(('inclusion: included file is empty / binary, %s' % ph, '%s\nincluding e.xly\nincluding bin.xly\n' % ph,
                    {'e.xly': '', 'bin.xly': '\x00\x01\x02'}))
        # legal: depth 50 without a cycle
        chain = {'c%d.xly' % i: 'including %sc%d.xly\n' % ('d/../' if i % 7 == 3 else '', i + 1) for i in range(49)}
        chain['c49.xly'] = 'def string DEEP = fifty\n' if ph != '[conf]' else '# end\n'
        out.append(('inclusion: legal chain of depth 50, %s' % ph, '%s\nincluding c0.xly\n' % ph, chain))
    return out


def run_fuzz(ctx, res, runner):
    rng = ctx.rng
    n_base = 330 if ctx.quick else 3000
    per_base = 5 if ctx.quick else 10
    if os.environ.get('C18_NBASE'):  # experiments only
        n_base = int(os.environ['C18_NBASE'])
    mut = Mutator(rng)
    terms, meta, findings = [], [], []

    def one(text, label, offending=None, files=None):
        term, info, finding, o = run_one_fuzz(runner, text, res, label, offending, files)
        if term is None:
            return None
        terms.append(term)
        meta.append(info)
        findings.append(finding)
        res.count('fuzz outcome: %s' % (o[1] or ('exception ' + o[2].__name__ if o[2] else 'timeout' if o[3] else 'no identifier')))
        return o

    for name, text, expect, ident in [c + (None,) for c in CORPUS_CASES] + corpus_files():
        o = one(text, 'corpus: ' + name)
        if o is None:
            continue
        if ident is not None and o[1] != ident:
            # a stored regression input no longer ends the way it did when it was stored: worth a look, but only P_C18 decides
            res.count('corpus input with another outcome than stored: %s (%s, stored %s)' % (name, o[1], ident))
        if expect is not None and findings[-1] != expect:
            # a listed finding that no longer shows: not an error (it may have been repaired), but say so
            res.count('corpus finding not reproduced: ' + expect)
        res.count('fuzz: corpus')
    for label, text, offending in systematic_cases(ctx):
        one(text, label, offending)
        res.count('fuzz: ' + label.split(',')[0].split(' [')[0])
        res.nontrivial.add(('f', text))
    for label, text in reference_order_cases(ctx):
        one(text, label)
        res.count('fuzz: reference-order family')
        res.nontrivial.add(('f', text))
    for label, text, files in inclusion_cases(ctx):
        one(text, label, None, files)
        res.count('fuzz: inclusion family')
        res.nontrivial.add(('f', label + text))
    for b in range(n_base):
        focus = rng.weighted([('general', 5), ('act-line', 3), ('symbol-chain', 3)])
        g = Gram(rng)
        phys = flatten(g.act_case() if focus == 'act-line' else g.chain_case() if focus == 'symbol-chain' else g.case())
        mut.learn(phys)
        base = render(phys)
        one(base, 'none (valid case from the grammar; %s)' % focus)
        res.count('fuzz: base cases, ' + focus)
        seen = {base}
        act_at = [i for i, l in enumerate(phys) if l and l[0] == ('phase', '[act]')]
        for _ in range(per_base):
            if focus == 'act-line' and act_at and act_at[0] + 1 < len(phys) and rng.chance(0.8):
                # damage aimed at the act phase's command line: it is parsed by the actor when the case runs,
                # outside the instruction parsers' catch-all
                k = act_at[0] + 1
                kind, line = mut.mutate([phys[k]], rng.weighted([('quote', 6), ('tok_delete', 3), ('tok_replace', 3), ('tok_swap', 2),
                                                                ('tok_dup', 2), ('truncate', 2), ('char', 4), ('wrong_type', 1),
                                                                ('bad_int', 1)]))
                text = render(phys[:k]) + line + ('' if line.endswith('\n') else '\n') + render(phys[k + 1:])
                kind = 'act-line:' + kind
            else:
                kind, text = mut.mutate(phys)
            if text in seen:
                continue
            seen.add(text)
            one(text, kind)
            res.count('fuzz mutation: ' + kind.split('(')[0])
            res.nontrivial.add(('f', text))
    cb, pb, errs = common.run_shards(PROP, ['Model.Outcome', 'Model.Errors', 'Spec.C18'], 'check_fcase', terms, tag='fcases')
    res.errors += errs
    for i in pb:
        o = meta[i]['observed']
        what = ('an exception escaped MainProgram.execute' if o['exception'] else 'the run did not terminate within the time limit'
                if o['timeout'] else 'INTERNAL_ERROR from the text of the case alone' if o['identifier'] == 'INTERNAL_ERROR' else
                'no documented outcome, or an exit-65 outcome without source lines')
        res.prop_failures.append(Failure('property', meta[i], what, finding=findings[i]))
    for i in cb:
        res.disagreements.append(Failure('correspondence', meta[i], 'outcome of the run differs from the routing model applied to what '
                                                                     'the document parser did'))
    res.samples.append({k: meta[len(CORPUS_CASES) + 1][k] for k in ('mutation', 'case', 'observed')})
    return len(terms)
