"""C10 - the action to check gets the denoted argv / stdin / cwd; its outcome is captured.  Correspondence harness.

Implementation side: generated REAL test case files run in process through the real main program
(`impl.main_program` / `impl.run_main`, `--keep`).  Every program in a case is a probe (a Python script written into
the private home directory of the run, started as `% /venv/bin/python probe.py`, `-python probe.py`, an executable
file with a shebang, `$ /venv/bin/python probe.py ...`, through `def program` chains, by the file / source
interpreter actors ...) which appends a JSON record {argv, stdin, cwd, exit code, what it wrote} to a file OUTSIDE
the sandbox and then behaves as its control argument `--x=EXITCODE,OUT,ERR` says.  The test-case processor is given -
through the public constructors `processing.standalone.processor.Processor`, `os_services_access.new_for_cmd_exe` and
`CommandExecutorFromProcessExecutor(<recording ProcessExecutor>, <the real executable factory>)` - a process executor
that records the `Executable` (is_shell, list-or-string), the contents of the stdin file and the current directory
handed over for every process, then delegates to the real `ProcessExecutor`.
Model side: Model/Prog.v (`run_case`) and the property predicate `P_C10` of Spec/C10.v, evaluated by vm_compute.
"""
import json
import multiprocessing
import os
import re
import shutil
import tempfile

import common
from common import Failure, cN, cnat, cbool, clist, copt, ctext

EXTRA_PROPS = ['C10C01']  # composition with the executor model (Props/C10C01.v): the verdict table of program runs through full_execute
import impl  # noqa: F401  (sets sys.path)

EXPLANATION = ('Theorems (Props/C10.v) over the Gallina model of program resolution / accumulation '
               '(accumulated_components, program_symbol_sdv, command_program_sdv), argument list values, the '
               'command-to-executable translation, stdin assembly of the actors, exit code verdicts and outcome '
               'capture: the model refines the declarative denotation of Spec/C10.v for ALL symbol tables, chains, '
               'argument lists, exit codes.  The model is tied to the code on every run by real test cases whose '
               'programs are probes reporting what they received.')
ASSUMPTIONS = ['that the started process receives the argv / stdin / cwd handed to subprocess.call is the operating '
               'system and the Python runtime: observed with probe processes on every run, not proved',
               'what a process does (exit code, output) is an oracle: the k-th process started returns what the k-th '
               'probe reported',
               'paths denoted by PATH syntax (C12), string syntax / quoting (C09) and transformer semantics (C05) are '
               'taken from the harness rendering: only sequences of single-character `replace` are modelled',
               'the phase protocol is modelled only as far as "first failure goes to [cleanup], a failure in [cleanup] '
               'is the verdict" (C01/C02 prove the protocol)']
TRUSTED_EXTRA = ['harness/c10.py: case generator, rendering of the abstract case to exactly syntax, probe program, '
                 'recording process executor, canonicaliser (sandbox / home directory names replaced by {SDS} / {HOME})']

PROP = 'C10'
IMPORTS = ['Model.Prog', 'Spec.C10']
PY = '/venv/bin/python'
OUTS = ['', 'a\n', 'ab\nba\n', 'b a\nc', 'cab\n\nabc\n']
FUEL = 60
FILES = {'data.txt': 'file data\nline b\n', 'data2.txt': 'abc'}

PROBE = r'''import sys, os, json
REC = %(rec)r
ctl = %(ctl)r
data = sys.stdin.buffer.read()
import re
for a in sys.argv[1:]:
    if re.fullmatch(r'--x=[0-9]+,[0-9]+,[0-9]+', a):  # only a complete control word: an argument that merely begins so is data
        ctl = a[4:]
        break
code, o, e = (ctl.split(',') + ['0', '0'])[:3]
OUTS = %(outs)r
so, se = OUTS[int(o)], OUTS[int(e)]
with open(REC, 'a') as f:
    f.write(json.dumps({'idx': os.environ.get('C10_IDX'), 'argv': sys.argv,
                        'stdin': data.decode('utf-8', 'surrogateescape'), 'cwd': os.getcwd(),
                        'code': int(code), 'out': so, 'err': se}) + '\n')
sys.stdout.write(so)
sys.stderr.write(se)
sys.stdout.flush()
sys.stderr.flush()
os._exit(int(code))
'''

RESERVED = ['(', ')', '[', ']', '{', '}', '=', '|', ':', '!', '&&', '||']
WEIRD = ['', ' ', 'a b', '  lead', 'trail  ', "it's", 'say "hi"', '-x', '--long=1', '-stdin', '-transformed-by',
         '-ignore-exit-code', '-existing-file', '-existing-dir', '-python', '-rel-home', ':>', '<<EOF', '@', '$', '%',
         'run', '#', 'a#b', '#x', '\\', 'a\\b', 'é€', '@[S0]@', '@[', ']@', '*', '~', '$HOME', '`x`', 'a;b', 'x>y', '&',
         'def', 'stdin', '==', '-', '--', 'a=b', '0', '00', 'A', "'", '"', ' - ', '\t', 'a\tb', '.', '..', '/'] + RESERVED
ALPHA = 'abcxyzABC019 _-./:=,+%~^*?$&|<>;(){}[]!#\\@é'


# ------------------------------------------------------------------------------------------------
# abstract syntax (JSON-able lists)
#   frag   ['c', text] | ['s', name]
#   arg    ['str', frags, style] | ['sym', name]           style: hard | soft | bare | eol | xfile | xdir | xpath
#   tr     [[a, b], ...]
#   src    ['str', frags, style] | ['file', fname, contents] | ['prog', chan, ign, prog] | ['trans', src, tr]
#          | ['runt', src, ign, prog]
#   driver ['exe', canonical_path, style] | ['sys', frags, style] | ['shell', frags]
#   prog   ['cmd', driver, args, stdin, trs] | ['ref', name, args, stdin, trs]       stdin: [src]  trs: [tr]
#   instr  ['def', name, value] | ['cd', canonical, option, suffix] | ['run', kind, ign, prog] | ['cap', k, src]
#          | ['stdin', src] | ['exit-code', k] | ['stdout', text] | ['stderr', text]
#          | ['exit-code-from', prog, k] | ['out-from', chan, prog, text]
#          | ['out-run', chan, negated, prog] | ['file-run', negated, fname, prog]
#   act    ['command', prog] | ['file', interp_driver, interp_args, fname, args] | ['source', interp_driver,
#           interp_args, frags] | ['null']
# ------------------------------------------------------------------------------------------------
def frags_inner(frags):
    return ''.join(f[1] if f[0] == 'c' else '@[%s]@' % f[1] for f in frags)


def styles_for(frags):
    """the quoting styles that denote exactly these fragments"""
    consts = ''.join(f[1] for f in frags if f[0] == 'c')
    has_sym = any(f[0] == 's' for f in frags)
    inner = frags_inner(frags)
    st = []
    if '\n' in consts:
        return st
    if not has_sym and "'" not in consts:
        st.append('hard')
    if '"' not in consts and '@[' not in consts:
        st.append('soft')
    if (inner and not re.search(r'[\s\'"]', inner) and '@[' not in consts and not (len(frags) == 1 and has_sym)
            and inner not in RESERVED and not inner.startswith('<<') and inner != ':>' and inner != '\\'
            and inner not in ('-existing-file', '-existing-dir', '-existing-path')):
        st.append('bare')
    return st


def token(frags, style):
    inner = frags_inner(frags)
    if style == 'hard':
        return "'" + inner + "'"
    if style == 'soft':
        return '"' + inner + '"'
    assert style == 'bare', style
    return inner


class Gen:
    """generator of abstract cases; all choices from the one seeded PRNG"""

    def __init__(self, rng, quick):
        self.rng = rng
        self.quick = quick

    # ---- texts
    def text(self):
        r = self.rng
        k = r.below(10)
        if k < 4:
            return r.choice(WEIRD)
        if k < 6:
            return r.choice(['a', 'b', 'ab', 'x1', 'arg', 'v%d' % r.below(10)])
        n = r.randint(1, 6)
        s = ''.join(r.choice(ALPHA) for _ in range(n))
        if "'" in s and '"' in s:
            s = s.replace('"', 'q')
        return s

    def frags(self, syms, allow_sym=True):
        r = self.rng
        if allow_sym and syms and r.chance(0.35):
            n = r.randint(1, 3)
            fr = []
            for _ in range(n):
                if r.chance(0.5):
                    fr.append(['s', r.choice(syms)])
                else:
                    t = self.text().replace('"', 'q').replace('@[', '@').replace('\t', ' ')
                    fr.append(['c', t])
            # merge adjacent constants
            out = []
            for f in [f for f in fr if f[0] == 's' or f[1]] or [['c', '']]:
                if out and out[-1][0] == 'c' and f[0] == 'c':
                    out[-1] = ['c', out[-1][1] + f[1]]
                else:
                    out.append(f)
            return out
        return [['c', self.text()]]

    def arg(self, data_syms, last=False):
        r = self.rng
        if data_syms and r.chance(0.2):
            return ['sym', r.choice(data_syms)]
        if r.chance(0.04):
            kind = r.choice(['xfile', 'xdir', 'xpath'])
            tgt = 'data.txt' if kind == 'xfile' else ('sub' if kind == 'xdir' else r.choice(['data.txt', 'sub']))
            return ['str', [['c', '{HOME}/' + tgt]], kind]
        fr = self.frags(data_syms)
        if last and r.chance(0.1):
            inner_c = ''.join(f[1] for f in fr if f[0] == 'c')
            if inner_c == inner_c.strip() and frags_inner(fr).strip() and '@[' not in inner_c and '\t' not in inner_c \
                    and frags_inner(fr) == frags_inner(fr).strip():
                return ['str', fr, 'eol']
        st = styles_for(fr)
        if not st:
            fr = [['c', 'plain']]
            st = styles_for(fr)
        return ['str', fr, r.choice(st)]

    def args(self, data_syms, lo=0, hi=3):
        n = self.rng.randint(lo, hi)
        out = [self.arg(data_syms) for _ in range(n)]
        if out and self.rng.chance(0.3):
            out[-1] = self.arg(data_syms, last=True)
        # an :> argument must be the last of its line
        for i, a in enumerate(out[:-1]):
            if a[0] == 'str' and a[2] == 'eol':
                out[i] = ['str', [['c', 'mid']], 'bare']
        return out

    def safe_args(self, lo=0, hi=3):
        """arguments that may be appended, unquoted, to a shell command line without changing which program runs"""
        r = self.rng
        out = []
        for _ in range(r.randint(lo, hi)):
            t = r.choice(['a', 'b1', 'x.y', '-o', '--k=v', 'p/q', '', 'a b', '  ', 'é', '0', '-stdin', ':', '='])
            out.append(['str', [['c', t]], r.choice(styles_for([['c', t]]))])
        return out

    def transformer(self):
        r = self.rng
        n = 1 if r.chance(0.7) else 2
        return [[r.choice('abc'), r.choice('abcXY')] for _ in range(n)]

    def stdin_text(self):
        r = self.rng
        return r.choice(['', 'in\n', 'x', 'l1\nl2\n', ' sp ace\n', 'a\nb', 'é\n', 'abc abc\n', '-x\n', "q'q\n"])

    # ---- sources
    def leaf_src(self, data_syms):
        r = self.rng
        k = r.below(10)
        if k < 5:
            t = self.stdin_text()
            fr = [['c', t]]
            text_syms = [n for n in data_syms if n[0] in 'SL' and n[1:].isdigit()]
            if text_syms and r.chance(0.3):
                fr = [['c', t.rstrip('\n')], ['s', r.choice(text_syms)]] + ([['c', '\n']] if t.endswith('\n') else [])
                fr = [f for f in fr if f[0] == 's' or f[1]]
            consts = ''.join(f[1] for f in fr if f[0] == 'c')
            inner = frags_inner(fr)
            if inner.endswith('\n') and '@[' not in consts and not any(ln == 'EOF' for ln in inner.split('\n')):
                s = ['str', fr, 'heredoc']
            elif '\n' not in consts:
                st = [x for x in styles_for(fr) if x != 'bare'] or ['soft']
                if 'soft' in st and '"' in consts:
                    st = ['hard']
                s = ['str', fr, r.choice(st)]
            else:
                s = ['str', [['c', 'in\n']], 'heredoc']
        else:
            s = ['file', r.choice(['data.txt', 'data2.txt']), None]
        if r.chance(0.25):
            s = ['trans', s, self.transformer()]
        return s

    def src(self, env, depth):
        r = self.rng
        if depth > 0 and r.chance(0.12):
            # SRC -transformed-by run PROGRAM
            base = self.leaf_src(env['data'])
            if base[0] == 'trans':
                base = base[1]
            p = self.use_site(env, depth - 1, code=0 if r.chance(0.8) else r.randint(1, 255))
            code = self.code_of(p)
            return ['runt', base, r.chance(0.65) if code != 0 else r.chance(0.2), p]
        if depth > 0 and r.chance(0.35):
            p = self.use_site(env, depth - 1, code=0 if r.chance(0.8) else r.randint(1, 255))
            code = self.code_of(p)
            ign = r.chance(0.65) if code != 0 else r.chance(0.2)
            return ['prog', r.choice(['out', 'err']), ign, p]
        return self.leaf_src(env['data'])

    # ---- programs
    def base_command(self, env, in_act=False):
        """a command that starts a probe: (driver, fixed args)"""
        r = self.rng
        k = r.below(12)
        script = ['str', [['c', '{HOME}/probe.py']], r.choice(['bare', 'hard', 'soft'])]
        if k < 3:
            return ['sys', [['c', PY]], r.choice(['bare', 'hard', 'soft'])], [script]
        if k < 4 and 'PYS' in env['data']:
            return ['sys', [['s', 'PYS']], 'soft'], [script]
        if k < 6:
            return ['exe', PY, 'python'], [script]
        if k < 7:
            return ['exe', PY, 'abs'], [script]
        if k < 9:
            return ['exe', '{HOME}/xprobe', 'abs' if (in_act or r.chance(0.5)) else 'rel-home'], []
        if k < 10 and 'HSCRIPT' in env['data']:
            return ['sys', [['c', PY]], 'bare'], [['sym', 'HSCRIPT']]
        return ['shell', self.shell_line(env)], []

    def shell_line(self, env):
        r = self.rng
        words = []
        for _ in range(r.randint(0, 3)):
            k = r.below(8)
            if k < 3:
                words.append(r.choice(['a', 'b1', 'x.y', '-o', '--k=v', 'p/q']))
            elif k < 4:
                words.append("'" + r.choice(['a  b', 'it is', '"dq"', '$HOME', 'x;y', '#c']) + "'")
            elif k < 5:
                words.append('"' + r.choice(['a  b', "it's", 'x;y', '#c']) + '"')
            elif k < 6:
                words.append(r.choice(['a\\ b', '$NOPE', '"$HOME"', '~nobody', 'x\\;y']))
            elif k < 7 and 'SAFE' in env['data']:
                words.append(['s', 'SAFE'])   # a string symbol whose value the shell leaves alone
            else:
                words.append(r.choice(['  ', '   ']).join(['u', 'v']))
        fr = [['c', PY + ' {HOME}/probe.py']]
        for w in words:
            sep = r.choice([' ', '  '])
            if isinstance(w, list):
                fr.append(['c', sep])
                fr.append(w)
            else:
                fr.append(['c', sep + w])
        out = []
        for f in fr:
            if out and out[-1][0] == 'c' and f[0] == 'c':
                out[-1] = ['c', out[-1][1] + f[1]]
            else:
                out.append(f)
        return out

    def control(self, code=None):
        r = self.rng
        if code is None:
            code = 0
        return ['str', [['c', '--x=%d,%d,%d' % (code, r.below(len(OUTS)), r.below(len(OUTS)))]],
                r.choice(['bare', 'hard', 'soft'])]

    def components(self, env, depth, p_stdin=0.4, p_tr=0.4):
        r = self.rng
        stdin = [self.src(env, depth)] if r.chance(p_stdin) else []
        trs = [self.transformer()] if r.chance(p_tr) else []
        return stdin, trs

    def use_site(self, env, depth, code=0, in_act=False, plain=False):
        """a program as written where it is used: reference to a defined program or a direct command; carries the
        control argument"""
        r = self.rng
        ctl = self.control(code)
        if env['progs'] and r.chance(0.65) and not plain:
            name = r.choice(env['progs'])
            args = self.safe_args(0, 2) if name in env['shell'] else self.args(env['data'], 0, 2)
            pos = r.randint(0, len(args))
            if args and args[-1][0] == 'str' and args[-1][2] == 'eol':
                pos = r.randint(0, len(args) - 1)
            args.insert(pos, ctl)
            stdin, trs = self.components(env, depth)
            return ['ref', name, args, stdin, trs]
        drv, fixed = self.base_command(env, in_act)
        if drv[0] == 'shell':
            line = drv[1]
            line = line + [['c', ' --x=' + frags_inner(ctl[1])[4:]]]
            out = []
            for f in line:
                if out and out[-1][0] == 'c' and f[0] == 'c':
                    out[-1] = ['c', out[-1][1] + f[1]]
                else:
                    out.append(f)
            stdin, trs = ([], []) if plain else self.components(env, depth)
            return ['cmd', ['shell', out], [], stdin, trs]
        args = self.args(env['data'], 0, 3)
        pos = r.randint(0, len(args))
        if args and args[-1][0] == 'str' and args[-1][2] == 'eol':
            pos = r.randint(0, len(args) - 1)
        args.insert(pos, ctl)
        stdin, trs = ([], []) if plain else self.components(env, depth)
        return ['cmd', drv, fixed + args, stdin, trs]

    @staticmethod
    def code_of(p):
        """the exit code the control argument of a use site asks for"""
        if p[0] == 'cmd' and p[1][0] == 'shell':
            m = re.search(r'--x=(\d+),', frags_inner(p[1][1]))
            return int(m.group(1)) if m else 0
        for a in p[2]:
            if a[0] == 'str':
                m = re.fullmatch(r'--x=(\d+),\d+,\d+', frags_inner(a[1]))
                if m:
                    return int(m.group(1))
        return 0

    # ---- definitions
    def data_defs(self):
        r = self.rng
        defs = []
        n = r.randint(0, 4)
        for i in range(n):
            k = r.below(10)
            if k < 5:
                t = self.text().replace('\t', ' ')
                st = [x for x in styles_for([['c', t]])]
                if not st:
                    t, st = 'v', ['bare']
                defs.append(['def', 'S%d' % i, ['string', t, r.choice(st)]])
            elif k < 8:
                els = []
                for _ in range(r.randint(0, 3)):
                    t = self.text().replace('\t', ' ')
                    st = styles_for([['c', t]])
                    if not st:
                        t, st = 'e', ['bare']
                    els.append([t, r.choice(st)])
                defs.append(['def', 'L%d' % i, ['list', els]])
            else:
                opt, base = r.choice([['-rel-home', '{HOME}'], ['-rel-act', '{SDS}/act'], ['-rel-tmp', '{SDS}/tmp']])
                suffix = r.choice(['f.txt', 'd1/g', 'data.txt', 'x-y_z.0'])
                defs.append(['def', 'PA%d' % i, ['path', base + '/' + suffix, opt, suffix]])
        if r.chance(0.3):
            defs.append(['def', 'PYS', ['string', PY, 'bare']])
        if r.chance(0.3):
            defs.append(['def', 'SAFE', ['string', r.choice(['sv', 'a b', '-s', 'x=1']), 'soft']])
        if r.chance(0.3):
            defs.append(['def', 'HSCRIPT', ['path', '{HOME}/probe.py', '-rel-home', 'probe.py']])
        return defs

    def chain_defs(self, env, n_links, prefix='P'):
        """a base program definition and n_links definitions each referring to the previous one"""
        r = self.rng
        k = len(env['progs'])
        drv, fixed = self.base_command(env)
        names = []
        defs = []
        if drv[0] == 'shell':
            stdin, trs = self.components(env, 1)
            base = ['cmd', drv, [], stdin, trs]
        else:
            stdin, trs = self.components(env, 1)
            base = ['cmd', drv, fixed + self.args(env['data'], 0, 2), stdin, trs]
        nm = '%s%d' % (prefix, k)
        defs.append(['def', nm, ['program', base]])
        names.append(nm)
        env['progs'].append(nm)
        is_shell = drv[0] == 'shell'
        if is_shell:
            env['shell'].add(nm)
        for j in range(n_links):
            nm2 = '%s%d' % (prefix, k + j + 1)
            stdin, trs = self.components(env, 1, 0.5, 0.5)
            link = ['ref', names[-1], self.safe_args(0, 2) if is_shell else self.args(env['data'], 0, 2), stdin, trs]
            defs.append(['def', nm2, ['program', link]])
            names.append(nm2)
            env['progs'].append(nm2)
            if is_shell:
                env['shell'].add(nm2)
        return defs

    # ---- a whole case
    def case(self):
        r = self.rng
        env = {'data': [], 'progs': [], 'shell': set()}
        setup = []
        for d in self.data_defs():
            setup.append(d)
            env['data'].append(d[1])
        n_chains = r.weighted([(0, 2), (1, 6), (2, 2)])
        for _ in range(n_chains):
            setup += self.chain_defs(env, r.weighted([(0, 2), (1, 3), (2, 3), (3, 2)]))
        caps = [0]
        fail_budget = [1 if r.chance(0.45) else 0]

        def instrs(phase, lo, hi):
            out = []
            for _ in range(r.randint(lo, hi)):
                k = r.below(10)
                if k < 5:
                    code = 0
                    if fail_budget[0] and r.chance(0.35):
                        code = r.randint(1, 255)
                        fail_budget[0] -= 1
                    elif r.chance(0.1):
                        code = r.randint(1, 255)
                    kind = r.choice(['run', 'run', 'run', '$', '%'])
                    if kind == 'run':
                        p = self.use_site(env, 2, code)
                        ign = r.chance(0.5) if code != 0 else r.chance(0.15)
                        out.append(['run', 'run', ign, p])
                    elif kind == '$':
                        p = ['cmd', ['shell', self.shell_line(env) + [['c', ' --x=%d,%d,%d' % (code, r.below(5), r.below(5))]]],
                             [], [], []]
                        p[1][1] = _merge(p[1][1])
                        out.append(['run', '$', False, p])
                    else:
                        args = self.args(env['data'], 0, 3)
                        args.insert(r.randint(0, len(args) - (1 if args and args[-1][2:] == ['eol'] else 0)),
                                    self.control(code))
                        p = ['cmd', ['sys', [['c', PY]], r.choice(['bare', 'soft'])],
                             [['str', [['c', '{HOME}/probe.py']], 'bare']] + args, [], []]
                        out.append(['run', '%', False, p])
                elif k < 7:
                    caps[0] += 1
                    out.append(['cap', caps[0], self.src(env, 2)])
                elif k < 8:
                    opt, base, suf = r.choice([['-rel-act', '{SDS}/act', '.'], ['-rel-act', '{SDS}/act', 'd1'],
                                               ['-rel-act', '{SDS}/act', 'd1/d2'], ['-rel-tmp', '{SDS}/tmp', '.']])
                    out.append(['cd', base if suf == '.' else base + '/' + suf, opt, suf])
                else:
                    # a definition in the middle of a phase: visible to what is executed after it
                    late[0] += 1
                    q = r.below(10)
                    if q < 3:
                        nm = 'S9%d' % late[0]
                        t = self.text().replace('\t', ' ')
                        st = styles_for([['c', t]]) or None
                        if st:
                            out.append(['def', nm, ['string', t, r.choice(st)]])
                            env['data'].append(nm)
                            late_names.append((nm, phase))
                    elif q < 5:
                        nm = 'L9%d' % late[0]
                        els = []
                        for _ in range(r.randint(0, 3)):
                            t = self.text().replace('\t', ' ')
                            st = styles_for([['c', t]])
                            if st:
                                els.append([t, r.choice(st)])
                        out.append(['def', nm, ['list', els]])
                        env['data'].append(nm)
                        late_names.append((nm, phase))
                    elif q < 8 and env['progs']:
                        nm = 'Q%d' % late[0]
                        target = r.choice(env['progs'])
                        is_shell = target in env['shell']
                        stdin, trs = self.components(env, 1, 0.5, 0.5)
                        link = ['ref', target, self.safe_args(0, 2) if is_shell else self.args(env['data'], 0, 2),
                                stdin, trs]
                        out.append(['def', nm, ['program', link]])
                        env['progs'].append(nm)
                        if is_shell:
                            env['shell'].add(nm)
                        late_names.append((nm, phase))
                    else:
                        before_n = len(env['progs'])
                        ds = self.chain_defs(env, r.weighted([(0, 3), (1, 2)]), prefix='R%d_' % late[0])
                        out += ds
                        for nm in env['progs'][before_n:]:
                            late_names.append((nm, phase))
            return out

        late = [0]
        late_names = []   # (name, phase it is defined in), for definitions that are not at the start of [setup]

        def hide_for_cleanup():
            # a definition whose main step may have been skipped after a failure must not be referenced from
            # [cleanup] (that combination is known finding KF-C08-1, property C08)
            hidden = {nm for nm, ph in late_names if ph != 'cleanup'}
            env['data'] = [n for n in env['data'] if n not in hidden]
            env['progs'] = [n for n in env['progs'] if n not in hidden]

        setup += instrs('setup', 0, 3)
        act_stdin = None
        if r.chance(0.5):
            act_stdin = self.src(env, 2)
            setup.append(['stdin', act_stdin])
        setup += instrs('setup', 0, 1)
        actor = r.weighted([('command', 11), ('file', 3), ('source', 3), ('null', 2)])
        act_code = 0 if r.chance(0.5) else r.randint(0, 255)
        if actor == 'command':
            act = ['command', self.use_site(env, 2, act_code, in_act=True)]
        elif actor in ('file', 'source'):
            if r.chance(0.5):
                idrv = ['sys', [['c', PY]], r.choice(['bare', 'soft'])]
            else:
                idrv = ['exe', PY, r.choice(['abs', 'python'])]
            iargs = []
            if r.chance(0.5):
                iargs.append(['str', [['c', r.choice(['-B', '-s', '-E'])]], 'bare'])
            if actor == 'file':
                args = self.args(env['data'], 0, 3)
                args.insert(r.randint(0, len(args) - (1 if args and args[-1][2:] == ['eol'] else 0)),
                            self.control(act_code))
                act = ['file', idrv, iargs, 'probe.py', args]
            else:
                act = ['source', idrv, iargs, act_code, r.below(5), r.below(5),
                       r.choice(env['data']) if env['data'] and r.chance(0.4) else None]
        else:
            act = ['null']
        at_before_start = (list(env['data']), list(env['progs']))
        before = instrs('before', 0, 2)
        at_assert_start = (list(env['data']), list(env['progs']))
        assert_ = instrs('assert', 0, 2)
        hide_for_cleanup()
        cleanup = instrs('cleanup', 0, 2)
        if r.chance(0.15):
            # a failure in [cleanup] on top of whatever failed before: which one is reported?  (appended: it may use
            # what [cleanup] itself defines)
            cleanup.append(['run', 'run', False, self.use_site(env, 1, r.randint(1, 255))])
        if r.chance(0.12):
            before.insert(r.randint(0, len(before)), ['run', 'run', False, self.use_site(
                {'data': at_assert_start[0][:0] + [n for n in at_before_start[0]],
                 'progs': list(at_before_start[1]), 'shell': env['shell']}, 1, r.randint(1, 255))])
        # the assertions added to [assert] below (at any position) may use what is defined when [assert] starts
        env['data'], env['progs'] = at_assert_start
        # the order of the sections in the FILE is free (execution order is fixed): shuffle it, and sometimes split
        # [setup] in two so that a definition stands after its use in file order but before it in execution order
        blocks = ['setup', 'act', 'before', 'assert', 'cleanup']
        split_at = None
        if len(setup) >= 2 and r.chance(0.4):
            split_at = r.randint(1, len(setup) - 1)
            blocks = ['setup1', 'setup2', 'act', 'before', 'assert', 'cleanup']
        if r.chance(0.6):
            r.shuffle(blocks)
            if split_at is not None and blocks.index('setup1') > blocks.index('setup2'):
                i1, i2 = blocks.index('setup1'), blocks.index('setup2')
                blocks[i1], blocks[i2] = blocks[i2], blocks[i1]
        case = {'setup': setup, 'act': act, 'before': before, 'assert': assert_, 'cleanup': cleanup,
                'layout': {'blocks': blocks, 'split_at': split_at, 'conf_last': r.chance(0.3)}}
        # assertions on the outcome of the action to check: expected values from a python-side prediction (used
        # only to make passing and failing assertions both frequent - never for a verdict)
        pred = predict_act(case)
        asserts = []
        for kind in r.sample(['exit-code', 'stdout', 'stderr'], r.randint(0, 3)):
            if kind == 'exit-code':
                k = pred[0] if r.chance(0.7) else r.choice([0, 1, 255, (pred[0] + 1) % 256, r.below(256)])
                asserts.append(['exit-code', k])
            else:
                t = pred[1] if kind == 'stdout' else pred[2]
                if not r.chance(0.7):
                    t = r.choice(OUTS + [t + 'x', t.upper(), t[1:]])
                asserts.append([kind, t])
        # assertions on a program of their own (-from PROGRAM)
        defs = all_defs(case)
        for _ in range(r.weighted([(0, 6), (1, 3), (2, 1)])):
            code = 0 if r.chance(0.5) else r.randint(0, 255)
            p = self.use_site(env, 1, code)
            m = re.search(r'--x=(\d+),(\d+),(\d+)', ' '.join(
                [frags_inner(p[1][1])] if p[0] == 'cmd' and p[1][0] == 'shell'
                else [frags_inner(a[1]) for a in p[2] if a[0] == 'str']))
            c, o, e = [int(x) for x in m.groups()]
            if r.chance(0.4):
                k = c if r.chance(0.7) else r.choice([0, 1, (c + 1) % 256, r.below(256)])
                asserts.append(['exit-code-from', p, k])
            else:
                ch = r.choice(['out', 'err'])
                t = py_apply(py_trs(p, defs), OUTS[o if ch == 'out' else e])
                if not r.chance(0.7):
                    t = r.choice(OUTS + [t + 'x', t[1:]])
                asserts.append(['out-from', ch, p, t])
        # programs as matchers: stdout / stderr [!] run PROGRAM ; exists FILE : [!] run PROGRAM
        for _ in range(r.weighted([(0, 6), (1, 3), (2, 1)])):
            code = 0 if r.chance(0.5) else r.randint(1, 255)
            p = self.use_site(env, 1, code)
            if r.chance(0.5):
                asserts.append(['out-run', r.choice(['out', 'err']), r.chance(0.4), p])
            else:
                asserts.append(['file-run', r.chance(0.4), r.choice(['data.txt', 'data2.txt', 'sub']), p])
        for a in asserts:
            case['assert'].insert(r.randint(0, len(case['assert'])), a)
        return case


def _merge(fr):
    out = []
    for f in fr:
        if out and out[-1][0] == 'c' and f[0] == 'c':
            out[-1] = ['c', out[-1][1] + f[1]]
        else:
            out.append(f)
    return out


def all_defs(case):
    d = {}
    for ph in ('setup', 'before', 'assert', 'cleanup'):
        for i in case[ph]:
            if i[0] == 'def':
                d[i[1]] = i[2]
    return d


def py_trs(p, defs, depth=0):
    """python-side: the accumulated transformations of a program (for choosing assertion texts only)"""
    if depth > 20:
        return []
    if p[0] == 'cmd':
        return list(p[4])
    v = defs.get(p[1])
    if not v or v[0] != 'program':
        return []
    return py_trs(v[1], defs, depth + 1) + list(p[4])


def py_stdin(p, defs, depth=0):
    """python-side: the accumulated stdin parts of a program (for the known-finding predicate only)"""
    if depth > 20:
        return []
    if p[0] == 'cmd':
        return list(p[3])
    v = defs.get(p[1])
    if not v or v[0] != 'program':
        return []
    return py_stdin(v[1], defs, depth + 1) + list(p[3])


def py_is_direct(s, defs):
    return s[0] == 'prog' and (s[1] == 'out' or s[2]) and not py_trs(s[3], defs)


def mixed_stdin_sequence(case):
    """the class of the repaired defect FIX-C10-1: some program of the case has a stdin sequence (accumulated parts, plus the [setup] stdin for the
    action to check) of >= 2 parts in which a part written through the Python file object precedes a part written
    through the file descriptor"""
    defs = all_defs(case)
    act_stdin = [i[1] for i in case['setup'] if i[0] == 'stdin'][-1:]
    seqs = []
    progs = programs_of(case, with_defs=True)
    for p in progs:
        seqs.append(py_stdin(p, defs))
    if case['act'][0] == 'command':
        seqs.append(py_stdin(case['act'][1], defs) + act_stdin)
    for seq in seqs:
        if len(seq) >= 2:
            seen_buffered = False
            for s in seq:
                if py_is_direct(s, defs):
                    if seen_buffered:
                        return True
                else:
                    seen_buffered = True
    return False


def py_apply(trs, text):
    for t in trs:
        for a, b in t:
            text = text.replace(a, b)
    return text


def predict_act(case):
    act = case['act']
    if act[0] == 'null':
        return 0, '', ''
    if act[0] == 'source':
        return act[3], OUTS[act[4]], OUTS[act[5]]
    if act[0] == 'file':
        ctl = None
        for a in act[4]:
            if a[0] == 'str' and re.fullmatch(r'--x=\d+,\d+,\d+', frags_inner(a[1])):
                ctl = frags_inner(a[1])[4:]
                break
        c, o, e = [int(x) for x in ctl.split(',')]
        return c, OUTS[o], OUTS[e]
    p = act[1]
    if p[0] == 'cmd' and p[1][0] == 'shell':
        m = re.search(r'--x=(\d+),(\d+),(\d+)', frags_inner(p[1][1]))
    else:
        m = None
        for a in p[2]:
            if a[0] == 'str':
                m = re.fullmatch(r'--x=(\d+),(\d+),(\d+)', frags_inner(a[1]))
                if m:
                    break
    if not m:
        return 0, '', ''
    c, o, e = [int(x) for x in m.groups()]
    return c, py_apply(py_trs(p, all_defs(case)), OUTS[o]), OUTS[e]


# ------------------------------------------------------------------------------------------------
# rendering to exactly syntax
# ------------------------------------------------------------------------------------------------
class Render:
    def __init__(self, home):
        self.home = home
        self.expect_files = {}

    def real(self, s):
        return s.replace('{HOME}', self.home)

    def arg(self, a):
        if a[0] == 'sym':
            return '@[%s]@' % a[1]
        style = a[2]
        if style == 'eol':
            return ':> ' + self.real(frags_inner(a[1]))
        if style in ('xfile', 'xdir', 'xpath'):
            opt = {'xfile': '-existing-file', 'xdir': '-existing-dir', 'xpath': '-existing-path'}[style]
            return '%s -rel-home %s' % (opt, a[1][0][1][len('{HOME}/'):])
        return self.real(token(a[1], style))

    def tr(self, t):
        parts = ['replace %s %s' % (a, b) for a, b in t]
        return parts[0] if len(parts) == 1 else '( ' + ' | '.join(parts) + ' )'

    def driver(self, d):
        if d[0] == 'exe':
            if d[2] == 'python':
                return '-python'
            if d[2] == 'rel-home':
                return '-rel-home ' + d[1][len('{HOME}/'):]
            return self.real(d[1])
        if d[0] == 'sys':
            return '% ' + self.real(token(d[1], d[2]))
        return '$ ' + self.real(frags_inner(d[1]))

    def src(self, s):
        """-> (lines, simple): simple = everything is on one line and a ')' may follow on it"""
        k = s[0]
        if k == 'str':
            if s[2] == 'heredoc':
                body = self.real(frags_inner(s[1]))
                assert body.endswith('\n')
                return ['<<EOF'] + body[:-1].split('\n') + ['EOF'], False
            return [self.real(token(s[1], s[2]))], True
        if k == 'file':
            return ['-contents-of -rel-home ' + s[1]], True
        if k == 'trans':
            lines, simple = self.src(s[1])
            if simple:
                return [lines[0] + ' -transformed-by ' + self.tr(s[2])], True
            return lines + ['    -transformed-by ' + self.tr(s[2])], False
        if k == 'runt':
            lines, simple = self.src(s[1])
            pl = self.prog(s[3])
            head = ' -transformed-by run ' + ('-ignore-exit-code ' if s[2] else '')
            if simple:
                return [lines[0] + head + pl[0]] + pl[1:], False
            return lines + ['   ' + head + pl[0]] + pl[1:], False
        if k == 'prog':
            pl = self.prog(s[3])
            head = ('-stdout-from ' if s[1] == 'out' else '-stderr-from ') + ('-ignore-exit-code ' if s[2] else '')
            return [head + pl[0]] + pl[1:], False
        raise ValueError(s)

    def prog(self, p, indent='    '):
        if p[0] == 'cmd':
            first = self.driver(p[1])
            if p[1][0] != 'shell' and p[2]:
                first += ' ' + ' '.join(self.arg(a) for a in p[2])
        else:
            first = '@ ' + p[1]
            if p[2]:
                first += ' ' + ' '.join(self.arg(a) for a in p[2])
        lines = [first]
        for s in p[3]:
            sl, simple = self.src(s)
            if simple:
                lines.append(indent + '-stdin ( ' + sl[0] + ' )')
            else:
                lines.append(indent + '-stdin ( ' + sl[0])
                # here-document lines and the lines of nested programs keep their own layout
                lines += sl[1:]
                lines.append(indent + ')')
        for t in p[4]:
            lines.append(indent + '-transformed-by ' + self.tr(t))
        return lines

    def instr(self, i):
        k = i[0]
        if k == 'def':
            v = i[2]
            if v[0] == 'string':
                return ['def string %s = %s' % (i[1], self.real(token([['c', v[1]]], v[2])))]
            if v[0] == 'list':
                return ['def list %s = %s' % (i[1], ' '.join(self.real(token([['c', t]], st)) for t, st in v[1]))]
            if v[0] == 'path':
                return ['def path %s = %s %s' % (i[1], v[2], v[3])]
            pl = self.prog(v[1])
            return ['def program %s = %s' % (i[1], pl[0])] + pl[1:]
        if k == 'cd':
            return ['cd %s %s' % (i[2], i[3])]
        if k == 'run':
            pl = self.prog(i[3])
            if i[1] == 'run':
                return ['run ' + ('-ignore-exit-code ' if i[2] else '') + pl[0]] + pl[1:]
            return pl  # the driver rendering starts with the instruction name $ or %
        if k == 'cap':
            sl, _ = self.src(i[2])
            return ['file -rel-tmp cap%d.txt = %s' % (i[1], sl[0])] + sl[1:]
        if k == 'stdin':
            sl, _ = self.src(i[1])
            return ['stdin = ' + sl[0]] + sl[1:]
        if k == 'exit-code':
            return ['exit-code == %d' % i[1]]
        if k in ('stdout', 'stderr'):
            fn = 'expected%d.txt' % len(self.expect_files)
            self.expect_files[fn] = i[1]
            return ['%s equals -contents-of -rel-home %s' % (k, fn)]
        if k == 'out-run':
            pl = self.prog(i[3])
            return [('stdout' if i[1] == 'out' else 'stderr') + (' ! ' if i[2] else ' ') + 'run ' + pl[0]] + pl[1:]
        if k == 'file-run':
            pl = self.prog(i[3])
            return ['exists -rel-home %s :%s run %s' % (i[2], ' !' if i[1] else '', pl[0])] + pl[1:]
        if k == 'exit-code-from':
            pl = self.prog(i[1])
            return ['exit-code -from ' + pl[0]] + pl[1:] + ['    == %d' % i[2]]
        if k == 'out-from':
            pl = self.prog(i[2])
            fn = 'expected%d.txt' % len(self.expect_files)
            self.expect_files[fn] = i[3]
            return [('stdout' if i[1] == 'out' else 'stderr') + ' -from ' + pl[0]] + pl[1:] + \
                   ['    equals -contents-of -rel-home %s' % fn]
        raise ValueError(i)

    def case(self, case, rec):
        act = case['act']
        conf = []
        if act[0] == 'file':
            conf = ['[conf]', 'actor = file ' + self.driver(act[1]).lstrip() +
                    ''.join(' ' + self.arg(a) for a in act[2])]
        elif act[0] == 'source':
            conf = ['[conf]', 'actor = source ' + self.driver(act[1]).lstrip() +
                    ''.join(' ' + self.arg(a) for a in act[2])]
        elif act[0] == 'null':
            conf = ['[conf]', 'actor = null']
        layout = case.get('layout') or {'blocks': ['setup', 'act', 'before', 'assert', 'cleanup'], 'split_at': None,
                                        'conf_last': False}
        # instructions are rendered in EXECUTION order (the numbering of expected-files depends on it), then the
        # sections are laid out in the order of the layout
        setup_lines = [self.instr(i) for i in case['setup']]
        phase_lines = {ph: [ln for i in case[ph] for ln in self.instr(i)] for ph in ('before', 'assert', 'cleanup')}
        k = layout['split_at']
        sections = {
            'setup': ['[setup]', 'dir d1/d2'] + [ln for ls in setup_lines for ln in ls],
            'setup1': ['[setup]', 'dir d1/d2'] + [ln for ls in setup_lines[:k or 0] for ln in ls],
            'setup2': ['[setup]'] + [ln for ls in setup_lines[k or 0:] for ln in ls],
            'before': ['[before-assert]'] + phase_lines['before'],
            'assert': ['[assert]'] + phase_lines['assert'],
            'cleanup': ['[cleanup]'] + phase_lines['cleanup'],
        }
        if act[0] == 'command':
            sections['act'] = ['[act]'] + self.prog(act[1])
        elif act[0] == 'file':
            sections['act'] = ['[act]', act[3] + ''.join(' ' + self.arg(a) for a in act[4])]
        elif act[0] == 'source':
            sections['act'] = ['[act]'] + self.real(source_text(act)).split('\n')
        else:
            sections['act'] = ['[act]', 'whatever is here']
        lines = [] if layout['conf_last'] else list(conf)
        for b in layout['blocks']:
            lines += sections[b]
        if layout['conf_last']:
            lines += conf
        return '\n'.join(lines) + '\n'


def source_frags(act):
    """the source code of a source-interpreter case: the probe with its control values, and possibly a symbol
    reference (substituted by exactly) in a comment-free string"""
    code = PROBE % {'rec': '{HOME}/../rec.jsonl', 'ctl': '%d,%d,%d' % (act[3], act[4], act[5]), 'outs': OUTS}
    code = code.rstrip('\n')
    fr = [['c', code]]
    if act[6]:
        fr = [['c', code + '  # sym: '], ['s', act[6]]]
    return fr


def source_text(act):
    return frags_inner(source_frags(act))


# ------------------------------------------------------------------------------------------------
# running the real program
# ------------------------------------------------------------------------------------------------
class Runner:
    """one private directory with home / sandboxes / record file; one main program whose process executor records"""

    def __init__(self, work):
        from exactly_lib.cli import main_program as mpm
        from exactly_lib.impls.os_services import os_services_access
        from exactly_lib.impls.program_execution.impl import cmd_exe_from_proc_exe
        from exactly_lib.impls.program_execution import executable_factories
        from exactly_lib.util.process_execution.process_executor import ProcessExecutor
        from exactly_lib.util.process_execution.execution_elements import ProcessExecutionSettings
        self.root = os.path.realpath(tempfile.mkdtemp(prefix='c10-', dir=work))
        self.sbx = os.path.join(self.root, 'sb')
        self.home = os.path.join(self.root, 'home')
        self.rec = os.path.join(self.root, 'rec.jsonl')
        os.makedirs(self.sbx)
        os.makedirs(os.path.join(self.home, 'sub'))
        src = PROBE % {'rec': self.rec, 'ctl': '0,0,0', 'outs': OUTS}
        with open(os.path.join(self.home, 'probe.py'), 'w') as f:
            f.write(src)
        with open(os.path.join(self.home, 'xprobe'), 'w') as f:
            f.write('#!' + PY + '\n' + src)
        os.chmod(os.path.join(self.home, 'xprobe'), 0o755)
        for fn, t in FILES.items():
            with open(os.path.join(self.home, fn), 'w') as f:
                f.write(t)
        self.log = []
        runner = self

        class RecordingProcessExecutor(ProcessExecutor):
            def execute(self, executable, settings, files):
                k = len(runner.log)
                sin = files.stdin
                text = None
                if hasattr(sin, 'name'):
                    with open(sin.name, 'rb') as f:
                        text = f.read().decode('utf-8', 'surrogateescape')
                ent = {'shell': bool(executable.is_shell), 'cmd': executable.arg_list_or_str, 'stdin': text,
                       'cwd': os.getcwd(), 'rc': None}
                runner.log.append(ent)
                environ = dict(os.environ if settings.environ is None else settings.environ)
                environ['C10_IDX'] = str(k)
                rc = super().execute(executable, ProcessExecutionSettings(settings.timeout_in_seconds, environ), files)
                ent['rc'] = rc
                return rc

        osv = os_services_access.new_for_cmd_exe(cmd_exe_from_proc_exe.CommandExecutorFromProcessExecutor(
            RecordingProcessExecutor(), executable_factories.get_factory_for_current_operating_system()))

        class MP(mpm.MainProgram):
            # as MainProgram.execute_test_case, with the recording OS services
            def execute_test_case(self, settings):
                from exactly_lib.processing.standalone import processor
                p = processor.Processor(self._test_case_definition, osv,
                                        self._test_suite_definition.configuration_section_parser, self._mem_buff_size)
                return processor.ProcessorExecutionReporter(p, settings)

        base = impl.main_program(self.sbx)
        self.mp = MP.__new__(MP)
        self.mp.__dict__.update(base.__dict__)

    def close(self):
        shutil.rmtree(self.root, ignore_errors=True)

    def canon(self, s, sds):
        if sds:
            s = s.replace(sds, '{SDS}')
        s = s.replace(self.home, '{HOME}')
        return re.sub(r'^\{SDS\}/internal/\S*/act\.src$', '{SRC}', s)

    def run_guarded(self, case):
        """an observation that cannot be collected / canonicalised is an observation that matches nothing (verdict
        'other', no processes): the case fails, the run goes on"""
        try:
            return self.run(case)
        except Exception:
            import traceback
            return {'exit': -1, 'phase': 97, 'stdout_is_sds': False, 'exception': 'harness: ' + traceback.format_exc()[-600:],
                    'procs': [], 'result': None, 'caps': [], 'source': None, 'report': 'observation failed',
                    'case_text': '<observation failed>'}

    def run(self, case):
        """-> observation dict"""
        for fn in os.listdir(self.sbx):
            shutil.rmtree(os.path.join(self.sbx, fn), ignore_errors=True)
        if os.path.exists(self.rec):
            os.remove(self.rec)
        self.log.clear()
        rd = Render(self.home)
        text = rd.case(case, self.rec)
        for fn, t in rd.expect_files.items():
            with open(os.path.join(self.home, fn), 'w') as f:
                f.write(t)
        path = os.path.join(self.home, 'c.case')
        with open(path, 'w', encoding='utf-8') as f:
            f.write(text)
        r = impl.run_main(self.mp, ['--keep', path], self.home, self.root)
        sdss = os.listdir(self.sbx)
        sds = os.path.join(self.sbx, sdss[0]) if len(sdss) == 1 else None
        children = {}
        if os.path.exists(self.rec):
            for line in open(self.rec, encoding='utf-8', errors='surrogateescape'):
                d = json.loads(line)
                children.setdefault(d['idx'], []).append(d)
        procs = []
        source = None
        for k, ent in enumerate(self.log):
            ch = children.get(str(k), [])
            cmd = ent['cmd']
            procs.append({
                'shell': ent['shell'],
                # str for a shell command, list otherwise - but whatever the implementation hands over is recorded
                'cmd': self.canon(cmd, sds) if isinstance(cmd, str) else [self.canon(str(a), sds) for a in cmd],
                'stdin': None if ent['stdin'] is None else self.canon(ent['stdin'], sds),
                'cwd': self.canon(ent['cwd'], sds), 'rc': ent['rc'],
                'child': None if len(ch) != 1 else {
                    'argv': [self.canon(a, sds) for a in ch[0]['argv']], 'stdin': self.canon(ch[0]['stdin'], sds),
                    'cwd': self.canon(ch[0]['cwd'], sds), 'code': ch[0]['code'], 'out': ch[0]['out'],
                    'err': ch[0]['err']}})
        result = None
        caps = []
        if sds:
            # the file the source interpreter actor writes the source code to (written in act/prepare)
            for d, _, fns in os.walk(os.path.join(sds, 'internal')):
                if 'act.src' in fns:
                    source = self.canon(open(os.path.join(d, 'act.src'), encoding='utf-8').read(), sds)
            try:
                result = [open(os.path.join(sds, 'result', n), encoding='utf-8', errors='surrogateescape').read()
                          for n in ('exit-code', 'stdout', 'stderr')]
            except OSError:
                result = None
            n_caps = sum(1 for ph in ('setup', 'before', 'assert', 'cleanup') for i in case[ph] if i[0] == 'cap')
            for k in range(1, n_caps + 1):
                try:
                    caps.append([k, self.canon(open(os.path.join(sds, 'tmp', 'cap%d.txt' % k), encoding='utf-8',
                                                    errors='surrogateescape').read(), sds)])
                except OSError:
                    pass
        first_err_line = ''
        if r.exit_code != 0:
            first_err_line = ' | '.join(r.err.strip().split('\n')[:12])[:700]
        # the phase the program says the failure is in: the "In [phase]" line of its error report
        m = re.search(r'^In \[([a-z-]+)\]\s*$', r.err, re.M)
        phase = 0 if r.exit_code == 0 else (
            {'setup': 1, 'act': 2, 'before-assert': 3, 'assert': 4, 'cleanup': 5}.get(m.group(1), 98) if m else 99)
        return {'exit': r.exit_code, 'phase': phase, 'stdout_is_sds': bool(sds) and r.out.strip() == sds,
                'exception': repr(r.exception) if r.exception else None,
                'procs': procs, 'result': result, 'caps': caps, 'source': source, 'report': first_err_line,
                'case_text': text if len(text) < 6000 else text[:6000]}


_RUNNER = None


def _worker(args):
    global _RUNNER
    work, cases = args
    if _RUNNER is None:
        _RUNNER = Runner(work)
    try:
        return [_RUNNER.run_guarded(c) for c in cases]
    finally:
        _RUNNER.close()
        _RUNNER = None


def run_cases(ctx, cases):
    import exactly_lib.cli.main_program  # noqa: F401  (import before forking)
    nproc = max(1, min(common.NCPU, len(cases) // 4 or 1))
    chunk = (len(cases) + nproc - 1) // nproc
    jobs = [(ctx.work, cases[i:i + chunk]) for i in range(0, len(cases), chunk)]
    if nproc == 1:
        return _worker(jobs[0])
    with multiprocessing.get_context('fork').Pool(nproc) as pool:
        parts = pool.map(_worker, jobs)
    return [o for part in parts for o in part]


# ------------------------------------------------------------------------------------------------
# Coq terms
# ------------------------------------------------------------------------------------------------
class Terms:
    def __init__(self, case):
        self.ids = {}
        for nm in sorted(all_defs(case)):
            self.ids[nm] = len(self.ids) + 1

    def name(self, nm):
        if nm not in self.ids:
            self.ids[nm] = len(self.ids) + 1
        return cN(self.ids[nm])

    def frags(self, fr):
        if not fr:
            return '(@nil frag)'
        return clist(['(FConst %s)' % ctext(f[1]) if f[0] == 'c' else '(FSym %s)' % self.name(f[1]) for f in fr])

    def arg(self, a):
        if a[0] == 'sym':
            return '(ASym %s)' % self.name(a[1])
        return '(AStr %s)' % self.frags(a[1])

    def args(self, l):
        return clist([self.arg(a) for a in l]) if l else '(@nil arg)'

    @staticmethod
    def tr(t):
        return clist(['(%s, %s)' % (cN(ord(a)), cN(ord(b))) for a, b in t])

    def trs(self, l):
        return clist([self.tr(t) for t in l]) if l else '(@nil transformer)'

    def src(self, s, files):
        k = s[0]
        if k == 'str':
            return '(SStr %s)' % self.frags(s[1])
        if k == 'file':
            return '(SFile %s)' % ctext(files[s[1]])
        if k == 'trans':
            return '(STrans %s %s)' % (self.src(s[1], files), self.tr(s[2]))
        if k == 'runt':
            return '(SRunT %s %s %s)' % (self.src(s[1], files), cbool(s[2]), self.prog(s[3], files))
        return '(SProg %s %s %s)' % ('COut' if s[1] == 'out' else 'CErr', cbool(s[2]), self.prog(s[3], files))

    def srcs(self, l, files):
        return clist([self.src(s, files) for s in l]) if l else '(@nil src)'

    def driver(self, d):
        if d[0] == 'exe':
            return '(DExe %s)' % ctext(d[1])
        if d[0] == 'sys':
            return '(DSys %s)' % self.frags(d[1])
        return '(DShell %s)' % self.frags(d[1])

    def prog(self, p, files):
        if p[0] == 'cmd':
            return '(PCmd (Cmd %s %s) (Acc %s (@nil arg) %s))' % (self.driver(p[1]), self.args(p[2]),
                                                                 self.srcs(p[3], files), self.trs(p[4]))
        return '(PRef %s (Acc %s %s %s))' % (self.name(p[1]), self.srcs(p[3], files), self.args(p[2]), self.trs(p[4]))

    def instr(self, i, files):
        k = i[0]
        if k == 'def':
            v = i[2]
            if v[0] == 'string':
                val = '(VData (DStr %s))' % ctext(v[1])
            elif v[0] == 'list':
                val = '(VData (DList %s))' % (clist([ctext(t) for t, _ in v[1]]) if v[1] else '(@nil text)')
            elif v[0] == 'path':
                val = '(VData (DPath %s))' % ctext(v[1])
            else:
                val = '(VProg %s)' % self.prog(v[1], files)
            return '(IDef %s %s)' % (self.name(i[1]), val)
        if k == 'cd':
            return '(ICd %s)' % ctext(i[1])
        if k == 'run':
            return '(IRun %s %s)' % (cbool(i[2]), self.prog(i[3], files))
        if k == 'cap':
            return '(ICapture %s %s)' % (cN(i[1]), self.src(i[2], files))
        if k == 'stdin':
            return '(IStdin %s)' % self.src(i[1], files)
        if k == 'exit-code':
            return '(IExitCode %s)' % cN(i[1])
        if k == 'stdout':
            return '(IStdout %s)' % ctext(i[1])
        if k == 'stderr':
            return '(IStderr %s)' % ctext(i[1])
        if k == 'out-run':
            return '(IOutRun %s %s %s)' % ('COut' if i[1] == 'out' else 'CErr', cbool(i[2]), self.prog(i[3], files))
        if k == 'file-run':
            return '(IFileRun %s %s %s)' % (cbool(i[1]), ctext('{HOME}/' + i[2]), self.prog(i[3], files))
        if k == 'exit-code-from':
            return '(IExitCodeFrom %s %s)' % (self.prog(i[1], files), cN(i[2]))
        if k == 'out-from':
            return '(IOutFrom %s %s %s)' % ('COut' if i[1] == 'out' else 'CErr', self.prog(i[2], files), ctext(i[3]))
        raise ValueError(i)

    def instrs(self, l, files):
        return clist([self.instr(i, files) for i in l]) if l else '(@nil instr)'

    def act(self, a, files):
        if a[0] == 'command':
            return '(ActCommand %s)' % self.prog(a[1], files)
        if a[0] == 'file':
            return '(ActFile (Cmd %s %s) %s %s)' % (self.driver(a[1]), self.args(a[2]), ctext('{HOME}/' + a[3]),
                                                     self.args(a[4]))
        if a[0] == 'source':
            return '(ActSource (Cmd %s %s) %s)' % (self.driver(a[1]), self.args(a[2]),
                                                   self.frags(source_frags_model(a)))
        return 'ActNull'


def source_frags_model(act):
    # what exactly builds from the lines of the act phase: lines joined by os.linesep, each line terminated
    return [[f[0], f[1]] for f in _terminate(source_frags(act))]


def _terminate(fr):
    fr = [list(f) for f in fr]
    if fr[-1][0] == 'c':
        fr[-1][1] += '\n'
    else:
        fr.append(['c', '\n'])
    return fr


def c_exe(p):
    if p['shell'] and not isinstance(p['cmd'], str) and len(p['cmd']) == 1:
        # subprocess: with shell=True a one-element list is the same `sh -c ELEMENT` as the string
        return '(ExShell %s)' % ctext(p['cmd'][0])
    if p['shell'] and not isinstance(p['cmd'], str):
        return '(ExShellList %s)' % (clist([ctext(a) for a in p['cmd']]) if p['cmd'] else '(@nil text)')
    if not p['shell'] and isinstance(p['cmd'], str):
        return '(ExShellList %s)' % clist([ctext('<shell=False with a string>'), ctext(p['cmd'])])
    if p['shell']:
        return '(ExShell %s)' % ctext(p['cmd'])
    return '(ExArgv %s)' % (clist([ctext(a) for a in p['cmd']]) if p['cmd'] else '(@nil text)')


def c_outcome(code, out, err):
    return '(Out %s %s %s)' % (cN(code), ctext(out), ctext(err))


VERDICTS = {0: 0}


def verdict_code(exit_code):
    from exactly_lib.processing import exit_values as ev
    table = {ev.EXECUTION__PASS.exit_code: 0, ev.EXECUTION__FAIL.exit_code: 1, ev.EXECUTION__HARD_ERROR.exit_code: 2}
    return table.get(exit_code, 99)


def c_case(case, obs, files):
    tm = Terms(case)
    tcase = '(TC %s %s %s %s %s)' % (tm.instrs(case['setup'], files), tm.act(case['act'], files),
                                     tm.instrs(case['before'], files), tm.instrs(case['assert'], files),
                                     tm.instrs(case['cleanup'], files))
    oracle = []
    procs = []
    for p in obs['procs']:
        ch = p['child']
        rc = p['rc'] if p['rc'] is not None and 0 <= p['rc'] < 2 ** 31 else 999999
        oracle.append(c_outcome(rc, ch['out'] if ch else '', ch['err'] if ch else ''))
        # a child whose own exit code differs from what the implementation got back is reported as "no child"
        child = 'None'
        if ch and ch['code'] == p['rc']:
            child = '(Some (Child %s %s %s))' % (clist([ctext(a) for a in ch['argv']]), ctext(ch['stdin']),
                                                 ctext(ch['cwd']))
        procs.append('(PObs %s %s %s %s)' % (c_exe(p), copt(p['stdin'], ctext), ctext(p['cwd']), child))
    res = obs['result']
    act_obs = 'None'
    if res is not None:
        try:
            act_obs = '(Some %s)' % c_outcome(int(res[0]), res[1], res[2])
        except ValueError:
            act_obs = '(Some %s)' % c_outcome(999998, res[1], res[2])
    verdict = verdict_code(obs['exit']) if obs['exception'] is None else 98
    o = '(Obs %s %s %s %s %s %s)' % (cN(verdict), cN(obs.get('phase', 96)), clist(procs) if procs else '(@nil pobs)', act_obs,
                                 copt(obs['source'], ctext),
                                 clist(['(%s, %s)' % (cN(k), ctext(t)) for k, t in obs['caps']]) if obs['caps']
                                 else '(@nil (N * text))')
    scripts = clist([ctext('{HOME}/probe.py'), ctext('{HOME}/xprobe'), ctext('{SRC}')])
    return '(Case %s %s (@nil (name * sval)) %s %s %s %s)' % (
        cnat(FUEL), ctext('{SDS}/act'), tcase, clist(oracle) if oracle else '(@nil outcome)', scripts, o)


# ------------------------------------------------------------------------------------------------
# the check
# ------------------------------------------------------------------------------------------------
def chain_len(p, defs, depth=0):
    """number of definitions that contribute something on the way from a use site to the command"""
    if depth > 20 or p[0] == 'cmd':
        return 0
    v = defs.get(p[1])
    if not v or v[0] != 'program':
        return 0
    q = v[1]
    contributes = 1 if (q[2] or q[3] or q[4]) else 0
    return contributes + chain_len(q, defs, depth + 1)


def late_definitions(case):
    out = set()
    seen_other = False
    for i in case['setup']:
        if i[0] == 'def':
            if seen_other:
                out.add(i[1])
        else:
            seen_other = True
    for ph in ('before', 'assert', 'cleanup'):
        out |= {i[1] for i in case[ph] if i[0] == 'def'}
    return out


def names_used(p):
    """symbol names a program (as written at its use site) mentions"""
    out = set()

    def frs(fr):
        for f in fr:
            if f[0] == 's':
                out.add(f[1])

    def src(s):
        if s[0] == 'str':
            frs(s[1])
        elif s[0] == 'trans':
            src(s[1])
        elif s[0] == 'prog':
            out.update(names_used(s[3]))
        elif s[0] == 'runt':
            src(s[1])
            out.update(names_used(s[3]))

    if p[0] == 'ref':
        out.add(p[1])
    else:
        if p[1][0] in ('sys', 'shell'):
            frs(p[1][1])
    for a in p[2]:
        if a[0] == 'sym':
            out.add(a[1])
        else:
            frs(a[1])
    for s_ in p[3]:
        src(s_)
    return out


def shell_chain_with_args(p, defs, depth=0, seen_args=False):
    """(chain depth, True) if the program is a reference that ends, through `depth` program symbols, in a shell
    command and arguments are added on the way (the class of seeded mutant C10-m4); else None"""
    if depth > 20:
        return None
    if p[0] == 'cmd':
        return depth if (p[1][0] == 'shell' and seen_args and depth > 0) else None
    v = defs.get(p[1])
    if not v or v[0] != 'program':
        return None
    return shell_chain_with_args(v[1], defs, depth + 1, seen_args or bool(p[2]))


def programs_of(case, with_defs=False):
    out = []

    def from_src(s):
        if s[0] == 'prog':
            from_prog(s[3])
        elif s[0] == 'trans':
            from_src(s[1])
        elif s[0] == 'runt':
            from_src(s[1])
            from_prog(s[3])

    def from_prog(p):
        out.append(p)
        for s in p[3]:
            from_src(s)

    for ph in ('setup', 'before', 'assert', 'cleanup'):
        for i in case[ph]:
            if i[0] == 'run':
                from_prog(i[3])
            elif i[0] in ('out-run', 'file-run'):
                from_prog(i[3])
            elif i[0] == 'exit-code-from':
                from_prog(i[1])
            elif i[0] == 'out-from':
                from_prog(i[2])
            elif i[0] == 'cap':
                from_src(i[2])
            elif i[0] == 'stdin':
                from_src(i[1])
            elif i[0] == 'def' and i[2][0] == 'program' and with_defs:
                from_prog(i[2][1])
    if case['act'][0] == 'command':
        from_prog(case['act'][1])
    return out


def features(case, obs):
    f = set()
    defs = all_defs(case)
    progs = programs_of(case)
    if any(chain_len(p, defs) >= 2 for p in progs):
        f.add('chain>=2')
    if any(p['rc'] not in (0, None) for p in obs['procs']):
        f.add('nonzero-exit')
    f.add('actor-' + case['act'][0])
    if any(p['shell'] for p in obs['procs']):
        f.add('shell')
    if any(p['stdin'] is not None for p in obs['procs']):
        f.add('stdin')
    for p in progs:
        d = shell_chain_with_args(p, defs)
        if d:
            f.add('shell-command symbol referenced with additional arguments, chain depth %d' % min(d, 4))
    txt = json.dumps(case)
    for key, label in (('"runt"', 'program as transformer (run)'), ('"out-run"', 'program as text matcher (run)'),
                       ('"file-run"', 'program as file matcher (run)'), ('"out-from"', 'stdout/stderr -from PROGRAM'),
                       ('"exit-code-from"', 'exit-code -from PROGRAM')):
        if key in txt:
            f.add(label)
    late = late_definitions(case)
    if late:
        f.add('definition in the middle of a phase (after a non-definition, or outside [setup])')
        used = set()
        for p in progs:
            used |= names_used(p)
        if used & late:
            f.add('symbol defined in the middle of a phase used by a started program')
    lay = case.get('layout')
    if lay and lay['blocks'] not in (['setup', 'act', 'before', 'assert', 'cleanup'],
                                     ['setup1', 'setup2', 'act', 'before', 'assert', 'cleanup']):
        f.add('sections in a file order different from the execution order')
    if lay and lay['split_at'] is not None:
        f.add('[setup] split in two sections')
    if mixed_stdin_sequence(case):
        f.add('stdin: buffered part before descriptor-written part (class of FIX-C10-1)')
    return f


def is_nontrivial(case, obs):
    f = features(case, obs)
    return ('chain>=2' in f or 'nonzero-exit' in f or case['act'][0] != 'command'
            or any(x.startswith('stdin: buffered') or x.startswith('symbol defined in the middle') for x in f))


def sweep_cases(codes, rng):
    """two small cases per exit code: (i) the action to check returns it, `exit-code == code` must see it, and a
    `run` in [assert] returning it is a FAIL (unless 0); (ii) a `$` in [setup] returning it is a HARD_ERROR and
    [cleanup] still runs a program with -ignore-exit-code returning it"""
    out = []
    script = ['str', [['c', '{HOME}/probe.py']], 'bare']

    def probe(ctl, stdin=()):
        return ['cmd', ['sys', [['c', PY]], 'bare'], [script, ['str', [['c', '--x=' + ctl]], 'bare']], list(stdin), []]

    # which failure is reported when [cleanup] fails too: a failing `run` in each phase, a failing `run` in [cleanup]
    for ph in ('setup', 'act', 'before', 'assert'):
        for code2 in (0, 9):
            c = {'setup': [], 'act': ['null'], 'before': [], 'assert': [],
                 'cleanup': [['run', 'run', False, probe('%d,1,1' % code2)], ['run', 'run', False, probe('0,0,0')]]}
            if ph == 'act':
                c['act'] = ['command', probe('0,0,0', stdin=[['prog', 'out', False, probe('7,1,1')]])]
            else:
                c[ph] = [['run', 'run', False, probe('0,0,0')], ['run', 'run', False, probe('7,1,0')],
                         ['run', 'run', False, probe('0,0,0')]]
            out.append(c)
    for k in codes:
        o, e = rng.below(len(OUTS)), rng.below(len(OUTS))
        out.append({'setup': [], 'act': ['command', probe('%d,%d,%d' % (k, o, e))], 'before': [],
                    'assert': [['exit-code', k], ['stdout', OUTS[o]], ['stderr', OUTS[e]],
                               ['run', 'run', False, probe('%d,0,%d' % (k, rng.below(len(OUTS))))]],
                    'cleanup': []})
        out.append({'setup': [['run', '$', False,
                               ['cmd', ['shell', [['c', '%s {HOME}/probe.py --x=%d,0,%d' % (PY, k, rng.below(2))]]],
                                [], [], []]]],
                    'act': ['null'], 'before': [], 'assert': [['exit-code', 0]],
                    'cleanup': [['run', 'run', True, probe('%d,1,1' % k)]]})
    return out


def generate(ctx, n):
    g = Gen(ctx.rng, ctx.quick)
    return [g.case() for _ in range(n)]


def evaluate(ctx, res, cases, tag='cases'):
    observed = run_cases(ctx, cases)
    terms = [c_case(c, o, FILES) for c, o in zip(cases, observed)]
    cb, pb, errs = common.run_shards(PROP, IMPORTS, 'check_case', terms, shard_size=50, tag=tag)
    res.errors += errs
    return observed, cb, pb


def describe(case, obs):
    return {'case_file': obs['case_text'], 'abstract_case': case,
            'observed': {k: obs[k] for k in ('exit', 'phase', 'exception', 'procs', 'result', 'caps', 'source',
                                             'report')}}


def gen_tables(ctx):
    common.source_tie('C10')  # small pure functions translated from the source and proved equal to the model (DESIGN 12.8)


def run(ctx, res):
    n = 900 if ctx.quick else 12000
    codes = sorted({0, 1, 2, 126, 127, 128, 129, 254, 255} | {ctx.rng.below(256) for _ in range(24)}) if ctx.quick \
        else list(range(256))
    cases = load_corpus() + sweep_cases(codes, ctx.rng) + generate(ctx, n)
    res.rule = ('generated test cases: 0-4 data symbols (strings, lists, paths; weird texts: empty, spaces, quotes, '
                'option-like and reserved words), 0-2 chains of 1-4 program definitions each adding arguments / -stdin / '
                '-transformed-by, further def string / list / program in the middle of any phase (used by later '
                'instructions), sections in shuffled file order and [setup] split in two, '
                'run / $ / % / file..=-stdout-from.. / cd in every phase, stdin = SRC, the four actors, '
                'exit codes 0..255 (plus a sweep: two fixed small cases per exit code - all 256 in the thorough tier), '
                'assertions on exit-code / stdout / stderr of the action to check and -from PROGRAM; programs as '
                'transformer (SRC -transformed-by run P), text matcher (stdout run P) and file matcher (exists F : run P).  non-trivial := a started program goes '
                'through >= 2 contributing definitions, or some process exits non-zero, or the actor is not the '
                'command line actor; distinct := distinct case text')
    observed, cb, pb = evaluate(ctx, res, cases)
    res.evaluations = len(cases)
    for c, o in zip(cases, observed):
        for f in features(c, o):
            res.count(f)
        res.count('processes started', len(o['procs']))
        res.count('verdict exit code %s' % o['exit'])
        if is_nontrivial(c, o):
            res.nontrivial.add(o['case_text'])
    res.extra['exit_codes_returned_by_started_processes'] = len({p['rc'] for o in observed for p in o['procs']})
    res.extra['processes_started'] = sum(len(o['procs']) for o in observed)
    res.samples = [{'case_file': observed[i]['case_text'], 'processes': observed[i]['procs'][:3],
                    'exit': observed[i]['exit']} for i in range(min(2, len(cases)))]
    for i in pb:
        res.prop_failures.append(Failure('property', describe(cases[i], observed[i]),
                                         'what the real program handed to the process executor / what the started '
                                         'process received / the captured outcome / the verdict differs from the '
                                         'denotation of Spec/C10.v (P_C10 false)'))
    for i in cb:
        res.disagreements.append(Failure('correspondence', describe(cases[i], observed[i]),
                                         'Model/Prog.v run_case differs from the observed behaviour'))


def load_corpus():
    d = os.path.join(common.VERIF, 'harness', 'corpus', PROP)
    out = []
    if os.path.isdir(d):
        for fn in sorted(os.listdir(d)):
            if fn.endswith('.json'):
                out.append(json.load(open(os.path.join(d, fn)))['abstract_case'])
    return out


def search(ctx, res):
    """failing-input search after a broken proof / correspondence: more cases from the same generator"""
    res2 = common.Result()
    cases = [d.case['abstract_case'] for d in res.disagreements[:50]] + generate(ctx, 600 if ctx.quick else 3000)
    observed, cb, pb = evaluate(ctx, res2, cases, tag='search')
    return [Failure('property', describe(cases[i], observed[i]), 'P_C10 false (found by failing-input search)')
            for i in pb]


def replay(ctx, payload):
    case = payload.get('case') or (payload.get('correspondence_disagreements') or [{}])[0].get('case')
    if not case or 'abstract_case' not in case:
        print(json.dumps(payload, indent=1, default=str)[:4000])
        return 0
    res = common.Result()
    observed, cb, pb = evaluate(ctx, res, [case['abstract_case']], tag='replay')
    print(observed[0]['case_text'])
    print(json.dumps({k: observed[0][k] for k in ('exit', 'procs', 'result', 'caps', 'report')}, indent=1))
    print('correspondence:', 'FAILS' if cb else 'holds', ' property P_C10:', 'FAILS' if pb else 'holds', res.errors[:1])
    return 1 if pb else 0
