"""C19 — timeouts are enforced on every OS process; Exactly never waits indefinitely.

Three ties between Model/Timeout.v and the code, every run:

 (1) SOURCE SCAN (fail-closed, `gen_tables`): every call site under src/exactly_lib that can start an OS process
     (`subprocess.*`, `os.system/popen/exec*/spawn*/posix_spawn*/fork*`, `pty.spawn`, `Popen`, asyncio / multiprocessing
     process creation) is listed by an `ast` visitor; the set must be exactly the known one: `ProcessExecutor.execute`
     (`subprocess.call(..., timeout=...)`, the single site for test-case processes) and the suite preprocessor
     (`PreprocessorViaExternalProgram.apply`, not a test-case process: out of scope of the statement).  The table goes to
     coq/Gen/C19_tables.v with the obligation that every in-scope site passes a `timeout=` keyword (Props/C19.v), together
     with the documented default (`os_proc_env.TIMEOUT__DEFAULT`) and the obligation that it is finite.

 (2) IN-PROCESS correspondence without sleeping: complete test cases (real instructions, text files) are run through
     `MainProgram.execute`; the standard library boundary `subprocess.Popen.wait / communicate` is wrapped IN THE HARNESS
     PROCESS (nothing under /repo is touched) and records the `timeout` that actually reaches the wait of every tagged
     child; the child is a real `true` whose "needed seconds" d is part of its argument (`C19T<n>D<d>`), and the wrapper
     applies the contract of `subprocess.call(timeout=t)`: raise TimeoutExpired iff t is not None and d > t.

 (3) REAL runs: the real CLI in separate processes, children that really sleep past a 1 s timeout / exit just before it
     / ignore SIGTERM; observed: which sites started, verdict and failing phase, cleanup marker, sandbox removed, child
     pids no longer alive, wall clock bounded by the model's total waiting time + a fixed slack.
"""
import ast
import json
import os
import re
import shutil
import signal
import subprocess
import sys
import tempfile
import time

import common
from common import Failure, cnat, cbool, clist, cN

EXTRA_PROPS = ['C19C01']  # composition with the executor and world models (Props/C19C01.v): an expiry is HARD_ERROR at that step in every mode, cleanup runs once, the sandbox is removed
import impl  # noqa: F401  (sets sys.path)

PROP = 'C19'
KF_SHELL = 'KF-C19-1'
IMPORTS = ['Model.Outcome', 'Model.Exec', 'Model.Timeout', 'Spec.C01', 'Spec.C19']

EXPLANATION = ('Theorems (Props/C19.v) about Model/Timeout.v = Exec.partial_execute with the InstructionSettings.timeout threaded '
               'through the main steps: every process is handed the timeout in force (last `timeout` whose main ran, else the '
               'default; `none` only from that point on); an expiry is a HARD_ERROR of exactly that step; cleanup runs and the '
               'sandbox is removed (corollaries of C01/C04 through a proved simulation); after an expiry only cleanup runs and '
               'total waiting is bounded by the sum of the timeouts handed over (model time).  Tie: source scan of process start '
               'sites + in-process observation of the timeout reaching Popen.wait for every site kind + real runs with sleeping '
               'children.')
ASSUMPTIONS = ['contract of subprocess.call(timeout=t) for a child needing d seconds: TimeoutExpired iff t is not None and d > t '
               '(explicit function `expires`); killing the child, grandchildren of shell=True and wall clock are observed by '
               'the real runs, not proved',
               'generated test cases are valid (validation steps succeed); instructions other than process starters / timeout '
               'are represented by their main-step behaviour (ok, hard error, fail)',
               'in-process tier: the child is a real `true` process; its duration is simulated at the Popen.wait boundary']
TRUSTED_EXTRA = ['harness/c19.py: ast scan of process start sites; Popen.wait/communicate recording wrapper installed in the '
                 'harness process only; mapping of surface instructions (run, $, %, -stdout-from, transformer/matcher run, '
                 'actors) to model instructions TSet/TSpawn/TStdin/TPlain']

# --------------------------------------------------------------------------------------------------------------
# (1) source scan
# --------------------------------------------------------------------------------------------------------------
SUBPROCESS_STARTERS = {'call', 'run', 'Popen', 'check_call', 'check_output', 'getoutput', 'getstatusoutput'}
OS_STARTERS_PREFIX = ('exec', 'spawn', 'posix_spawn', 'fork')
OS_STARTERS = {'system', 'popen', 'startfile'}
OTHER_MODULE_STARTERS = {'pty': {'spawn', 'fork'}, 'asyncio': {'create_subprocess_exec', 'create_subprocess_shell'},
                         'multiprocessing': {'Process', 'Pool'}, 'pexpect': {'spawn', 'run'}, 'commands': {'getoutput'}}

# (file relative to src/exactly_lib, enclosing qualified name) -> in scope of the statement?  (whichever function of
# subprocess is used there: call / run / Popen are the same site)
KNOWN_SITES = {
    ('util/process_execution/process_executor.py', 'ProcessExecutor.execute'): True,
    # the suite-level preprocessor of test case FILES: runs before any test case exists; not "on behalf of a test case"
    ('processing/preprocessor.py', 'PreprocessorViaExternalProgram.apply'): False,
}


class _SiteVisitor(ast.NodeVisitor):
    def __init__(self):
        self.mod_alias = {}  # local name -> module
        self.name_alias = {}  # local name -> 'module.attr'
        self.scope = []
        self.fn_waits = []
        self.sites = []

    def visit_Import(self, node):
        for a in node.names:
            root = a.name.split('.')[0]
            if root in ('subprocess', 'os', 'pty', 'asyncio', 'multiprocessing', 'pexpect', 'commands'):
                self.mod_alias[a.asname or root] = a.name if a.asname else root

    def visit_ImportFrom(self, node):
        if node.module and node.module.split('.')[0] in ('subprocess', 'os', 'pty', 'asyncio', 'multiprocessing', 'pexpect',
                                                            'commands'):
            for a in node.names:
                self.name_alias[a.asname or a.name] = node.module + '.' + a.name

    def _scoped(self, node):
        self.scope.append(node.name)
        waits = False
        if not isinstance(node, ast.ClassDef):
            # Popen(...) followed by p.wait(timeout=...) / p.communicate(timeout=...) in the same function is a timed site
            for sub in ast.walk(node):
                if isinstance(sub, ast.Call) and isinstance(sub.func, ast.Attribute) and sub.func.attr in ('wait', 'communicate'):
                    for k in sub.keywords:
                        if k.arg == 'timeout' and not (isinstance(k.value, ast.Constant) and k.value.value is None):
                            waits = True
                    if sub.func.attr == 'wait' and sub.args:
                        waits = True
        self.fn_waits.append(waits)
        self.generic_visit(node)
        self.fn_waits.pop()
        self.scope.pop()

    visit_FunctionDef = visit_AsyncFunctionDef = visit_ClassDef = _scoped

    @staticmethod
    def _is_starter(mod, attr):
        root = mod.split('.')[0]
        if root == 'subprocess':
            return attr in SUBPROCESS_STARTERS
        if root == 'os':
            return attr in OS_STARTERS or attr.startswith(OS_STARTERS_PREFIX)
        return attr in OTHER_MODULE_STARTERS.get(root, ())

    def visit_Call(self, node):
        callee = None
        f = node.func
        if isinstance(f, ast.Attribute) and isinstance(f.value, ast.Name) and f.value.id in self.mod_alias:
            mod = self.mod_alias[f.value.id]
            if self._is_starter(mod, f.attr):
                callee = mod + '.' + f.attr
        elif isinstance(f, ast.Name) and f.id in self.name_alias:
            mod, attr = self.name_alias[f.id].rsplit('.', 1)
            if self._is_starter(mod, attr):
                callee = mod + '.' + attr
        if callee:
            has_timeout = any(k.arg == 'timeout' for k in node.keywords)
            # a literal `timeout=None` is no timeout
            for k in node.keywords:
                if k.arg == 'timeout' and isinstance(k.value, ast.Constant) and k.value.value is None:
                    has_timeout = False
            if callee.endswith('.Popen') and self.fn_waits and self.fn_waits[-1]:
                has_timeout = True
            self.sites.append(('.'.join(self.scope) or '<module>', callee, has_timeout, node.lineno))
        self.generic_visit(node)


def scan_sites():
    """[(relfile, qualname, callee, has_timeout_kw, lineno)] for every process start site under src/exactly_lib;
    also references to starter functions that are not calls (e.g. passed as a value) are reported as sites."""
    root = os.path.join(common.REPO, 'src', 'exactly_lib')
    out = []
    n_files = 0
    for dp, ds, fs in os.walk(root):
        ds.sort()
        for fn in sorted(fs):
            if not fn.endswith('.py'):
                continue
            n_files += 1
            path = os.path.join(dp, fn)
            src = open(path, encoding='utf-8').read()
            if not re.search(r'subprocess|\bos\b|pty|asyncio|multiprocessing|pexpect|commands', src):
                continue
            with _quiet_warnings():
                tree = ast.parse(src, path)
            v = _SiteVisitor()
            # two passes so that function-local imports are known everywhere in the module
            for node in ast.walk(tree):
                if isinstance(node, ast.Import):
                    v.visit_Import(node)
                elif isinstance(node, ast.ImportFrom):
                    v.visit_ImportFrom(node)
            v.visit(tree)
            rel = os.path.relpath(path, root)
            for (q, callee, has_t, line) in v.sites:
                out.append((rel, q, callee, has_t, line))
    if n_files < 500:
        raise RuntimeError('source scan saw only %d files under %s' % (n_files, root))
    return out


class _quiet_warnings:
    def __enter__(self):
        import warnings
        self._cm = warnings.catch_warnings()
        self._cm.__enter__()
        warnings.simplefilter('ignore')

    def __exit__(self, *a):
        return self._cm.__exit__(*a)


def default_timeout():
    from exactly_lib.definitions import os_proc_env
    v = os_proc_env.TIMEOUT__DEFAULT
    if v is not None and (not isinstance(v, int) or isinstance(v, bool) or v < 0):
        raise RuntimeError('TIMEOUT__DEFAULT is neither None nor a non-negative int: %r' % (v,))
    return v


def c_tmo(v):
    return 'None' if v is None else '(Some %s)' % cN(v)


def gen_tables(ctx):
    _gen_tables_own(ctx)
    common.source_tie('C19')  # small pure functions translated from the source and proved equal to the model (DESIGN 12.8)


def _gen_tables_own(ctx):
    sites = scan_sites()
    rows = []
    for (rel, q, callee, has_t, line) in sites:
        key = (rel, q)
        known = key in KNOWN_SITES
        in_scope = KNOWN_SITES.get(key, True)  # an unknown site is in scope until someone has looked at it
        rows.append('  (%s, (%s, (%s, %s)))' % (common.cstring('%s:%s:%s' % (rel, q, callee)), cbool(known), cbool(in_scope),
                                              cbool(has_t)))
    missing = [k for k in KNOWN_SITES if k not in {(r, q) for (r, q, c, _, _) in sites}]
    txt = ('(* GENERATED on every run by harness/c19.py from the source under %s. Do not edit. *)\n'
           'From Coq Require Import List String NArith Bool.\nImport ListNotations.\n'
           '(** process start sites under src/exactly_lib: (file:function:callee, (known, (in scope of C19, passes timeout=))) *)\n'
           'Definition gen_sites : list (string * (bool * (bool * bool))) := [\n%s\n].\n'
           '(** known sites that the scan no longer finds *)\n'
           'Definition gen_missing_known_sites : nat := %d.\n'
           '(** os_proc_env.TIMEOUT__DEFAULT *)\n'
           'Definition gen_default_timeout : option N := %s.\n'
           % ('src/exactly_lib', ';\n'.join(rows), len(missing), c_tmo(default_timeout())))
    common.write_if_changed(os.path.join(common.COQ, 'Gen', 'C19_tables.v'), txt)
    return sites, missing


# --------------------------------------------------------------------------------------------------------------
# test cases: structure -> text + model term
# --------------------------------------------------------------------------------------------------------------
PH = ['setup', 'before-assert', 'assert', 'cleanup']
PH_COQ = {'setup': 'Setup', 'act': 'Act', 'before-assert': 'BeforeAssert', 'assert': 'Assert', 'cleanup': 'Cleanup'}
ACTORS = ['cmdline', 'cmdline-shell', 'file', 'source', 'null']
# spawn kinds: name -> (number of processes, phases where usable)
ANY = tuple(PH)
KINDS = {
    'run': (1, ANY), 'shell': (1, ANY), 'pct': (1, ANY), 'file-src': (1, ANY), 'file-src-xf': (2, ANY), 'xform': (1, ANY),
    'line-matcher': (1, ANY), 'run-stdin': (2, ANY), 'env-src': (1, ANY), 'file-src-stderr': (1, ANY),
    'exit-code-from': (1, ('assert',)), 'stdout-from': (1, ('assert',)), 'text-matcher': (1, ('assert',)),
    'file-matcher': (1, ('assert',)), 'files-matcher-sel': (1, ('assert',)),
}
STATUS_OF_ID = {'PASS': None, 'FAIL': 'FFail', 'HARD_ERROR': 'FHard', 'INTERNAL_ERROR': 'FInternal',
                'VALIDATION_ERROR': 'FValidation', 'SYNTAX_ERROR': 'FSyntax'}
EXIT_TO_ID = {0: 'PASS', 32: 'FAIL', 128: 'HARD_ERROR', 129: 'INTERNAL_ERROR'}
PLAIN_BEH = {'ok': 'BOk', 'hard': 'BHardRet', 'fail': 'BFail'}


def tag(n, d):
    return 'C19T%dD%d' % (n, d)


class Emitted:
    def __init__(self, tag_base=0):
        self.lines = []
        self.line_site = {}  # first line number of an instruction -> (phase, idx)
        self.tag_site = {}  # tag number -> (phase, idx)
        self.shell_tags = set()  # tag numbers of processes started through the shell (`$`)
        self.n = tag_base

    def new_tag(self, site, d):
        self.n += 1
        self.tag_site[self.n] = site
        return tag(self.n, d)


def child_cmd_default(t):
    """the command line of a child; in-process tier: a real `true` carrying the tag"""
    return '% true ' + t


def emit_case(case, child=child_cmd_default, shell_child=lambda t: 'true ' + t, tag_base=0):
    """-> Emitted (text of the test case file).  Instructions that the suite prepends to [setup] (case['suite_setup'])
    are not in the file but count in the instruction numbering of the setup phase."""
    em = Emitted(tag_base)
    shift = len(case.get('suite_setup') or [])
    L = em.lines
    actor = case['actor']
    act_site = ('act', 0)
    status = case.get('status', 'PASS')
    if actor in ('file', 'source', 'null') or status != 'PASS':
        L.append('[conf]')
    if status != 'PASS':
        L.append('status = ' + status)
    # the tags of setup-defined programs used later must be created at the use site: two passes
    uses = {}
    for ph in PH:
        for idx, ins in enumerate(case['phases'][ph]):
            if ins['k'] == 'spawn' and ins['kind'] == 'run-sym':
                uses[ins['sym']] = (ph, idx + (shift if ph == 'setup' else 0), ins['ds'][0])
    pending_act_tag = None
    if actor == 'file':
        pending_act_tag = em.new_tag(act_site, case['act_d'])
        L.append('actor = file ' + child(pending_act_tag))
    elif actor == 'source':
        pending_act_tag = em.new_tag(act_site, case['act_d'])
        L.append('actor = source ' + child(pending_act_tag))
    elif actor == 'null':
        L.append('actor = null')

    def emit_phase(ph):
        nonlocal L
        L.append('[%s]' % ph)
        for idx, ins in enumerate(case['phases'][ph]):
            site = (ph, idx + (shift if ph == 'setup' else 0))
            em.line_site[len(L) + 1] = site
            k = ins['k']
            if k == 'set':
                L.append('timeout = ' + set_text(ins))
            elif k == 'defint':
                L.append('def string %s = %d' % (ins['sym'], ins['v']))
            elif k == 'stdin':
                L.append('stdin = -stdout-from ' + child(em.new_tag(('act', 0), ins['d'])))
            elif k == 'plain':
                L.append({'ok': 'def string S_%s_%d = "x"' % (ph.replace('-', '_'), idx), 'hard': 'cd nonexisting-dir',
                          'fail': 'exists nonexisting-file'}[ins['b']])
            elif k == 'defprog':
                uph, uidx, ud = uses[ins['sym']]
                L.append('def program %s = %s' % (ins['sym'], child(em.new_tag((uph, uidx), ud))))
            elif k == 'spawn':
                kind, ds = ins['kind'], ins['ds']
                f = 'f_%s_%d.txt' % (ph.replace('-', '_'), idx)
                if kind == 'run-sym':
                    L.append('run @ %s' % ins['sym'])
                    continue
                ts = [em.new_tag(site, d) for d in ds]
                if kind == 'run':
                    L.append('run ' + child(ts[0]))
                elif kind == 'shell':
                    em.shell_tags.add(em.n)
                    L.append('$ ' + shell_child(ts[0]))
                elif kind == 'pct':
                    L.append(child(ts[0]))
                elif kind == 'file-src':
                    L.append('file %s = -stdout-from %s' % (f, child(ts[0])))
                elif kind == 'file-src-stderr':
                    L.append('file %s = -stderr-from -ignore-exit-code %s' % (f, child(ts[0])))
                elif kind == 'file-src-xf':
                    L += ['file %s = -stdout-from %s' % (f, child(ts[0])), '  -transformed-by run ' + child(ts[1])]
                elif kind == 'xform':
                    L += ['file %s = -contents-of -rel-home src.txt' % f, '  -transformed-by run ' + child(ts[0])]
                elif kind == 'line-matcher':
                    L += ['file %s = -contents-of -rel-home src.txt' % f,
                          '  -transformed-by filter contents ( run ' + child(ts[0]) + ' )']
                elif kind == 'run-stdin':
                    L += ['run ' + child(ts[1]), '  -stdin -stdout-from ' + child(ts[0])]
                elif kind == 'env-src':
                    L.append('env V_%s_%d = -stdout-from %s' % (ph.replace('-', '_'), idx, child(ts[0])))
                elif kind == 'exit-code-from':
                    L += ['exit-code -from ' + child(ts[0]), '  == 0']
                elif kind == 'stdout-from':
                    L += ['stdout -from ' + child(ts[0]), '  is-empty']
                elif kind == 'text-matcher':
                    L.append('contents -rel-home src.txt : run ' + child(ts[0]))
                elif kind == 'file-matcher':
                    L.append('exists -rel-home src.txt : run ' + child(ts[0]))
                elif kind == 'files-matcher-sel':
                    L += ['dir-contents -rel-home onedir : -selection run ' + child(ts[0]), '  num-files >= 0']
                else:
                    raise ValueError(kind)
            else:
                raise ValueError(k)

    emit_phase('setup')
    L.append('[act]')
    if actor == 'cmdline':
        L.append(child(em.new_tag(act_site, case['act_d'])))
    elif actor == 'cmdline-shell':
        L.append('$ ' + shell_child(em.new_tag(act_site, case['act_d'])))
        em.shell_tags.add(em.n)
    elif actor == 'file':
        L.append('prog.src an-argument')
    elif actor == 'source':
        L.append('this is source code for the interpreter')
    for ph in PH[1:]:
        emit_phase(ph)
    em.text = '\n'.join(L) + '\n'
    return em


def model_ds(ph, ins):
    """processes the instruction starts, in order.  `env VAR = -stdout-from PROGRAM` in [setup] (no -of option) modifies
    both the environment of the action to check and that of the instructions: the program is evaluated once for each"""
    if ins['kind'] == 'env-src' and ph == 'setup':
        return [ins['ds'][0], ins['ds'][0]]
    return ins['ds']


def c_instr(ins, ph=None):
    k = ins['k']
    if k == 'set':
        return '(TSet %s)' % c_tmo(ins['v'])
    if k == 'stdin':
        return '(TStdin %s)' % cN(ins['d'])
    if k == 'plain':
        return '(TPlain %s)' % PLAIN_BEH[ins['b']]
    if k in ('defprog', 'defint'):
        return '(TPlain BOk)'
    if k == 'spawn':
        return '(TSpawn %s)' % clist([cN(d) for d in model_ds(ph, ins)])
    raise ValueError(k)


def c_tcase(case, default):
    def lst(ph):
        xs = case['phases'][ph]
        if ph == 'setup':
            xs = list(case.get('suite_setup') or []) + list(xs)
        return clist([c_instr(i, ph) for i in xs]) if xs else '(@nil tinstr)'

    act = '(@nil N)' if case['actor'] == 'null' else clist([cN(case['act_d'])])
    return '(TCase %s %s %s %s %s %s %s %s)' % (c_tmo(default), lst('setup'), act, cbool(case['actor'] != 'null'),
                                               lst('before-assert'), lst('assert'), lst('cleanup'),
                                               cbool(case.get('opt') == '--act'))


def c_obs(o, with_timeouts=True):
    calls = ['(OCall %s %s %s)' % (PH_COQ[p], cnat(i), c_tmo(t) if with_timeouts else 'None') for (p, i, t) in o['calls']]
    fl = 'None' if o['failure'] is None else '(Some (%s, %s, %s))' % (PH_COQ[o['failure'][0]], cnat(o['failure'][1]), o['failure'][2])
    return '(C19Obs %s %s %s)' % (clist(calls) if calls else '(@nil ocall)', fl, cbool(o['sandbox_left']))


# --------------------------------------------------------------------------------------------------------------
# (2) in-process observation at the Popen.wait boundary
# --------------------------------------------------------------------------------------------------------------
TAG_RE = re.compile(r'C19T(\d+)D(\d+)')


class PopenRecorder:
    """Wraps subprocess.Popen.wait / communicate in THIS process while active: records the timeout of the first wait on
    every tagged child and applies the contract of the timeout (TimeoutExpired iff d > timeout)."""

    def __init__(self):
        self.records = []

    def __enter__(self):
        rec = self
        self._wait, self._comm = subprocess.Popen.wait, subprocess.Popen.communicate
        orig_wait, orig_comm = self._wait, self._comm

        def note(p, timeout):
            if getattr(p, '_c19_seen', False):
                return None
            p._c19_seen = True
            a = p.args
            s = a if isinstance(a, str) else ' '.join(map(str, a))
            m = TAG_RE.search(s)
            if not m:
                return None
            p._c19_tagged = True
            if timeout is not None and (isinstance(timeout, bool) or not isinstance(timeout, int) or timeout < 0):
                rec.records.append((int(m.group(1)), 'not-an-int:%r' % (timeout,)))  # cannot be printed as N: fail-closed
                return None
            rec.records.append((int(m.group(1)), timeout))
            if timeout is not None and int(m.group(2)) > timeout:
                return subprocess.TimeoutExpired(a, timeout)
            return None

        # for a tagged child the duration is the simulated one (its tag): when the contract says "no expiry" the real
        # `true` is waited for WITHOUT the limit (otherwise `timeout = 0` would race with the few ms `true` really needs)
        def wait(self, timeout=None):
            first = not getattr(self, '_c19_seen', False)
            ex = note(self, timeout)
            if ex is not None:
                raise ex
            return orig_wait(self, None if (first and getattr(self, '_c19_tagged', False)) else timeout)

        def communicate(self, input=None, timeout=None):
            first = not getattr(self, '_c19_seen', False)
            ex = note(self, timeout)
            if ex is not None:
                raise ex
            return orig_comm(self, input, None if (first and getattr(self, '_c19_tagged', False)) else timeout)

        subprocess.Popen.wait = wait
        subprocess.Popen.communicate = communicate
        return self

    def __exit__(self, *a):
        subprocess.Popen.wait, subprocess.Popen.communicate = self._wait, self._comm
        return False


ID_RE = re.compile(r'^(PASS|FAIL|HARD_ERROR|INTERNAL_ERROR|VALIDATION_ERROR|SYNTAX_ERROR|SKIPPED|XFAIL|XPASS|'
                   r'FILE_ACCESS_ERROR|PRE_PROCESS_ERROR|INVALID_USAGE)\s*$', re.M)


FULL_IDS = ('PASS', 'FAIL', 'HARD_ERROR', 'INTERNAL_ERROR', 'VALIDATION_ERROR', 'SYNTAX_ERROR', 'SKIPPED', 'XFAIL', 'XPASS')
MODE_COQ = {'PASS': 'TPass', 'FAIL': 'TFail', 'SKIP': 'TSkip'}


def parse_verdict(exit_code, out, err, em):
    """-> (site | None, printed identifier | None, display): the exit identifier exactly as printed (None: nothing printed
    and exit code 0, which is what --act does when nothing fails), the reported failing (phase, instruction)"""
    m = ID_RE.search(out) or ID_RE.search(err)
    printed = m.group(1) if m else None
    display = printed or 'no identifier, exit code %s' % exit_code
    if printed is None and exit_code == 0:
        return None, None, display
    if printed not in FULL_IDS:
        return ('setup', 4998), 'INTERNAL_ERROR', display  # unexpected: shows up as a disagreement
    if printed in ('PASS', 'XPASS', 'SKIPPED'):
        return None, printed, display
    pm = re.search(r'^In \[([a-z-]+)\]', err, re.M)
    phase = pm.group(1) if pm else None
    if phase == 'act':
        return ('act', 0), printed, display
    lm = re.search(r', line (\d+)\s*$', err, re.M)
    site = em.line_site.get(int(lm.group(1))) if lm else None
    if phase not in PH_COQ or site is None or site[0] != phase:
        return (phase if phase in PH_COQ else 'setup', 4999), printed, display
    return (phase, site[1]), printed, display


def mk_obs(calls, site, printed, display, sandbox_left, **more):
    o = {'calls': calls, 'failing_step_reported': site, 'identifier_printed': printed, 'ident': display,
         'sandbox_left': sandbox_left, 'failure': site is not None or printed not in (None, 'PASS', 'XPASS', 'SKIPPED')}
    o.update(more)
    return o


def c_moded(case, default, o, with_timeouts=True):
    calls = ['(OCall %s %s %s)' % (PH_COQ[p], cnat(i), c_tmo(t) if with_timeouts else 'None') for (p, i, t) in o['calls']]
    site = o['failing_step_reported']
    return '(C19Moded %s %s %s %s %s %s %s %s)' % (
        MODE_COQ[case.get('status', 'PASS')], c_tcase(case, default), cbool(case.get('opt') == '--keep'),
        clist(calls) if calls else '(@nil ocall)',
        'None' if site is None else '(Some (%s, %s))' % (PH_COQ[site[0]], cnat(site[1])),
        'None' if o['identifier_printed'] is None else '(Some %s)' % o['identifier_printed'],
        cbool(o['sandbox_left']), cbool(bool(o.get('status_only'))))


def canonical_calls(records, em):
    """(tag number, timeout) records -> (phase, instruction index, timeout), in order of occurrence"""
    out = []
    for (n, t) in records:
        site = em.tag_site.get(n)
        out.append(('setup', 4997, t) if site is None else (site[0], site[1], t))
    return out


WAYS = ['standalone', 'explicit-suite', 'implicit-suite']  # + 'suite-root' / 'suite-sub' (run_group)


def _mk_home(d):
    os.makedirs(os.path.join(d, 'onedir'))
    with open(os.path.join(d, 'src.txt'), 'w') as f:
        f.write('one line\n')
    with open(os.path.join(d, 'prog.src'), 'w') as f:
        f.write('x\n')
    with open(os.path.join(d, 'onedir', 'one.txt'), 'w') as f:
        f.write('x\n')


def suite_text(suite_setup, body=''):
    t = ''
    if suite_setup:
        t += '[setup]\n' + ''.join('timeout = %s\n' % set_text(i) for i in suite_setup)
    return t + body


SUITE_LINE_RE = re.compile(r'^case\s+(\S+): \(.*?\) ([A-Z_]+)\s*$', re.M)


class InProc:
    """runs test cases through MainProgram.execute in this process, in one of the ways a case can be run: stand-alone
    (with --act / --keep), with an explicit suite (--suite S CASE), with the implicit suite file exactly.suite of its
    directory, or as a case of `exactly suite ROOT` (root suite / sub suite)"""

    def __init__(self, ctx):
        self.root = tempfile.mkdtemp(prefix='c19-', dir=ctx.work)
        self.home = os.path.join(self.root, 'home')
        self.home_implicit = os.path.join(self.root, 'home-implicit')
        self.sbx = os.path.join(self.root, 'sandboxes')
        _mk_home(self.home)
        _mk_home(self.home_implicit)
        os.makedirs(self.sbx)
        self.n_groups = 0
        # `exactly suite` creates the sandboxes of its cases under the system temp dir: make that a private one
        self._old_tempdir = tempfile.tempdir
        tempfile.tempdir = self.sbx
        self.mp = impl.main_program(self.sbx)

    def _left(self):
        left = [x for x in os.listdir(self.sbx) if x.startswith('exactly-')]
        for d in os.listdir(self.sbx):
            p = os.path.join(self.sbx, d)
            if os.path.isdir(p):
                shutil.rmtree(p, ignore_errors=True)
            else:
                os.remove(p)
        return left

    def run(self, case):
        em = emit_case(case)
        way = case.get('way', 'standalone')
        home = self.home_implicit if way == 'implicit-suite' else self.home
        path = os.path.join(home, 'c.case')
        with open(path, 'w') as f:
            f.write(em.text)
        argv = [case['opt']] if case.get('opt') else []
        if way == 'explicit-suite':
            sp = os.path.join(home, 'conf.suite')
            with open(sp, 'w') as f:
                f.write(suite_text(case.get('suite_setup')))
            argv += ['--suite', sp]
        elif way == 'implicit-suite':
            with open(os.path.join(home, 'exactly.suite'), 'w') as f:
                f.write(suite_text(case.get('suite_setup')))
        elif way != 'standalone':
            raise ValueError(way)
        argv.append(path)
        with PopenRecorder() as rec:
            r = impl.run_main(self.mp, argv, home, self.root)
        left = self._left()
        if r.exception is not None:
            return em, None, 'exception escaped MainProgram.execute: %r' % (r.exception,)
        site, printed, display = parse_verdict(r.exit_code, r.out, r.err, em)
        obs = mk_obs(canonical_calls(rec.records, em), site, printed, display, bool(left), exit_code=r.exit_code)
        return em, obs, None

    def run_group(self, group):
        """`exactly suite ROOT`: group = {'root': [cases], 'sub': [cases], 'root_setup': [...], 'sub_setup': [...]};
        -> [(Emitted, obs | None, err | None)] for root cases then sub cases.  Only the STATUS of a case is reported."""
        self.n_groups += 1
        d = os.path.join(self.root, 'g%d' % self.n_groups)
        _mk_home(d)
        _mk_home(os.path.join(d, 'sub'))
        ems, names = [], []
        owner = {}
        k = 0
        for where, prefix in (('root', ''), ('sub', 'sub/')):
            for i, case in enumerate(group[where]):
                k += 1
                case = dict(case, suite_setup=group.get(where + '_setup') or [])
                em = emit_case(case, tag_base=k * 10000)
                name = '%s%s%d.case' % (prefix, where[0], i)
                with open(os.path.join(d, name), 'w') as f:
                    f.write(em.text)
                for n in em.tag_site:
                    owner[n] = len(ems)
                ems.append(em)
                names.append(name)
        with open(os.path.join(d, 'sub', 'sub.suite'), 'w') as f:
            f.write(suite_text(group.get('sub_setup'), '[cases]\n' + ''.join('s%d.case\n' % i for i in range(len(group['sub'])))))
        with open(os.path.join(d, 'root.suite'), 'w') as f:
            f.write(suite_text(group.get('root_setup'), '[cases]\n' + ''.join('r%d.case\n' % i for i in range(len(group['root']))) +
                               '[suites]\nsub/sub.suite\n'))
        with PopenRecorder() as rec:
            r = impl.run_main(self.mp, ['suite', os.path.join(d, 'root.suite')], d, self.root)
        left = self._left()
        shutil.rmtree(d, ignore_errors=True)
        if r.exception is not None:
            return [(em, None, 'exception escaped MainProgram.execute (suite): %r' % (r.exception,)) for em in ems]
        status = {m.group(1): m.group(2) for m in SUITE_LINE_RE.finditer(r.out)}
        out = []
        for j, (em, name) in enumerate(zip(ems, names)):
            ident = status.get(name)
            if ident is None:
                out.append((em, None, 'the suite reporter shows no status for %s: %r' % (name, r.out[-600:])))
                continue
            recs = [(n, t) for (n, t) in rec.records if owner.get(n) == j]
            stray = [(n, t) for (n, t) in rec.records if n not in owner]
            obs = mk_obs(canonical_calls(recs + stray, em), None, ident if ident in FULL_IDS else 'INTERNAL_ERROR', ident,
                         bool(left), exit_code=r.exit_code, status_only=True)
            out.append((em, obs, None))
        return out

    def close(self):
        tempfile.tempdir = self._old_tempdir
        shutil.rmtree(self.root, ignore_errors=True)


# --------------------------------------------------------------------------------------------------------------
# generators
# --------------------------------------------------------------------------------------------------------------
def empty_case(actor='cmdline', act_d=0, opt=None):
    return {'actor': actor, 'act_d': act_d, 'opt': opt, 'phases': {p: [] for p in PH}}


def spawn(kind, ds):
    assert len(ds) == KINDS[kind][0], (kind, ds)
    return {'k': 'spawn', 'kind': kind, 'ds': list(ds)}


BIG = [2 ** 31 - 1, 2 ** 31, 10 ** 12]  # "large" values of the timeout domain (INTEGER >= 0, no upper bound)
BOUNDARY = [0, 1] + BIG


def setv(v, form='lit', sym=None):
    """`timeout = none | INTEGER`; the integer written as a literal, as an expression or through a symbol"""
    ins = {'k': 'set', 'v': v}
    if v is not None and form != 'lit':
        ins['form'] = form
        if form == 'sym':
            ins['sym'] = sym
    return ins


def defint(sym, v):
    """`def string SYM = v` (first in [setup], so that the definition is always executed)"""
    return {'k': 'defint', 'sym': sym, 'v': v}


def set_text(ins):
    v = ins['v']
    if v is None:
        return 'none'
    form = ins.get('form', 'lit')
    if form == 'expr':
        return '%d-%d' % (v + 7, 7)
    if form == 'quoted':
        return '"%d * 1"' % v
    if form == 'sym':
        return '@[%s]@' % ins['sym']
    return str(v)


def plain(b):
    return {'k': 'plain', 'b': b}


def systematic_cases(quick):
    """every phase x every kind of program use, with the timeout set before / after the point of use, in an earlier
    phase, lifted by `none` before / after, child longer than / within the limit"""
    out = []
    MARK = lambda: spawn('pct', [0])  # a cleanup instruction whose process is the "cleanup ran" marker
    for ph in PH:
        kinds = [k for k, (n, phs) in KINDS.items() if ph in phs]
        for kind in kinds:
            n = KINDS[kind][0]
            long_ds = [[3] * n] if n == 1 else [[3, 0], [0, 3]]
            for ds in long_ds:
                variants = [
                    ('set-before', [setv(2), spawn(kind, ds)]),
                    ('set-after', [spawn(kind, ds), setv(2)]),
                    ('none-before', [setv(2), setv(None), spawn(kind, ds)]),
                    ('none-after', [setv(2), spawn(kind, ds), setv(None)]),
                    ('within', [setv(3), spawn(kind, ds)]),
                    ('reset', [setv(2), setv(5), spawn(kind, ds)]),
                ]
                if quick:
                    variants = variants[:4]
                for name, instrs in variants:
                    c = empty_case()
                    c['phases'][ph] = instrs
                    if ph != 'cleanup':
                        c['phases']['cleanup'] = [MARK()]
                    out.append(c)
                if ph != 'setup':
                    # set in an earlier phase
                    c = empty_case()
                    c['phases']['setup'] = [setv(2)]
                    c['phases'][ph] = [spawn(kind, ds)]
                    c['phases']['cleanup'] = c['phases']['cleanup'] + [MARK()]
                    out.append(c)
                    # `none` in setup: nothing expires later, a 100 s child is waited for
                    c = empty_case()
                    c['phases']['setup'] = [setv(2), setv(None)]
                    c['phases'][ph] = [spawn(kind, [100 if d else 0 for d in ds])]
                    out.append(c)
                if ph != 'cleanup':
                    # the limit is set only in cleanup: it must not apply retroactively
                    c = empty_case()
                    c['phases'][ph] = [spawn(kind, ds)]
                    c['phases']['cleanup'] = [setv(2), MARK()]
                    out.append(c)
                # default in force: a child longer than any plausible default
                c = empty_case()
                c['phases'][ph] = [spawn(kind, [100000 if d else 0 for d in ds])]
                if ph != 'cleanup':
                    c['phases']['cleanup'] = [MARK()]
                out.append(c)
    # the test-case status: an expiry is reported HARD_ERROR also under `status = FAIL` (only an assertion FAIL becomes XFAIL,
    # only "nothing failed" becomes XPASS); SKIP as control (nothing runs)
    kk = 0
    for ph in PH:
        kinds = [kd for kd, (n, phs) in KINDS.items() if ph in phs]
        for kind in (kinds if not quick else kinds[kk % 2::2]):
            n = KINDS[kind][0]
            for status in ('FAIL', 'SKIP'):
                c = empty_case(opt=[None, None, '--keep', '--act'][kk % 4])
                kk += 1
                c['status'] = status
                c['phases'][ph] = [setv(2), spawn(kind, [3] + [0] * (n - 1)), MARK()]
                if ph != 'cleanup':
                    c['phases']['cleanup'] = [MARK()]
                out.append(c)
    for actor in ACTORS:
        for opt in (None, '--act', '--keep'):
            for (act_d, asserts) in ((3, []), (0, [plain('fail')]), (0, []), (0, [spawn('pct', [3])])):
                c = empty_case(actor, act_d, opt)
                c['status'] = 'FAIL'
                c['phases']['setup'] = [setv(2)]
                c['phases']['assert'] = list(asserts)
                c['phases']['cleanup'] = [MARK()]
                out.append(c)
    # boundary values of the timeout domain: 0 (a limit, NOT "no limit"), 1, large; written as literal / expression /
    # quoted expression / symbol reference; child needing exactly the limit (stays) and one second more (expires)
    forms = ['lit', 'expr', 'quoted', 'sym']
    k = 0
    for ph in PH:
        kinds = [kd for kd, (n, phs) in KINDS.items() if ph in phs]
        for kind in kinds:
            n = KINDS[kind][0]
            ts = BOUNDARY if (not quick or kind in ('run', 'shell', 'pct', 'file-src')) else [0]
            for t in ts:
                for over in (True, False):
                    form = forms[k % 4]
                    k += 1
                    c = empty_case()
                    if form == 'sym':
                        c['phases']['setup'].append(defint('LIMIT', t))
                    ds = [t + 1 if over else t] + [t] * (n - 1)
                    if n == 2 and k % 2:
                        ds.reverse()
                    c['phases'][ph] = c['phases'][ph] + [setv(t, form, 'LIMIT'), spawn(kind, ds)]
                    c['phases']['cleanup'] = c['phases']['cleanup'] + [MARK()]
                    out.append(c)
            # 0 set after the use is not retroactive; 0 lifted by none; 0 replaced by a positive limit; 0 set in an earlier phase
            for instrs in ([spawn(kind, [1] * n), setv(0)], [setv(0), setv(None), spawn(kind, [5] * n)],
                           [setv(0, 'expr'), setv(3), spawn(kind, [2] * n)], [setv(4), setv(0), spawn(kind, [1] * n), MARK()]):
                c = empty_case()
                c['phases'][ph] = instrs
                out.append(c)
            if ph != 'setup':
                c = empty_case(act_d=0)
                c['phases']['setup'] = [setv(0)]
                c['phases'][ph] = c['phases'][ph] + [spawn(kind, [1] * n)]
                c['phases']['cleanup'] = c['phases']['cleanup'] + [MARK()]
                out.append(c)
    for actor in ACTORS:
        for t in BOUNDARY:
            for over in (True, False):
                for opt in (None, '--act'):
                    c = empty_case(actor, t + 1 if over else t, opt)
                    c['phases']['setup'] = [setv(t, forms[k % 3])]
                    k += 1
                    c['phases']['cleanup'] = [MARK(), setv(0), MARK(), spawn('run', [1]), MARK()]
                    out.append(c)
        c = empty_case(actor, 0)
        c['phases']['setup'] = [setv(5), {'k': 'stdin', 'd': 1}, setv(0)]
        out.append(c)
    # the action to check under each actor; stdin from a program; set in setup before/after; options
    for actor in ACTORS:
        for opt in (None, '--act', '--keep'):
            for pre in ([], [setv(2)], [setv(2), setv(None)], [setv(1), setv(4)]):
                c = empty_case(actor, 3, opt)
                c['phases']['setup'] = list(pre)
                c['phases']['before-assert'] = [setv(7), spawn('run', [1])]
                c['phases']['cleanup'] = [MARK()]
                out.append(c)
            c = empty_case(actor, 0, opt)
            c['phases']['setup'] = [setv(9), {'k': 'stdin', 'd': 3}, setv(2)]
            c['phases']['cleanup'] = [MARK()]
            out.append(c)
            c = empty_case(actor, 100000, opt)
            c['phases']['cleanup'] = [MARK(), setv(1), spawn('shell', [2]), MARK()]
            out.append(c)
    # a program defined before the limit is set, used after it (and the other way round)
    for ph in PH:
        c = empty_case()
        c['phases']['setup'] = [{'k': 'defprog', 'sym': 'PGM'}, setv(2)]
        c['phases'][ph] = c['phases'][ph] + [{'k': 'spawn', 'kind': 'run-sym', 'sym': 'PGM', 'ds': [3]}]
        c['phases']['cleanup'] = c['phases']['cleanup'] + [MARK()]
        out.append(c)
        c = empty_case()
        c['phases']['setup'] = [{'k': 'defprog', 'sym': 'PGM'}, setv(2), setv(None)]
        c['phases'][ph] = c['phases'][ph] + [{'k': 'spawn', 'kind': 'run-sym', 'sym': 'PGM', 'ds': [3]}]
        out.append(c)
    # an expiry followed by failing cleanup (hard error / another expiry): cleanup's failure is reported
    for ph in PH[:3]:
        for cl in ([plain('hard')], [setv(1), spawn('run', [2])], [MARK(), plain('hard'), MARK()]):
            c = empty_case()
            c['phases'][ph] = [setv(2), spawn('run', [3]), MARK()]
            c['phases']['cleanup'] = list(cl)
            out.append(c)
    return out


def random_case(rng):
    actor = rng.weighted([('cmdline', 4), ('cmdline-shell', 2), ('file', 2), ('source', 2), ('null', 1)])
    c = empty_case(actor, rng.choice([0, 0, 1, 2, 4, 9, 70]), rng.weighted([(None, 8), ('--act', 1), ('--keep', 1)]))
    for ph in PH:
        for _ in range(rng.choice([0, 1, 1, 2, 2, 3, 4, 5])):
            r = rng.below(100)
            if r < 30:
                c['phases'][ph].append(setv(rng.choice([None, None, 0, 0, 1, 1, 2, 3, 5, 8, 60] + BIG), rng.choice(['lit', 'lit', 'expr', 'quoted'])))
            elif r < 80:
                kinds = [k for k, (n, phs) in KINDS.items() if ph in phs]
                kind = rng.choice(kinds)
                ds = [rng.choice([0, 0, 0, 0, 1, 1, 2, 2, 4, 6, 9, 70, 2 ** 31, 10 ** 12 + 1]) for _ in range(KINDS[kind][0])]
                c['phases'][ph].append(spawn(kind, ds))
            elif r < 88:
                c['phases'][ph].append(plain('ok'))
            elif r < 93:
                c['phases'][ph].append(plain('fail' if ph == 'assert' and rng.chance(0.6) else 'hard'))
            elif ph == 'setup':
                c['phases'][ph].append({'k': 'stdin', 'd': rng.choice([0, 1, 2, 4, 9])})
    c['status'] = rng.weighted([('PASS', 15), ('FAIL', 4), ('SKIP', 1)])
    # programs defined by the first instructions of [setup] (so that the definition is always executed: a reference to a
    # symbol whose definition was not reached is the known defect of C08/C18, not this property), each used exactly once
    for n in range(rng.choice([0, 0, 1, 1, 2])):
        sym = 'PGM%d' % (n + 1)
        ph = rng.choice(PH)
        use = {'k': 'spawn', 'kind': 'run-sym', 'sym': sym, 'ds': [rng.choice([0, 1, 2, 4, 9])]}
        c['phases'][ph].insert(rng.randint(n if ph == 'setup' else 0, len(c['phases'][ph])), use)
        c['phases']['setup'].insert(0, {'k': 'defprog', 'sym': sym})
    # only the last stdin counts in the implementation as in the model; keep at most one to keep tags unambiguous
    seen = False
    for ins in reversed(c['phases']['setup']):
        if ins['k'] == 'stdin':
            if seen:
                ins.clear()
                ins.update(plain('ok'))
            seen = True
    return c


def default_matters_cases():
    """cases in which the DEFAULT limit decides (no `timeout` before the process that runs too long), and companions"""
    MARK = lambda: spawn('pct', [0])
    out = []
    c = empty_case(act_d=100000)
    c['phases']['cleanup'] = [MARK()]
    out.append(c)
    c = empty_case()
    c['phases']['setup'] = [spawn('run', [100000])]
    c['phases']['cleanup'] = [MARK()]
    out.append(c)
    c = empty_case()
    c['phases']['assert'] = [spawn('text-matcher', [100000])]
    c['phases']['cleanup'] = [MARK()]
    out.append(c)
    c = empty_case(act_d=1)
    c['phases']['setup'] = [spawn('shell', [1]), setv(2), spawn('file-src', [3])]
    c['phases']['cleanup'] = [MARK()]
    out.append(c)
    c = empty_case('source', 2)
    c['phases']['before-assert'] = [spawn('pct', [1]), setv(None), spawn('run', [100000])]
    c['phases']['cleanup'] = [setv(0), spawn('run', [1])]
    out.append(c)
    return out


def ways_items(ctx):
    """the same kinds of cases, run in the other ways a case can be run: `--suite S CASE`, implicit `exactly.suite`
    (both also with --act / --keep), and as cases of the root suite / of a sub suite of `exactly suite ROOT`; the
    suite may prepend `timeout` instructions to [setup]"""
    rng = ctx.rng
    items = []
    k = 0
    for way in ('explicit-suite', 'implicit-suite'):
        for ss in ([], [setv(7)], [setv(None)]):
            for c in default_matters_cases():
                c['way'], c['suite_setup'] = way, [dict(i) for i in ss]
                c['opt'] = [None, None, '--act', '--keep'][k % 4]
                c['status'] = ['PASS', 'FAIL', 'FAIL', 'PASS', 'SKIP'][k % 5]
                k += 1
                items.append(c)
        for _ in range(40 if ctx.quick else 400):
            c = random_case(rng)
            c['way'] = way
            c['suite_setup'] = rng.choice([[], [], [setv(7)], [setv(None)], [setv(0)], [setv(3), setv(2 ** 31)]])
            items.append(c)
    dm = default_matters_cases
    def with_status(cs, status):
        for c in cs:
            c['status'] = status
        return cs

    items.append({'root': dm()[:3], 'sub': dm()[:3], 'root_setup': [], 'sub_setup': []})
    items.append({'root': with_status(dm()[:3], 'FAIL'), 'sub': with_status(dm()[1:4], 'FAIL'), 'root_setup': [], 'sub_setup': [setv(7)]})
    items.append({'root': with_status(dm()[:2], 'SKIP'), 'sub': with_status(dm()[3:], 'FAIL'), 'root_setup': [], 'sub_setup': []})
    items.append({'root': dm()[2:], 'sub': dm()[2:], 'root_setup': [setv(7)], 'sub_setup': []})
    items.append({'root': dm()[:2], 'sub': dm()[3:], 'root_setup': [], 'sub_setup': [setv(None)]})
    for _ in range(25 if ctx.quick else 250):
        g = {}
        for where in ('root', 'sub'):
            g[where] = []
            for _ in range(2):
                c = random_case(rng)
                c['opt'] = None
                g[where].append(c)
            g[where + '_setup'] = rng.choice([[], [], [], [setv(7)], [setv(None)], [setv(1)]])
        items.append(g)
    return items


def is_nontrivial(case, obs):
    """a `timeout` instruction precedes a started process, or a process expired (some failure with HARD_ERROR) """
    has_set = any(i['k'] == 'set' for ph in PH for i in case['phases'][ph])
    return bool(obs['calls']) and (has_set or bool(obs['failure']))


def case_desc(case):
    return {'actor': case['actor'], 'act_child_seconds': case['act_d'], 'option': case.get('opt'),
            'way_of_running': case.get('way', 'standalone'), 'status': case.get('status', 'PASS'),
            'setup_instructions_of_the_suite': [dict(i) for i in (case.get('suite_setup') or [])],
            'phases': {ph: [dict(i) for i in case['phases'][ph]] for ph in PH}}


# --------------------------------------------------------------------------------------------------------------
# run
# --------------------------------------------------------------------------------------------------------------
def _inproc_worker(args):
    work, items = args

    class _C:
        pass

    c = _C()
    c.work = work
    ip = InProc(c)
    out = []
    try:
        for item in items:
            if 'root' in item:  # a suite: several cases
                out.append([(em.text, obs, err) for (em, obs, err) in ip.run_group(item)])
            else:
                em, obs, err = ip.run(item)
                out.append((em.text, obs, err))
    finally:
        ip.close()
    return out


def observe_inproc(ctx, items):
    """run the cases / suites in process, in parallel worker processes (each with its own home / sandbox root)"""
    import multiprocessing
    n = max(1, min(common.NCPU, len(items) // 20 + 1))
    chunks = [items[i::n] for i in range(n)]
    with multiprocessing.get_context('fork').Pool(n) as pool:
        results = pool.map(_inproc_worker, [(ctx.work, ch) for ch in chunks])
    out = [None] * len(items)
    for k, rs in enumerate(results):
        for j, r in enumerate(rs):
            out[k + j * n] = r
    return out


def run_inproc(ctx, res, items, label):
    """items: cases (run stand-alone / with explicit / implicit suite) and suites (groups of cases run by `exactly suite`)"""
    default = default_timeout()
    full, status_only = ([], []), ([], [])  # (terms, meta) per check function
    for item, r in zip(items, observe_inproc(ctx, items)):
        if 'root' in item:
            pairs = []
            for where in ('root', 'sub'):
                for case in item[where]:
                    case = dict(case, way='suite-' + where, suite_setup=item.get(where + '_setup') or [])
                    pairs.append(case)
            pairs = list(zip(pairs, r))
        else:
            pairs = [(item, r)]
        for case, (text, obs, err) in pairs:
            d = case_desc(case)
            if err is not None:
                res.prop_failures.append(Failure('property', {'case': d, 'file': text}, err))
                continue
            terms, meta = status_only if obs.get('status_only') else full
            terms.append(c_moded(case, default, obs))
            meta.append({'case': d, 'file': text, 'observed': obs, 'default_timeout': default})
            res.count('%s: status = %s -> %s' % (label, d['status'], obs['ident']))
            res.count('%s: way of running: %s%s' % (label, d['way_of_running'], ' ' + case['opt'] if case.get('opt') else ''))
            res.count('%s: processes started: %s' % (label, min(len(obs['calls']), 6)))
            if is_nontrivial(case, obs):
                res.nontrivial.add(json.dumps(d, sort_keys=True))
    for (terms, meta), fn, tg in ((full, 'check_c19_moded', 'cases_'), (status_only, 'check_c19_moded', 'suite_')):
        if not terms:
            continue
        cb, pb, errs = common.run_shards(PROP, IMPORTS, fn, terms, shard_size=300, tag=tg + label)
        res.errors += errs
        for i in pb:
            res.prop_failures.append(Failure('property', meta[i],
                                             'observed behaviour violates C19: a process was not handed the timeout in force (the '
                                             'default, or the value last set) / an expiry was not reported HARD_ERROR at that step '
                                             '(whatever the test-case status) / cleanup '
                                             'or sandbox removal missing / something else ran after the expiry'))
        for i in cb:
            res.disagreements.append(Failure('correspondence', meta[i], 'Model/Timeout.v texecute differs from the observed execution'))
    return full[0] + status_only[0], full[1] + status_only[1]


# --------------------------------------------------------------------------------------------------------------
# (3) real runs: the real CLI in separate processes, children that really sleep
# --------------------------------------------------------------------------------------------------------------
CHILD_PY = """import os, signal, sys, time
tag, mode, secs, logdir = sys.argv[1:5]
if mode == 'ignore-term':
    signal.signal(signal.SIGTERM, signal.SIG_IGN)
with open(os.path.join(logdir, '%s.%d.start' % (tag, os.getpid())), 'w') as f:
    f.write(repr(time.time()))
time.sleep(float(secs))
with open(os.path.join(logdir, '%s.%d.end' % (tag, os.getpid())), 'w') as f:
    f.write(repr(time.time()))
"""
LONG_S, SHORT_S = 20.0, 0.5  # a child with model duration >= 3 really sleeps 20 s (limit 2 s; the wall-clock bound is
# 2 s + 10 s slack, so waiting for it instead of killing it is visible); "exits just before": 0.5 s; duration 2: 2 s
REAL_LIMIT = 2


def real_site_cases(ph, kind, actor, thorough):
    """cases for one place where a process can start; model durations: 3 = the long child, 0 = a child that exits at
    once (or, child kind 'just-before', after 0.5 s)"""
    MARK = lambda: spawn('pct', [0])

    def base(site_ds, pre, child_kind, opt=None, post=()):
        if ph == 'act':
            c = empty_case(actor, site_ds[0], opt)
            c['phases']['setup'] = list(pre)
        else:
            c = empty_case('cmdline', 0, opt)
            c['phases'][ph] = list(pre) + [spawn(kind, site_ds)] + list(post)
        c['phases']['cleanup'] = c['phases']['cleanup'] + [MARK()]
        c['real'] = child_kind
        return c

    n = 1 if ph == 'act' else KINDS[kind][0]
    long_ds = [3] + [0] * (n - 1)
    out = [base(long_ds, [setv(REAL_LIMIT)], 'sleep'), base([0] * n, [setv(REAL_LIMIT)], 'just-before'), base(long_ds, [setv(REAL_LIMIT)], 'ignore-term')]
    # `timeout = 0` is a limit of zero seconds (not "no limit"): the sleeping child is killed at once.  The cleanup marker
    # needs a positive limit again (a real child never finishes within 0 s).
    z = base(long_ds, [setv(0)], 'sleep')
    if ph != 'cleanup':
        z['phases']['cleanup'] = [setv(REAL_LIMIT)] + z['phases']['cleanup']
    out.append(z)
    # `status = FAIL` in [conf]: the expiry is still reported HARD_ERROR (not XFAIL); SKIP as control: nothing runs
    f = base(long_ds, [setv(REAL_LIMIT)], 'sleep')
    f['status'] = 'FAIL'
    out.append(f)
    if ph == 'act' or thorough:
        k = base(long_ds, [setv(REAL_LIMIT)], 'sleep')
        k['status'] = 'SKIP'
        out.append(k)
    if thorough:
        out.append(base([2] + [0] * (n - 1), [setv(REAL_LIMIT), setv(None)], 'sleep'))  # lifted: a 2 s child completes
        if ph != 'act':
            out.append(base([2] + [0] * (n - 1), [], 'sleep', post=[setv(REAL_LIMIT)]))  # limit set after the use: not retroactive
        else:
            c = base([2], [], 'sleep')
            c['phases']['before-assert'] = [setv(REAL_LIMIT)]
            out.append(c)
        if n == 2:
            out.append(base([0, 3], [setv(REAL_LIMIT)], 'sleep'))
        out.append(base(long_ds, [setv(REAL_LIMIT)], 'sleep', opt='--keep'))
    return out


def all_real_sites():
    sites = [('act', None, a) for a in ACTORS if a != 'null']
    for ph in PH:
        for kind, (n, phs) in KINDS.items():
            if ph in phs:
                sites.append((ph, kind, None))
    return sites


class RealRunner:
    def __init__(self, ctx):
        self.root = tempfile.mkdtemp(prefix='c19real-', dir=ctx.work)
        self.n = 0

    def run(self, case):
        self.n += 1
        d = os.path.join(self.root, 'r%d' % self.n)
        return self._run_in(case, d)

    def _run_in(self, case, d):
        home, tmp, log = os.path.join(d, 'home'), os.path.join(d, 'tmp'), os.path.join(d, 'log')
        for x in (home, tmp, log):
            os.makedirs(x)
        child_py = os.path.join(home, 'child.py')
        with open(child_py, 'w') as f:
            f.write(CHILD_PY)
        with open(os.path.join(home, 'src.txt'), 'w') as f:
            f.write('one line\n')
        with open(os.path.join(home, 'prog.src'), 'w') as f:
            f.write('x\n')
        os.makedirs(os.path.join(home, 'onedir'))
        with open(os.path.join(home, 'onedir', 'one.txt'), 'w') as f:
            f.write('x\n')
        kind = case['real']
        mode = 'ignore-term' if kind == 'ignore-term' else 'sleep'
        short = SHORT_S if kind == 'just-before' else 0.0

        def secs(t):
            dd = int(TAG_RE.search(t).group(2))
            return LONG_S if dd >= 3 else float(dd) if dd > 0 else short

        def args(t):
            return '%s %s %s %s %s' % (child_py, t, mode, secs(t), log)

        em = emit_case(case, child=lambda t: '% ' + sys.executable + ' ' + args(t),
                       shell_child=lambda t: sys.executable + ' ' + args(t))
        path = os.path.join(home, 'c.case')
        with open(path, 'w') as f:
            f.write(em.text)
        env = dict(os.environ)
        env.update({'PYTHONPATH': os.path.join(common.REPO, 'src'), 'TMPDIR': tmp, 'PYTHONWARNINGS': 'ignore'})
        argv = [sys.executable, os.path.join(common.REPO, 'src', 'default-main-program-runner.py')] + \
               ([case['opt']] if case.get('opt') else []) + [path]
        t0 = time.time()
        hung = False
        try:
            p = subprocess.run(argv, cwd=home, env=env, stdout=subprocess.PIPE, stderr=subprocess.PIPE, text=True,
                               errors='replace', timeout=90, start_new_session=True)
            rc, out, err = p.returncode, p.stdout, p.stderr
        except subprocess.TimeoutExpired as ex:
            hung = True
            rc, out, err = None, '', ''
        wall = time.time() - t0
        # children: which started (in order), which are still alive
        starts = []
        for fn in os.listdir(log):
            m = re.match(r'C19T(\d+)D\d+\.(\d+)\.start$', fn)
            if m:
                try:
                    ts = float(open(os.path.join(log, fn)).read() or 'inf')
                except ValueError:
                    ts = float('inf')
                starts.append((ts, int(m.group(1)), int(m.group(2)), fn))
        starts.sort()
        alive = []
        time.sleep(0.05)
        for (_, n, pid, fn) in starts:
            if os.path.exists(os.path.join(log, fn[:-len('.start')] + '.end')):
                continue  # ran to its end
            if _pid_alive(pid):
                alive.append((n, pid))
        for (_, pid) in alive:
            try:
                os.kill(pid, signal.SIGKILL)
            except OSError:
                pass
        left = [x for x in os.listdir(tmp) if x.startswith('exactly-')]
        recs = [(n, None) for (_, n, _, _) in starts]
        site_r, printed, display = (None, None, 'HUNG') if hung else parse_verdict(rc, out, err, em)
        # A child killed before it could write its start file (limit of 0 seconds: killed at once) was nevertheless
        # started: Exactly's report of the expiry ("Command '[... C19T<n>D<d> ...]' timed out after ...") names it.  It is
        # entered where the failing step is: before the processes of the cleanup phase that follow (at the end, if the
        # failing step is in cleanup).
        inferred = []
        for m in re.finditer(r"^Command .*?C19T(\d+)D\d+.* timed out after", err, re.M):
            n = int(m.group(1))
            if n in em.shell_tags and n in [x for (x, _) in recs]:
                # KF-C19-1: the shell was killed, the command it forked lives on and may write its start file at any later
                # moment (after cleanup's children, with a limit of 0 s): its place is where the expiry is reported
                recs = [(x, t) for (x, t) in recs if x != n]
            if n not in [x for (x, _) in recs] and n not in inferred:
                inferred.append(n)
        for n in inferred:
            site = em.tag_site.get(n)
            pos = len(recs)
            if site is not None and site[0] != 'cleanup':
                for i, (x, _) in enumerate(recs):
                    if em.tag_site.get(x, ('?',))[0] == 'cleanup':
                        pos = i
                        break
            recs.insert(pos, (n, None))
        obs = mk_obs(canonical_calls(recs, em), site_r, printed, display, bool(left),
                     exit_code=rc, wall_ms=int(wall * 1000), children_alive_afterwards=alive, hung=hung,
                     started_inferred_from_expiry_report=inferred)
        shutil.rmtree(d, ignore_errors=True)
        return em, obs

    def close(self):
        shutil.rmtree(self.root, ignore_errors=True)


def _pid_alive(pid):
    try:
        with open('/proc/%d/stat' % pid) as f:
            st = f.read().rsplit(')', 1)[1].split()[0]
        return st not in ('Z', 'X')
    except OSError:
        return False


def run_real(ctx, res):
    from concurrent.futures import ThreadPoolExecutor
    default = default_timeout()
    sites = all_real_sites()
    if ctx.quick:
        others = [s for s in sites if s[0] != 'act' and s[1] != 'shell']
        shells = [s for s in sites if s[1] == 'shell']
        chosen = [('act', None, 'cmdline'), ctx.rng.choice(shells), ctx.rng.choice(others)]
    else:
        chosen = sites
    cases = []
    for (ph, kind, actor) in chosen:
        for c in real_site_cases(ph, kind, actor, not ctx.quick):
            cases.append(((ph, kind or actor), c))
    rr = RealRunner(ctx)
    try:
        dirs = [os.path.join(rr.root, 'r%d' % i) for i in range(len(cases))]
        with ThreadPoolExecutor(max_workers=min(12, common.NCPU)) as ex:
            results = list(ex.map(lambda a: rr._run_in(a[0][1], a[1]), zip(cases, dirs)))
    finally:
        rr.close()
    terms, meta = [], []
    for (site, case), (em, obs) in zip(cases, results):
        d = case_desc(case)
        d['child'] = case['real']
        m = {'site': list(site), 'case': d, 'file': em.text, 'observed': obs, 'default_timeout': default}
        if obs['hung']:
            res.prop_failures.append(Failure('property', m, 'Exactly did not return within 90 s (children sleep at most 3 s)'))
            continue
        keep = case.get('opt') == '--keep'
        alive = obs['children_alive_afterwards']
        # KF-C19-1: a command run through the shell survives the kill of the shell.  Only that clause, only such sites:
        # everything else of the property is still demanded of the run (the term below), and a surviving child of any
        # other site is an unlisted failure.
        only_shell_children_alive = bool(alive) and all(n in em.shell_tags for (n, _) in alive)
        if only_shell_children_alive:
            res.prop_failures.append(Failure('property', m, 'the command started through the shell is still alive after Exactly '
                                                            'returned (the shell was killed, not the command)', finding=KF_SHELL))
        terms.append('(C19RealM %s %s %s)' % (c_moded(case, default, obs, with_timeouts=False), cN(obs['wall_ms']),
                                              cbool(not alive or only_shell_children_alive)))
        meta.append(m)
        res.count('real: status = %s, child %s -> %s' % (d['status'], case['real'], obs['ident']))
        res.nontrivial.add('real ' + json.dumps(d, sort_keys=True))
    cb, pb, errs = common.run_shards(PROP, IMPORTS, 'check_c19_real_moded', terms, shard_size=300, tag='cases_real')
    res.errors += errs
    for i in pb:
        res.prop_failures.append(Failure('property', meta[i],
                                         'real run violates C19: verdict is not HARD_ERROR at the step that started the sleeping '
                                         'child / cleanup did not run / sandbox left / a child is still alive afterwards / wall clock '
                                         'exceeds the model bound (sum of waits + %d ms)' % 10000))
    for i in cb:
        res.disagreements.append(Failure('correspondence', meta[i], 'Model/Timeout.v differs from the real run (sites started, '
                                                                    'verdict, sandbox)'))
    res.extra['real_runs'] = len(terms)
    res.extra['real_sites'] = ['%s/%s' % (ph, kind or actor) for (ph, kind, actor) in chosen]
    res.extra['real_wall_ms_max'] = max([m['observed']['wall_ms'] for m in meta] or [0])
    return terms, meta


def run(ctx, res):
    # (1) source scan (the table was written by gen_tables; here: the tie itself, fail-closed)
    sites = scan_sites()
    seen = {(r, q) for (r, q, c, _, _) in sites}
    for (rel, q, callee, has_t, line) in sites:
        if (rel, q) not in KNOWN_SITES:
            res.errors.append('tie broken: new process start site %s:%d in %s (%s), timeout keyword: %s — not covered by the '
                              'model' % (rel, line, q, callee, has_t))
        elif KNOWN_SITES[(rel, q)] and not has_t:
            res.errors.append('tie broken: process start site %s:%d in %s (%s) passes no timeout' % (rel, line, q, callee))
    for k in KNOWN_SITES:
        if k not in seen:
            res.errors.append('tie broken: known process start site %s:%s not found any more' % k)
    res.extra['process_start_sites'] = ['%s:%d %s %s timeout_kw=%s' % (r, ln, q, c, t) for (r, q, c, t, ln) in sites]

    # (2) in-process correspondence
    cases = systematic_cases(ctx.quick)
    n_sys = len(cases)
    for _ in range(1200 if ctx.quick else 12000):
        cases.append(random_case(ctx.rng))
    ways = ways_items(ctx)
    res.extra['ways_of_running_items'] = len(ways)
    cases += ways
    res.rule = ('systematic: every phase x every kind of program use (run, $, %, -stdout-from/-stderr-from text source, '
                'transformer run, line/text/file/files matcher run, -stdin of a program, env from a program, exit-code/stdout -from, '
                'program symbol defined earlier) x timeout set before / after / lifted by none before / after / in an earlier phase / '
                'only in cleanup / default; the action to check under each actor x {normal, --act, --keep}; stdin from a program; '
                'expiry followed by failing cleanup; then random schedules (0..5 instructions per phase); then default-decides and '
                'random cases run in the other ways a case can be run: --suite S CASE, implicit exactly.suite (x --act / --keep), '
                'case of the root suite / of a sub suite of `exactly suite ROOT`, the suite prepending timeout instructions. non-trivial := a process '
                'was started and (a timeout instruction occurs in the case or the case ends in a failure); distinct := distinct case')
    terms, meta = run_inproc(ctx, res, cases, 'inproc')
    # (3) real runs
    rterms, rmeta = run_real(ctx, res)
    res.evaluations = len(terms) + len(rterms)
    res.extra['systematic_cases'] = n_sys
    if meta:
        res.samples = [{'file': m['file'], 'observed': m['observed']} for m in (meta[0], meta[n_sys // 2], meta[-1])]


def replay(ctx, payload):
    """re-run one stored input on the implementation and on the model and print both"""
    m = payload.get('case') or {}
    d = m.get('case')
    if not d:
        print(json.dumps(payload, indent=1, default=str)[:4000])
        return 0
    case = {'actor': d['actor'], 'act_d': d['act_child_seconds'], 'opt': d.get('option'), 'phases': d['phases'],
            'way': d.get('way_of_running', 'standalone'), 'suite_setup': d.get('setup_instructions_of_the_suite') or [],
            'status': d.get('status', 'PASS')}
    default = default_timeout()
    os.makedirs(ctx.work, exist_ok=True)
    if d.get('child'):
        case['real'] = d['child']
        rr = RealRunner(ctx)
        try:
            em, obs = rr.run(case)
        finally:
            rr.close()
    else:
        ip = InProc(ctx)
        try:
            if case['way'].startswith('suite-'):
                where = case['way'][len('suite-'):]
                g = {'root': [], 'sub': [], 'root_setup': [], 'sub_setup': []}
                g[where] = [case]
                g[where + '_setup'] = case['suite_setup']
                em, obs, err = ip.run_group(g)[0]
            else:
                em, obs, err = ip.run(case)
        finally:
            ip.close()
        if err:
            print('implementation:', err)
            return 1
    print(em.text)
    print('implementation observed:', json.dumps(obs, default=str))
    keep = cbool(case.get('opt') == '--keep')
    real = bool(d.get('child'))
    moded = c_moded(case, default, obs, with_timeouts=not real)
    chk = ('check_c19_real_moded (C19RealM %s %s %s)' % (moded, cN(obs['wall_ms']), cbool(not obs['children_alive_afterwards']))
           if real else 'check_c19_moded %s' % moded)
    vals, out = common.coq_eval_terms(PROP, IMPORTS, ['model_obs %s %s' % (keep, c_tcase(case, default)), chk], tag='replay')
    if vals is None:
        print(out[-2000:])
        return 1
    print('model observation      :', vals[0])
    print('(correspondence, property on the observed behaviour) for test-case status %s:' % case['status'], vals[1])
    return 0 if vals[1].replace(' ', '') == '(true,true)' else 1
