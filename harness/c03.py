"""C03 — validation precedes execution: an invalid test case has no effects.  Correspondence harness.

A template test case with an observable side effect in EVERY phase (marker files written outside the sandbox by two
`$` instructions per phase, the action to check writes one too), into which one defective instruction is inserted at
every phase x position (first / middle / last) x every class of defect of the property's quantifier; real instructions,
run through MainProgram.execute in process.  Observed: exit code, identifier, the number of marker files, the number of
sandbox directories CREATED (the sandbox-root resolver is counted, so a sandbox that was created and removed is seen).
Model: Model/World.v `process` / `symbol_command` (Spec/C04.v `check_c03`, `check_c03_sym`).
"""
import json
import os
import shutil
import tempfile

import common
from common import Failure, cZ, cnat, clist
import impl

EXTRA_PROPS = ['C03C08']  # composition theorems printed and counted with this property
EXPLANATION = ('Theorems (Props/C03.v): in the model of the executor/pipeline a failure of ANY step of the validation block (act '
               'parse, symbol validation, pre-sds validation of any instruction of any phase, incl. the last of [cleanup]), or of '
               'reading/parsing the whole file, leaves no main step, no sandbox and no started action; the symbol command invokes only '
               'validation steps.  Correspondence: real instructions with defects of every class, at every phase and position.')
ASSUMPTIONS = ['PARTIAL: that each REAL instruction reports each class of defect in a validation step rather than in main is '
               'per-instruction Python outside the model; it is covered by the differential run only (defect classes x phases x positions)',
               'a `def` whose value is never referenced is not validated by the program (bad regex / integer inside an unused matcher '
               'definition passes); such a definition does not "fail pre-execution validation", so it is outside the premise and not generated']
TRUSTED_EXTRA = ['/bin/sh and touch for the marker side effects']

PHASES = ['setup', 'before-assert', 'assert', 'cleanup']
IDENT = {'SYNTAX_ERROR': None, 'VALIDATION_ERROR': '(IdFull VALIDATION_ERROR)', 'FILE_ACCESS_ERROR': '(IdAccess FILE_ACCESS_ERROR)',
         'PASS': '(IdFull PASS)', 'FAIL': '(IdFull FAIL)', 'HARD_ERROR': '(IdFull HARD_ERROR)', 'INTERNAL_ERROR': '(IdFull INTERNAL_ERROR)',
         'PRE_PROCESS_ERROR': '(IdAccess PRE_PROCESS_ERROR)', 'XFAIL': '(IdFull XFAIL)', 'XPASS': '(IdFull XPASS)',
         'SKIPPED': '(IdFull SKIPPED)'}

# class -> (list of (instruction text, phases it applies to or None = all), stage or None = decided by the observed identifier)
DEFECTS = {
    'syntax': ([('file a b c', None), ('def unknown-type X = y', None), ('def string = x', None), ('exit-code ==', ['assert']),
                ('def string S = "unterminated', None), ('stdout', ['assert'])], 'DefParse'),
    'unknown instruction': ([('no-such-instruction x y', None), ('exit-code == 0', ['setup', 'before-assert', 'cleanup']),
                             ('stdin = x', ['before-assert', 'assert', 'cleanup'])], 'DefParse'),
    'undefined symbol': ([('def string C03_S = @[C03_UNDEF]@', None), ('file f.txt = @[C03_UNDEF]@', None),
                          ('$ echo @[C03_UNDEF]@', None), ('run % echo @[C03_UNDEF]@', None),
                          ('stdout C03_UNDEF', ['assert']), ('cd @[C03_UNDEF]@', None)], 'DefSymbols'),
    'symbol defined later': ([('def string C03_S = @[C03_LATER]@', None), ('file f.txt = @[C03_LATER]@', None),
                              ('$ echo @[C03_LATER]@', None)], 'DefSymbols'),
    'wrong symbol type': ([('def string C03_S = @[C03_LM]@', None), ('file f.txt = @[C03_LM]@', None),
                           ('stdout C03_LM', ['assert']), ('def path C03_P = -rel C03_STR x', None),
                           ('def text-transformer C03_T = filter C03_STR', None),
                           # a path hidden at second position / second level behind string symbols, where a pure string is required
                           ('exit-code == @[C03_S2]@', ['assert']), ('exit-code == @[C03_S3]@', ['assert']),
                           ('def integer-matcher C03_IM = == @[C03_S2]@\nfile f.txt = "ab" -transformed-by filter line-num C03_IM', None),
                           # the same symbol twice in one instruction, the first use legal, the second not
                           ('file o.txt = -contents-of @[C03_STR]@ -transformed-by C03_STR', None),
                           ('stdout -transformed-by C03_TT equals @[C03_TT]@', ['assert']),
                           ('run % echo @[C03_STR]@ @[C03_STR]@ -existing-path -rel C03_STR .', None)],
                          'DefSymbols'),
    'illegal relativity via symbol': ([('file @[C03_HP]@/f.txt = x', None), ('file -rel C03_HP f.txt = x', None),
                                       ('dir @[C03_HP]@/d', None),
                                       # the same symbol twice in one instruction: legal as source, illegal as destination
                                       ('copy @[C03_HP]@ @[C03_HP]@', None), ('copy @[C03_HP]@ @[C03_HP]@/copy', None),
                                       # ... reached indirectly: string symbols whose later / deeper reference is the home-relative path
                                       ('dir @[C03_S2]@/d', None), ('file @[C03_S2]@/f.txt = x', None), ('dir @[C03_S3]@/d', None)],
                                      'DefSymbols'),
    'missing home file': ([('file f.txt = -contents-of -rel-home missing.txt', None), ('copy -rel-home missing.txt', None),
                           ('def text-source C03_TS = -contents-of -rel-home missing.txt\nfile g.txt = @[C03_TS]@', None),
                           ('file f.txt = -contents-of -rel-act-home missing.txt', None), ('copy {ABS}/missing.txt', None),
                           ('file f.txt = -contents-of {ABS}/missing.txt', None), ('run % cat -existing-file {ABS}/missing.txt', None),
                           ('run % cat -existing-file -rel-home missing.txt', None),
                           # arguments appended to a reference to a program symbol (and to a program defined from one)
                           ('run @ C03_PROG -existing-file -rel-home missing.txt', None),
                           ('run @ C03_PROG a -existing-path {ABS}/missing.txt b', None),
                           ('run @ C03_PROG2 -existing-dir -rel-home missing-dir', None),
                           ('def program C03_P3 = @ C03_PROG -existing-file -rel-home missing.txt\nrun @ C03_P3', None),
                           ('file g.txt = -stdout-from @ C03_PROG -existing-file -rel-home missing.txt', None),
                           ('stdout -from @ C03_PROG2 x -existing-file -rel-home missing.txt is-empty', ['assert']),
                           ('run % cat\n    -stdin -contents-of -rel-home missing.txt', None),
                           ('run @ C03_PROG\n    -stdin -contents-of -rel-home missing.txt', None),
                           ('def path C03_MP = -rel-here missing.txt\ncopy @[C03_MP]@', None)], 'DefPreSds'),
    'bad integer': ([('file f.txt = -contents-of -rel-home exists.txt -transformed-by filter line-num == abc', None),
                     ('file f.txt = -contents-of -rel-home exists.txt -transformed-by filter line-num == 1.5', None),
                     ('timeout abc', None), ('exit-code == abc', ['assert']), ('exit-code == 1.5', ['assert']),
                     ('stdout num-lines == "1 +"', ['assert']),
                     ('file f.txt = -contents-of -rel-home exists.txt -transformed-by replace -at line-num == abc a y', None),
                     ('file f.txt = -contents-of -rel-home exists.txt -transformed-by filter -line-nums abc', None),
                     ('file f.txt = -contents-of -rel-home exists.txt -transformed-by filter -line-nums 1:2:3', None),
                     ('dir-contents -rel-home . : num-files == 1.5', ['assert']),
                     ('dir-contents -rel-home . : -recursive -min-depth x is-empty', ['assert'])], None),
    'bad regex': ([('file f.txt = -contents-of -rel-home exists.txt -transformed-by replace "(" y', None),
                   ('stdout matches "("', ['assert']), ('stdout any line : contents matches "[a"', ['assert']),
                   ('file f.txt = -contents-of -rel-home exists.txt -transformed-by filter contents matches "*"', None),
                   # every REGEX position x option combination
                   ('file f.txt = -contents-of -rel-home exists.txt -transformed-by replace -at line-num == 1 "(" y', None),
                   ('file f.txt = -contents-of -rel-home exists.txt -transformed-by replace -preserve-new-lines "(" y', None),
                   ('file f.txt = -contents-of -rel-home exists.txt -transformed-by replace -preserve-new-lines -at contents matches a "[" y', None),
                   ('file f.txt = -contents-of -rel-home exists.txt -transformed-by replace -at contents matches "(" a y', None),
                   ('file f.txt = -contents-of -rel-home exists.txt -transformed-by grep "("', None),
                   ('file f.txt = -contents-of -rel-home exists.txt -transformed-by ( char-case -to-upper | replace -at line-num >= 1 "*" y )', None),
                   ('def text-transformer C03_BT = replace -at line-num == 1 "(" y\nfile g.txt = -contents-of -rel-home exists.txt -transformed-by C03_BT', None),
                   ('stdout matches -full "("', ['assert']), ('stdout -transformed-by replace -at line-num == 1 "(" y is-empty', ['assert']),
                   ('exists -rel-home exists.txt : name ~ "("', ['assert']),
                   ('dir-contents -rel-home . : -selection name ~ "[" is-empty', ['assert'])], None),
}


def template(insert=None, act=None, conf='', later_def_phase=None):
    """insert: (phase, position in 0..2, text) ; position 0 = first, 1 = middle, 2 = last of the phase"""
    def phase(p, markers, extra_first=()):
        lines = list(extra_first) + ['$ touch %s/%s-1' % (markers, p), '$ touch %s/%s-2' % (markers, p)]
        return lines
    return phase


def build_case(markers, insert, act_line=None, conf_lines=(), later_in=None, include_first=False):
    body = {}
    for p in PHASES:
        body[p] = ['$ touch %s/%s-1' % (markers, p), '$ touch %s/%s-2' % (markers, p)]
    prereq = ['def line-matcher C03_LM = line-num == 1', 'def path C03_HP = -rel-home x', 'def string C03_STR = str',
              # a string symbol that itself has references, and one composed of it and a home-relative path (indirect defects)
              'def string C03_A = @[C03_STR]@', 'def string C03_S2 = @[C03_A]@@[C03_HP]@', 'def string C03_S3 = @[C03_S2]@',
              'def program C03_PROG = % true', 'def program C03_PROG2 = @ C03_PROG first-arg',
              'def text-transformer C03_TT = char-case -to-upper']
    if insert is not None:
        p, pos, text = insert
        lst = body[p]
        idx = {0: 0, 1: 1, 2: len(lst)}[pos]
        # (optionally) a valid `including` directive just before the defective instruction: the phase continues after it
        lst[idx:idx] = (['including c03-inc.xly'] if include_first else []) + text.split('\n')
    if later_in is not None:
        body[later_in].append('def string C03_LATER = x')
    body['setup'] = prereq + body['setup']
    text = ''
    if conf_lines:
        text += '[conf]\n' + '\n'.join(conf_lines) + '\n'
    text += '[setup]\n' + '\n'.join(body['setup']) + '\n'
    text += '[act]\n' + (act_line or '$ touch %s/act' % markers) + '\n'
    for p in PHASES[1:]:
        text += '[%s]\n' % p + '\n'.join(body[p]) + '\n'
    return text


def gen_cases(ctx, markers):
    rng = ctx.rng
    cases = []  # (class, stage or None, description, text, extra files)
    for cls, (variants, stage) in DEFECTS.items():
        for p in PHASES:
            for pos in (0, 1, 2):
                vs = [v for v in variants if v[1] is None or p in v[1]]
                chosen = vs if not ctx.quick else rng.sample(vs, min(len(vs), 5))
                for text, _ in chosen:
                    later = None
                    if cls == 'symbol defined later':
                        later = rng.choice(PHASES[PHASES.index(p):])
                    inc = rng.chance(0.3)
                    cases.append((cls, stage, {'phase': p, 'position': ['first', 'middle', 'last'][pos], 'instruction': text,
                                               'preceded by a valid including directive': inc},
                                  build_case(markers, (p, pos, text), later_in=later, include_first=inc)))
    for act in ('"unterminated', "'unterminated arg", 'prog "unterminated arg',
                # a superfluous source line after a complete program (command-line actor)
                '% true\nstray text', '% true\n% true', '@ C03_PROG\nstray', '% true\n    -stdin x\nstray'):
        cases.append(('act-phase syntax', 'DefActParse', {'act': act}, build_case(markers, None, act_line=act)))
    for act, later in (('% echo @[C03_UNDEF]@', None), ('% echo @[C03_LATER]@', 'before-assert'), ('% echo @[C03_LATER]@', 'assert'),
                       ('% echo @[C03_LATER]@', 'cleanup'), ('% echo @[C03_LM]@', None), ('@[C03_UNDEF]@ arg', None),
                       ('% cat -existing-file -rel-home missing.txt', None), ('% cat -existing-file {ABS}/missing.txt', None),
                       ('@ C03_PROG -existing-file -rel-home missing.txt', None), ('@ C03_PROG2 a -existing-path {ABS}/missing.txt', None),
                       ('@ C03_PROG\n    -stdin -contents-of -rel-home missing.txt', None),
                       ('missing-program-in-home arg', None), ('-rel-home missing-program arg', None)):
        cases.append(('defect in the act phase', None, {'act': act, 'symbol defined later in': later},
                      build_case(markers, None, act_line=act, later_in=later)))
    for conf in ('status = NOPE', 'no-such-conf-instruction', 'actor = no-such-actor', 'home = missing-dir'):
        cases.append(('conf phase defect', None, {'conf': conf}, build_case(markers, None, conf_lines=[conf])))
    for p in PHASES:
        cases.append(('missing included file', 'DefInclude', {'phase': p}, build_case(markers, (p, rng.below(3), 'including missing-file.xly'))))
    if not ctx.quick:
        # two simultaneous defects of different classes in different places
        # (an unterminated quote is excluded here: two of them close each other and form one legal multi-line string)
        flat = [(cls, v[0]) for cls, (vs, st) in DEFECTS.items() if cls != 'symbol defined later' for v in vs
                if v[1] is None and v[0].count('"') % 2 == 0 and v[0].count("'") % 2 == 0]
        for _ in range(400):
            (c1, t1), (c2, t2) = rng.choice(flat), rng.choice(flat)
            p1, p2 = rng.choice(PHASES), rng.choice(PHASES)
            text = build_case(markers, (p1, rng.below(3), t1))
            # insert the second into the text of phase p2 at the end
            text = text.replace('[%s]\n' % p2, '[%s]\n%s\n' % (p2, t2), 1) if rng.chance(0.5) else text + ('[%s]\n%s\n' % (p2, t2))
            cases.append(('two defects', None, {'first': [c1, p1, t1], 'second': [c2, p2, t2]}, text))
    return cases


# ---------------------------------------------------------------------------------------------
# the case as one of the cases of a suite: the instruction stands in the SUITE file (parsed once, its objects shared by all
# cases), what makes it defective is the case's own (a definition in its [setup], a file in its home directory)
# (instruction in the suite file, phases it may stand in, valid (setup lines, home files), defective variants [(setup lines, home files)], stage)
SUITE_SHARED = [
    ('stdout num-lines == @[C03_N]@', ['assert'], (['def string C03_N = 0'], {}),
     [(['def string C03_N = abc'], {}), (['def string C03_N = 1.5'], {}), ([], {})], None),
    ('exit-code == @[C03_N]@', ['assert'], (['def string C03_N = 0'], {}), [(['def string C03_N = "1 +"'], {})], None),
    ('stdout equals -contents-of -rel-home expected.txt', ['assert'], ([], {'expected.txt': ''}), [([], {})], 'DefPreSds'),
    ('contents -rel-home expected.txt : equals -contents-of -rel-home expected.txt', ['assert'], ([], {'expected.txt': ''}), [([], {})], 'DefPreSds'),
    ('stdout -transformed-by replace @[C03_RE]@ y is-empty', ['assert'], (['def string C03_RE = a'], {}),
     [(["def string C03_RE = '('"], {}), (["def string C03_RE = '[a'"], {})], None),
    ('file g-{PH}.txt = -contents-of -rel-home exists.txt -transformed-by replace @[C03_RE]@ y', ['before-assert', 'assert', 'cleanup'],
     (['def string C03_RE = a'], {}), [(["def string C03_RE = '*'"], {})], None),
    ('run @ C03_P -existing-file -rel-home expected.txt', ['before-assert', 'assert', 'cleanup'],
     (['def program C03_P = % true'], {'expected.txt': ''}), [(['def program C03_P = % true'], {})], 'DefPreSds'),
    ('copy -rel-home expected.txt copied-{PH}.txt', ['before-assert', 'cleanup'], ([], {'expected.txt': ''}), [([], {})], 'DefPreSds'),
    ('stdout C03_M', ['assert'], (['def text-matcher C03_M = is-empty'], {}),
     [(['def line-matcher C03_M = line-num == 1'], {}), (['def string C03_M = x'], {}), ([], {})], 'DefSymbols'),
    ('dir @[C03_D]@/d-{PH}', ['before-assert', 'assert', 'cleanup'], (['def path C03_D = -rel-act x'], {}),
     [(['def path C03_D = -rel-home x'], {}), (['def path C03_D = -rel-result x'], {})], 'DefSymbols'),
]


def suite_case_text(markers, cid, defs):
    text = '[setup]\n' + '\n'.join(list(defs) + ['$ touch %s/%s-setup-1' % (markers, cid), '$ touch %s/%s-setup-2' % (markers, cid)]) + '\n'
    text += '[act]\n$ touch %s/%s-act\n' % (markers, cid)
    for p in PHASES[1:]:
        text += '[%s]\n$ touch %s/%s-%s-1\n$ touch %s/%s-%s-2\n' % (p, markers, cid, p, markers, cid, p)
    return text


def suite_scenarios(ctx):
    rng = ctx.rng
    out = []
    for (instr, phases, valid, defective, stage) in SUITE_SHARED:
        for ph in phases:
            for dv in defective:
                positions = (0, 1, 2) if not ctx.quick else (rng.choice((1, 2)), 0) if rng.chance(0.5) else (rng.choice((1, 2)),)
                for dpos in positions:
                    out.append((instr.replace('{PH}', ph), ph, valid, dv, dpos, stage))
    return out


def run_suites(ctx, res, root, sbx, markers, mp, created):
    terms, meta = [], []
    dropped = 0
    for k, (instr, ph, valid, dv, dpos, stage) in enumerate(suite_scenarios(ctx)):
        d = os.path.join(root, 'suite%d' % k)
        os.makedirs(d)
        for fn in os.listdir(markers):
            os.remove(os.path.join(markers, fn))
        del created[:]
        texts = {}
        for i in range(3):
            defs, files = dv if i == dpos else valid
            cd = os.path.join(d, 'c%d' % i)
            os.makedirs(cd)
            open(os.path.join(cd, 'exists.txt'), 'w').write('1\n2\n')
            for fn, content in files.items():
                open(os.path.join(cd, fn), 'w').write(content)
            texts['c%d/t.case' % i] = suite_case_text(markers, 'c%d' % i, defs)
            open(os.path.join(cd, 't.case'), 'w').write(texts['c%d/t.case' % i])
        suite_text = '[cases]\nc0/t.case\nc1/t.case\nc2/t.case\n[%s]\n%s\n' % (ph, instr)
        open(os.path.join(d, 's.suite'), 'w').write(suite_text)
        pr = impl.run_main(mp, ['suite', 's.suite'], d, root)
        desc = {'kind': 'case run as one of three cases of a suite', 'suite file': suite_text, 'cases': texts,
                'defective case': 'c%d/t.case' % dpos,
                'home files of the valid cases': sorted(valid[1]), 'home files of the defective case': sorted(dv[1])}
        if pr.exception is not None:
            res.prop_failures.append(Failure('property', desc, 'exception escaped MainProgram.execute: %r' % pr.exception))
            continue
        status = {}
        for line in pr.out.split('\n'):
            if line.startswith('case ') and ': (' in line:
                name = line[len('case'):].split(':')[0].strip()
                status[name] = line.rsplit(' ', 1)[-1].strip()
        mk = os.listdir(markers)
        per = [len([m for m in mk if m.startswith('c%d-' % i)]) for i in range(3)]
        ok_valid = all(status.get('c%d/t.case' % i) == 'PASS' and per[i] == 9 for i in range(3) if i != dpos)
        if not ok_valid:
            # not C03's business (the valid cases of the suite do not pass): the scenario says nothing about the defective one
            dropped += 1
            res.count('suite scenario dropped: a valid case did not pass')
            shutil.rmtree(d, ignore_errors=True)
            continue
        first = status.get('c%d/t.case' % dpos)
        st = stage_of_ident(first) or stage or 'DefPreSds'
        if stage == 'DefSymbols' and first == 'VALIDATION_ERROR':
            st = 'DefSymbols'
        ident = {'SYNTAX_ERROR': '(IdAccess ACC_SYNTAX_ERROR)'}.get(first) or IDENT.get(first)
        desc['observed'] = {'suite exit': pr.exit_code, 'status of each case': status, 'markers of each case': per,
                            'sandboxes_created': len(created)}
        if ident is None:
            res.prop_failures.append(Failure('property', desc, 'the suite reports no status for the defective case'))
            continue
        terms.append('(C03Suite %s %s %s %s)' % (st, ident, cnat(per[dpos]), cnat(max(0, len(created) - 2))))
        meta.append(desc)
        res.count('suite mode: defective case is number %d' % (dpos + 1))
        res.nontrivial.add(('suite', instr, ph, tuple(dv[0]), dpos))
        shutil.rmtree(d, ignore_errors=True)
    return terms, meta


def stage_of_ident(first_line):
    return {'SYNTAX_ERROR': 'DefParse', 'VALIDATION_ERROR': 'DefPreSds', 'FILE_ACCESS_ERROR': 'DefInclude'}.get(first_line)


def run(ctx, res):
    rng = ctx.rng
    root = tempfile.mkdtemp(prefix='c03-', dir=ctx.work)
    sbx, markers, home = (os.path.join(root, x) for x in ('sandboxes', 'markers', 'case'))
    for d in (sbx, markers, home):
        os.makedirs(d)
    open(os.path.join(home, 'exists.txt'), 'w').write('1\n2\n')
    open(os.path.join(home, 'x'), 'w').write('x\n')      # what C03_HP (-rel-home x) names
    open(os.path.join(home, 'str'), 'w').write('s\n')    # what the string C03_STR names when used as a file name
    open(os.path.join(home, 'c03-inc.xly'), 'w').write('$ touch %s/included\n' % markers)
    created = []
    mp = impl.main_program(sbx, on_create=created.append)
    res.rule = ('template case with two marker-writing instructions in each of setup/before-assert/assert/cleanup and a marker-writing '
                'action; one defective instruction inserted at every phase x position (first/middle/last) x class (syntax, unknown '
                'instruction, undefined symbol, symbol defined later, wrong symbol type, illegal relativity via symbol, missing home file, '
                'bad integer, bad regex; up to 3 variants per class in quick, all in thorough), plus act-phase syntax, conf-phase defects, '
                'missing included file, (thorough) two simultaneous defects; each also through the `symbol` command and (a sample) under --act / --keep; '
                'plus the valid template; plus suite mode: 10 instructions standing in the suite file x phase, defective only for one of '
                'three cases (by that case\'s own definitions / home files), that case being 1st/2nd/3rd. '
                'non-trivial := a defect is present; distinct := distinct case text')

    def clear():
        for fn in os.listdir(markers):
            os.remove(os.path.join(markers, fn))
        del created[:]
        for x in os.listdir(sbx):
            shutil.rmtree(os.path.join(sbx, x), ignore_errors=True)

    def run_case(text, argv_prefix=()):
        clear()
        with open(os.path.join(home, 'test.case'), 'w') as f:
            f.write(text)
        pr = impl.run_main(mp, list(argv_prefix) + ['test.case'], home, root)
        return pr, len(os.listdir(markers)), len(created)

    terms, meta, sterms, smeta = [], [], [], []
    # sanity of the instrument: the valid template leaves all 9 markers and creates one sandbox
    pr, nm, ns = run_case(build_case(markers, None))
    if not (pr.exception is None and pr.out.startswith('PASS') and nm == 9 and ns == 1):
        res.errors.append('instrument broken: the valid template gave %r markers=%d sandboxes=%d exc=%r' % (pr.out[:40], nm, ns, pr.exception))
    pr, nm, ns = run_case(build_case(markers, None), ['symbol'])
    sterms.append('(C03Sym None %s %s)' % (cnat(nm), cnat(ns)))
    smeta.append({'kind': 'symbol command on the valid template', 'observed': {'exit': pr.exit_code, 'markers': nm, 'sandboxes_created': ns}})
    for cls, stage, desc, text in gen_cases(ctx, markers):
        text = text.replace('{ABS}', root)
        d = {'class': cls, 'where': desc, 'case': text}
        pr, nm, ns = run_case(text)
        if pr.exception is not None:
            res.prop_failures.append(Failure('property', d, 'exception escaped MainProgram.execute: %r' % pr.exception))
            continue
        first = pr.out.split('\n')[0]
        # which stage reports a class of defect (parse or validation) is not part of the property: the model is run with the
        # stage the observed identifier names; a class default is used only when the identifier is none of the three allowed
        st = stage_of_ident(first) or stage or 'DefPreSds'
        if stage == 'DefSymbols' and first == 'VALIDATION_ERROR':
            st = 'DefSymbols'
        if stage == 'DefActParse' and first == 'SYNTAX_ERROR':
            st = 'DefActParse'
        ident = {'SYNTAX_ERROR': '(IdAccess ACC_SYNTAX_ERROR)' if st != 'DefActParse' else '(IdFull SYNTAX_ERROR)'}.get(first) or IDENT.get(first)
        if first == 'SYNTAX_ERROR' and stage is None and cls == 'act-phase syntax':
            st, ident = 'DefActParse', '(IdFull SYNTAX_ERROR)'
        if ident is None:
            res.prop_failures.append(Failure('property', dict(d, observed={'exit': pr.exit_code, 'stdout': pr.out[:200]}),
                                             'no exit identifier on stdout'))
            continue
        d['observed'] = {'exit': pr.exit_code, 'identifier': first, 'markers': nm, 'sandboxes_created': ns}
        terms.append('(C03Case %s %s %s %s %s)' % (st, cZ(pr.exit_code), ident, cnat(nm), cnat(ns)))
        meta.append(d)
        res.count('class: ' + cls)
        res.count('identifier: ' + first)
        res.nontrivial.add(text)
        # the same case under the other ways of running a case: --act (assertions skipped) and --keep; the identifier is then on
        # stderr, nothing but validation may have happened either
        if not ctx.quick or rng.chance(0.4):
            for mode in ('--act', '--keep'):
                prm, nmm, nsm = run_case(text, [mode])
                dm = dict(d, argv='%s test.case' % mode)
                if prm.exception is not None:
                    res.prop_failures.append(Failure('property', dm, 'exception escaped MainProgram.execute: %r' % prm.exception))
                    continue
                firstm = prm.err.split('\n')[0]
                stm = stage_of_ident(firstm) or st
                if stage == 'DefSymbols' and firstm == 'VALIDATION_ERROR':
                    stm = 'DefSymbols'
                if stage == 'DefActParse' and firstm == 'SYNTAX_ERROR':
                    stm = 'DefActParse'
                identm = {'SYNTAX_ERROR': '(IdAccess ACC_SYNTAX_ERROR)' if stm != 'DefActParse' else '(IdFull SYNTAX_ERROR)'}.get(firstm) or IDENT.get(firstm)
                if identm is None or prm.out.strip() != '':
                    res.prop_failures.append(Failure('property', dict(dm, observed={'exit': prm.exit_code, 'stdout': prm.out[:200], 'stderr': prm.err[:200]}),
                                                     'under %s: no exit identifier on stderr, or something printed on stdout (action output / sandbox path)' % mode))
                    continue
                dm['observed'] = {'exit': prm.exit_code, 'identifier': firstm, 'markers': nmm, 'sandboxes_created': nsm}
                terms.append('(C03Case %s %s %s %s %s)' % (stm, cZ(prm.exit_code), identm, cnat(nmm), cnat(nsm)))
                meta.append(dm)
                res.count('mode: ' + mode)
        # the symbol command on the same case
        pr2, nm2, ns2 = run_case(text, ['symbol'])
        if pr2.exception is not None:
            res.prop_failures.append(Failure('property', dict(d, argv='symbol test.case'), 'exception escaped MainProgram.execute: %r' % pr2.exception))
            continue
        sterms.append('(C03Sym (Some %s) %s %s)' % (st, cnat(nm2), cnat(ns2)))
        smeta.append({'kind': 'symbol command', 'class': cls, 'where': desc, 'case': text,
                      'observed': {'exit': pr2.exit_code, 'markers': nm2, 'sandboxes_created': ns2}})
    uterms, umeta = run_suites(ctx, res, root, sbx, markers, mp, created)
    shutil.rmtree(root, ignore_errors=True)
    res.evaluations = len(terms) + len(sterms) + len(uterms)
    res.samples = [meta[0], meta[len(meta) // 2], smeta[-1]]
    imports = ['Model.Outcome', 'Model.Exec', 'Model.World', 'Spec.C01', 'Spec.C04']
    cb, pb, errs = common.run_shards('C03', imports, 'check_c03', terms, tag='cases')
    res.errors += errs
    for i in pb:
        res.prop_failures.append(Failure('property', meta[i], 'a defective case must give exit 65 with SYNTAX_ERROR / FILE_ACCESS_ERROR / '
                                                              'VALIDATION_ERROR, leave no marker (no instruction or action executed) and create no sandbox'))
    for i in cb:
        res.disagreements.append(Failure('correspondence', meta[i], 'model process (stage that detects this class of defect) differs from the real program'))
    cb, pb, errs = common.run_shards('C03', imports, 'check_c03_suite', uterms, tag='suite')
    res.errors += errs
    for i in pb:
        res.prop_failures.append(Failure('property', umeta[i], 'a case that is defective must be reported SYNTAX_ERROR / FILE_ACCESS_ERROR / '
                                                               'VALIDATION_ERROR by the suite, leave no marker and create no sandbox'))
    for i in cb:
        res.disagreements.append(Failure('correspondence', umeta[i], 'model process differs from the real program (case run in a suite)'))
    cb, pb, errs = common.run_shards('C03', imports, 'check_c03_sym', sterms, tag='symbol')
    res.errors += errs
    for i in pb:
        res.prop_failures.append(Failure('property', smeta[i], 'the symbol command executed something (marker written or sandbox created)'))
    for i in cb:
        res.disagreements.append(Failure('correspondence', smeta[i], 'model symbol_command differs from the real program'))


def replay(ctx, payload):
    print(json.dumps(payload.get('case'), indent=1, default=str))
    return 0
