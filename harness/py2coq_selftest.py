"""Differential self-test of the translator harness/py2coq.py and of the value universe coq/Lib/PyVal.v (both are in the
trusted base of the source tie): the TRANSLATED functions, evaluated by vm_compute on encoded random inputs, must give
the encoded result of the REAL Python functions run by CPython on the same inputs (an exception must give VErr).

usage: PYTHONPATH=harness:/repo/src /venv/bin/python harness/py2coq_selftest.py   (exit 0 = all agree)
"""
import enum
import importlib
import os
import re
import shutil
import subprocess
import sys

import common
import py2coq


def coq_of(tr, v):
    """a Python value as a pyval term; objects by the field order the translator derived from the class"""
    if v is None:
        return 'VNone'
    if isinstance(v, enum.Enum):
        return '(VEnum "%s.%s" "%s" (VInt (%d)))' % (type(v).__module__.rsplit('.', 1)[-1], type(v).__name__, v.name, v.value)
    if isinstance(v, bool):
        return '(VBool %s)' % ('true' if v else 'false')
    if isinstance(v, int):
        return '(VInt (%d))' % v
    if isinstance(v, str):
        return '(VStr "%s")' % v
    if type(v) is tuple:
        return '(VTuple [%s])' % '; '.join(coq_of(tr, x) for x in v)
    if type(v) is list:
        return '(VList [%s])' % '; '.join(coq_of(tr, x) for x in v)
    if type(v) in (set, frozenset):
        return '(VSet [%s])' % '; '.join(sorted(coq_of(tr, x) for x in v))
    mod = tr.mod(type(v).__module__)
    cls = [n for n in mod.tree.body if getattr(n, 'name', None) == type(v).__name__][0]
    names = [f for f, _ in tr.fields(mod, cls)[1]]
    vals = [v[int(f)] if f.isdigit() else getattr(v, f) for f in names]
    return '(VObj "%s.%s" [%s])' % (mod.short, cls.name, '; '.join(coq_of(tr, x) for x in vals))


def run_target(target, cases, wd):
    """cases: [(coq function name, [python args], python callable, out_positions)]"""
    tr = py2coq.translate(target)
    lines, expected = [], []
    for (fname, args, fn, outs) in cases:
        import copy
        a2 = copy.deepcopy(args) if outs else args  # only out parameters are mutated
        try:
            r = fn(*a2)
            exp = coq_of(tr, r) if not outs else '(VTuple [%s])' % '; '.join([coq_of(tr, r)] + [coq_of(tr, a2[i]) for i in outs])
        except Exception:
            exp = 'VErr'
        lines.append('Eval vm_compute in (%s%s).' % (fname, ''.join(' ' + coq_of(tr, a) for a in args)))
        lines.append('Eval vm_compute in (%s).' % exp)
    path = os.path.join(wd, 'selftest_%s.v' % target)
    with open(path, 'w') as f:
        f.write('From Coq Require Import ZArith List Bool String.\nFrom Exactly Require Import Lib.PyVal Gen.Src_%s.\n'
                'Import ListNotations.\nLocal Open Scope Z_scope.\nLocal Open Scope string_scope.\n'
                'Set Printing Width 100000. Set Printing Depth 100000.\n' % target + '\n'.join(lines) + '\n')
    p = subprocess.run(['timeout', '300', 'coqc', '-q', '-R', common.COQ, 'Exactly', '-w', '-notation-overridden,-deprecated', path],
                       stdout=subprocess.PIPE, stderr=subprocess.STDOUT, text=True, cwd=wd)
    if p.returncode != 0:
        return len(cases), ['coqc failed: ' + p.stdout[-500:]]
    vals = [' '.join(x.split()) for x in re.findall(r'^\s*=\s*(.*?)\n\s*:\s', p.stdout, re.S | re.M)]
    bad = []
    for k in range(len(cases)):
        if vals[2 * k] != vals[2 * k + 1]:
            bad.append('%s%r: translated %s, CPython %s' % (cases[k][0], cases[k][1], vals[2 * k][:200], vals[2 * k + 1][:200]))
    return len(cases), bad


def cases_line_nums(rng):
    rm = importlib.import_module(py2coq._LN + 'range_merge')
    re_ = importlib.import_module(py2coq._LN + 'range_expr')
    out = []
    seg = lambda: (rng.randint(0, 12), rng.randint(0, 12))
    for _ in range(150):
        p = [[rng.randint(1, 12) for _ in range(rng.below(3))], [seg() for _ in range(rng.below(6))],
             [rng.randint(1, 14) for _ in range(rng.below(3))]]
        out.append(('py_range_merge_merge', [rm.Partitioning(*p)], rm.merge, []))
    for _ in range(60):
        segs = sorted(seg() for _ in range(rng.below(6)))
        out.append(('py_range_merge__merge_segments', [segs], rm._merge_segments, []))
        out.append(('py_range_merge__merge_head_to', [rng.randint(0, 8), segs, [seg() for _ in range(rng.below(2))]], rm._merge_head_to, [2]))
        out.append(('py_range_merge__merge_tail_from', [rng.randint(0, 12), segs, [seg() for _ in range(rng.below(2))]], rm._merge_tail_from, [2]))
    mk = [lambda: re_.SingleLineRange(rng.randint(-9, 9)), lambda: re_.LowerLimitRange(rng.randint(-9, 9)),
          lambda: re_.UpperLimitRange(rng.randint(-9, 9)), lambda: re_.LowerAndUpperLimitRange(rng.randint(-9, 9), rng.randint(-9, 9))]
    for _ in range(60):
        out.append(('py_range_merge_translate_neg_to_non_neg', [[rng.choice(mk)() for _ in range(rng.below(5))], rng.randint(0, 9)],
                    rm.translate_neg_to_non_neg, []))
    return out


def cases_interval(rng):
    iv = importlib.import_module(py2coq._IV + 'w_inversion.intervals')
    cb = importlib.import_module(py2coq._IV + 'w_inversion.combinations')

    def obj(d):
        k = rng.below(7 if d > 0 else 5)
        if k == 0:
            return iv.Empty()
        if k == 1:
            return iv.Unlimited()
        if k == 2:
            return iv.UpperLimit(rng.randint(-6, 6))
        if k == 3:
            return iv.LowerLimit(rng.randint(-6, 6))
        if k == 4:
            a = rng.randint(-6, 6)
            return iv.Finite(a, a + rng.below(5))
        return iv.WithCustomInversion(obj(d - 1), obj(d - 1))
    out = []
    for _ in range(150):
        a, b = obj(3), obj(3)
        out.append(('py_combinations_union', [a, b], cb.union, []))
        out.append(('py_combinations_intersection', [a, b], cb.intersection, []))
        out.append(('py_attr_inversion', [a], lambda o: o.inversion, []))
        out.append(('py_attr_is_empty', [a], lambda o: o.is_empty, []))
        out.append(('py_attr_lower', [a], lambda o: o.lower, []))  # raises on empty intervals: VErr
    return out


def cases_outcome(rng):
    r = importlib.import_module('exactly_lib.execution.full_execution.result')
    er = importlib.import_module('exactly_lib.execution.result')
    ts = importlib.import_module('exactly_lib.test_case.test_case_status')
    ev = importlib.import_module('exactly_lib.processing.exit_values')
    pr = importlib.import_module('exactly_lib.processing.test_case_processing')
    out = [('py_result_translate_status', [m, p], r.translate_status, []) for m in ts.TestCaseStatus for p in [None] + list(er.ExecutionFailureStatus)]
    out += [('py_exit_values_from_full_result', [s], ev.from_full_result, []) for s in r.FullExeResultStatus]
    out += [('py_exit_values_from_access_error', [a], ev.from_access_error, []) for a in pr.AccessErrorType]
    return out


def cases_prog_verdict(rng):
    m = importlib.import_module(py2coq._IP + 'instruction_from_parts_for_executing_program')
    sh_ = 'py_instruction_from_parts_for_executing_program_result_to_sh'
    pfh_ = 'py_instruction_from_parts_for_executing_program_result_to_pfh'
    out = []
    for code in [0, 0, 1, 2, 3, 127, 255] + [rng.randint(0, 255) for _ in range(10)]:
        for stderr in (None, '', 'oops'):
            r = m.ExecutionResultAndStderr(code, stderr, None, None)
            out.append(('(fun r => py_attr_is_success (%s r))' % sh_, [r], lambda r: m.result_to_sh(r).is_success, []))
            out.append(('(fun r => py_attr_is_hard_error (%s r))' % sh_, [r], lambda r: m.result_to_sh(r).is_hard_error, []))
            out.append(('(fun r => py_attr_status (%s r))' % pfh_, [r], lambda r: m.result_to_pfh(r).status, []))
    return out


def cases_relativity(rng):
    pr = importlib.import_module('exactly_lib.tcfs.path_relativity')
    rv = importlib.import_module('exactly_lib.tcfs.relativity_validation')
    ro = importlib.import_module('exactly_lib.type_val_deps.types.path.rel_opts_configuration')
    opts = list(pr.RelOptionType)
    out = []
    for _ in range(80):
        spec = pr.SpecificPathRelativity(rng.choice(opts + [None]))
        acc = pr.PathRelativityVariants({o for o in opts if rng.below(2)}, bool(rng.below(2)))
        out.append(('py_relativity_validation_is_satisfied_by', [spec, acc], rv.is_satisfied_by, []))
    for o in opts + [None]:
        out.append(('(fun s => py_relativity_validation_is_satisfied_by s py_rel_opts_configuration_RELATIVITY_VARIANTS_FOR_FILE_CREATION)',
                    [pr.SpecificPathRelativity(o)], lambda s: rv.is_satisfied_by(s, ro.RELATIVITY_VARIANTS_FOR_FILE_CREATION), []))
    return out


def cases_exec_steps(rng):
    ps = importlib.import_module('exactly_lib.execution.impl.phase_step_executors')
    svh = importlib.import_module(py2coq._TR + 'svh')
    sh = importlib.import_module(py2coq._TR + 'sh')
    pfh = importlib.import_module(py2coq._TR + 'pfh')
    p = 'py_phase_step_executors_'
    return [(p + '_from_success_or_validation_error_or_hard_error', [x], ps._from_success_or_validation_error_or_hard_error, [])
            for x in (svh.new_svh_success(), svh.new_svh_validation_error('m'), svh.new_svh_hard_error('m'))] + [
        (p + '_from_success_or_hard_error', [x], ps._from_success_or_hard_error, []) for x in (sh.new_sh_success(), sh.new_sh_hard_error('m'))] + [
        (p + '_from_pass_or_fail_or_hard_error', [x], ps._from_pass_or_fail_or_hard_error, [])
        for x in (pfh.new_pfh_pass(), pfh.new_pfh_fail('m'), pfh.new_pfh_hard_error('m'))]


def cases_files_depth(rng):
    m = importlib.import_module('exactly_lib.impls.types.files_matcher.models')
    p = 'py_models__FilesGeneratorForRecursive_'
    out = []
    for _ in range(60):
        g = m._FilesGeneratorForRecursive(rng.choice([None, 0, 1, 2, 3]), rng.choice([None, 0, 1, 2, 3]))
        d = rng.randint(0, 4)
        out.append((p + '_is_within_min_depth_limit', [g, d], lambda g, d: g._is_within_min_depth_limit(d), []))
        out.append((p + '_is_at_max_depth_limit', [g, d], lambda g, d: g._is_at_max_depth_limit(d), []))
        out.append((p + '_is_within_max_depth_limit', [g, d], lambda g, d: g._is_within_max_depth_limit(d), []))
    return out


def cases_settings(rng):
    st = importlib.import_module('exactly_lib.test_case.phases.instruction_settings')
    sb = importlib.import_module('exactly_lib.test_case.phases.setup.settings_builder')
    im = importlib.import_module(py2coq._EN + 'impl')

    def setter(name):
        def f(s, x):
            getattr(s, name)(x)
            return s
        return f
    out = []
    for t0 in (None, 0, 7):
        for t1 in (None, 0, 60):
            out.append(('py_instruction_settings_InstructionSettings_set_timeout', [st.InstructionSettings(None, 'getter', t0), t1], setter('set_timeout'), []))
            out.append(('py_instruction_settings_InstructionSettings_set_environ', [st.InstructionSettings(None, 'getter', t0), t1], setter('set_environ'), []))
            out.append(('py_instruction_settings_InstructionSettings_timeout_in_seconds', [st.InstructionSettings(t1, 'getter', t0)], lambda s: s.timeout_in_seconds(), []))
    for phases in (frozenset([im.Phase.ACT]), frozenset([im.Phase.NON_ACT]), frozenset(im.Phase)):
        for sps in (None, sb.SetupSettingsBuilder(None, None)):
            out.append(('(fun e s c p => py_impl_TheInstructionEmbryo__resolve_applier e (py_impl_TheInstructionEmbryo__resolve_applier_factory s c p))',
                        [im.TheInstructionEmbryo(phases, None), st.InstructionSettings(None, 'getter', 3), 'ctor', sps],
                        lambda e, s, c, p: e._resolve_applier(im.TheInstructionEmbryo._resolve_applier_factory(s, c, p)), []))
    return out


def cases_act_source(rng):
    m = importlib.import_module('exactly_lib.processing.parse.act_phase_source_parser')
    alphabet = ['\\\\', '[', ']', ' ', 'a', 'b']
    return [('py_act_phase_source_parser__un_escape_at_beginning_of_line', [''.join(rng.choice(alphabet) for _ in range(rng.below(5)))],
             m._un_escape_at_beginning_of_line, []) for _ in range(80)]


def main():
    wd = os.path.join(common.WORK, 'py2coq_selftest')
    shutil.rmtree(wd, ignore_errors=True)
    os.makedirs(wd)
    py2coq.gen_all()
    rng = common.Rng(int(os.environ.get('VERIF_SEED', '20260926')))
    rc = 0
    for target, gen in (('LineNums', cases_line_nums), ('Interval', cases_interval), ('Outcome', cases_outcome),
                        ('ProgVerdict', cases_prog_verdict), ('Relativity', cases_relativity), ('ExecSteps', cases_exec_steps),
                        ('FilesDepth', cases_files_depth), ('Settings', cases_settings), ('ActSource', cases_act_source)):
        b = common.coq_build(targets=['Gen/Src_%s.vo' % target])
        if not b.ok:
            print(target, 'Gen does not compile', b.broken[:2])
            rc = 1
            continue
        n, bad = run_target(target, gen(rng), wd)
        print('%-9s %d evaluations, %d disagreements' % (target, n, len(bad)))
        for x in bad[:5]:
            print('   ', x)
        rc |= bool(bad)
    shutil.rmtree(wd, ignore_errors=True)
    return rc


if __name__ == '__main__':
    sys.exit(main())
