"""C07 — test-case file structure: phases, merging, inclusion, source locations.

Implementation side: real files in a scratch directory under ctx.work, parsed by
`exactly_lib.processing.parse.test_case_parser.new_parser(default setup).apply`, per phase the elements
(type, first line number, lines, file, inclusion chain) or the ParseError (class, phase, source, chain);
`ParseSource` driven through random operation sequences; block permutations of a document additionally
executed end to end through MainProgram.
Model side: Model/Doc.v through Spec/C07.v (`check_dcase`, `check_pcase`, `check_pscase`), by vm_compute.

Oracles (external to the anchored code) computed here for exactly the positions of a case:
 * instruction extent: the real InstructionParserForDictionaryOfInstructions of each phase applied to a fresh
   ParseSource of the text from every candidate position (line starts after white space, positions after a
   back-tick) -> number of whole lines consumed | error-at-line | error after n characters;
 * pathlib / OS: for every directory of the scratch tree and every token after `including`: str(Path(token)),
   readable?, resolved identity, directory of the (unresolved) path.
"""
import json
import os
import pathlib
import shutil
import tempfile

import common
from common import Failure, cN, cnat, cbool, clist, copt, ctext
import impl

EXPLANATION = ('Theorems over the Gallina model of parse_source.py and of the document reader (document_parser._Impl, '
               'parse_file/_include_files/_add_raw_doc, the element parsers of the phases) in Props/C07.v, and '
               'differential correspondence of that model with the running code on real files on disk; the property '
               'predicate compares the observed per-phase contents / error with the declarative reading (Spec.C07.flat_root) '
               'and checks every observed source location against the files independently of the reader.')
ASSUMPTIONS = [
    'instruction parsers (which lines an instruction occupies, where its syntax error is reported) are an oracle: '
    'computed by running the real per-phase instruction parser on the text from every candidate position',
    'pathlib normalisation of an inclusion path, readability and Path.resolve() are an oracle computed from the real file system',
    'characters are ASCII (str.isspace / \\w are modelled on ASCII only); files are read with universal newlines and contain no \\r',
    'an element of a phase other than [act] records its first line WITHOUT leading white space / description: the property '
    'predicate accepts a suffix of the actual line there (read as "the text it came from")',
    'the phase-order theorem assumes every block is self-contained (its last element ends inside the block)',
]
TRUSTED_EXTRA = ['harness/c07.py: renders the alphabet of line kinds to real syntax, canonicalises paths of the scratch '
                 'directory to relative names, converts the measured character extent of an instruction to whole lines '
                 '(fail-closed if it does not end at a line boundary)']

IMPORTS = ['Model.Doc', 'Spec.C07']
EXTRA_PROPS = ['C07C01']  # composition C07 -> C01 (Props/C07C01.v): built, assumption-checked and counted with C07
SECS = ['conf', 'setup', 'act', 'before-assert', 'assert', 'cleanup']
SEC_C = {'conf': 'SConf', 'setup': 'SSetup', 'act': 'SAct', 'before-assert': 'SBefore', 'assert': 'SAssert', 'cleanup': 'SCleanup'}
NONACT = [s for s in SECS if s != 'act']
ROOT = 'r.case'


# =============================================================================================
# Implementation access
# =============================================================================================
class Impl:
    def __init__(self):
        from exactly_lib.processing.parse import test_case_parser
        from exactly_lib.processing.parse import instruction_section_element_parser as isep
        from exactly_lib.processing.instruction_setup import TestCaseParsingSetup
        from exactly_lib.processing.parse.act_phase_source_parser import ActPhaseParser
        from exactly_lib.cli_default.program_modes.test_case import default_instructions_setup
        from exactly_lib.common import instruction_name_and_argument_splitter
        from exactly_lib.processing.test_case_processing import TestCaseFileReference
        from exactly_lib.section_document.parse_source import ParseSource
        from exactly_lib.section_document import exceptions
        from exactly_lib.section_document import section_element_parsing as sep
        from exactly_lib.section_document.source_location import FileSystemLocationInfo, FileLocationInfo
        from exactly_lib.test_case import phase_identifier
        from exactly_lib.definitions.entity import directives
        from exactly_lib.section_document.model import ElementType
        from exactly_lib.section_document import defs
        names = [p.section_name for p in phase_identifier.ALL]
        if names != SECS or phase_identifier.DEFAULT_PHASE.section_name != 'act':
            raise RuntimeError('tie broken: phase names of the running code are %r (default %r), the model has %r'
                               % (names, phase_identifier.DEFAULT_PHASE.section_name, SECS))
        if directives.INCLUDING_DIRECTIVE_INFO.singular_name != 'including' or defs.DESCRIPTION_DELIMITER != '`':
            raise RuntimeError('tie broken: directive keyword / description delimiter differ from the model')
        iset = default_instructions_setup.INSTRUCTIONS_SETUP
        splitter = instruction_name_and_argument_splitter.splitter
        self.parser = test_case_parser.new_parser(TestCaseParsingSetup(splitter, iset, ActPhaseParser()))
        self.iparsers = {
            'conf': isep.instruction_parser(splitter, iset.config_instruction_set),
            'setup': isep.instruction_parser(splitter, iset.setup_instruction_set),
            'before-assert': isep.instruction_parser(splitter, iset.before_assert_instruction_set),
            'assert': isep.instruction_parser(splitter, iset.assert_instruction_set),
            'cleanup': isep.instruction_parser(splitter, iset.cleanup_instruction_set),
        }
        self.TestCaseFileReference, self.ParseSource = TestCaseFileReference, ParseSource
        self.exc, self.sep = exceptions, sep
        self.fsl = FileSystemLocationInfo(FileLocationInfo(pathlib.Path('/')))
        self.kind = {ElementType.INSTRUCTION: 'KInstr', ElementType.COMMENT: 'KComment', ElementType.EMPTY: 'KEmpty'}
        self.memo = {}

    # ---- instruction oracle -------------------------------------------------------------------
    def iquery(self, sec, lines):
        """lines: tuple (rest of the first line, following lines...) -> ('ok', k) | ('line',) | ('at', nchars)"""
        key = (sec, lines)
        r = self.memo.get(key)
        if r is not None:
            return r
        text = '\n'.join(lines)
        src = self.ParseSource(text)
        try:
            self.iparsers[sec].parse(self.fsl, src)
            n = len(text) - len(src.remaining_source)
            consumed = text[:n]
            if n == 0 or not (n == len(text) or consumed.endswith('\n')):
                r = ('unaligned', n)
            else:
                r = ('ok', consumed.count('\n') + (0 if consumed.endswith('\n') else 1))
        except self.sep.UnrecognizedSectionElementSourceError:
            r = ('line',)
        except self.sep.RecognizedSectionElementSourceError:
            r = ('at', len(text) - len(src.remaining_source))
        if len(self.memo) > 200000:
            self.memo.clear()
        self.memo[key] = r
        return r

    # ---- parse ---------------------------------------------------------------------------------
    def parse(self, scratch, root_name):
        """-> ('ok', {sec: [element...]}) | ('source', sec, src, path, chain) | ('access', sec, path, chain) |
        ('crash', repr).  Paths are canonicalised: the absolute path of the root file -> its name.

        A source is recorded twice by the implementation: as `element.source` / `FileSourceError.source` and as the
        source of the location (`source_location_info` / last entry of `location_path`) - the latter is what error
        reports print.  The observation returned uses the LOCATION; if the direct attribute gives a different
        observation it is kept in self.last_alt and judged as a second observation of the same input.
        A missing line number / line text (None) is an observation of its own: ('crash', 'NoSourceLine')."""
        self.last_alt = None
        relative = root_name.startswith('rel:')
        rp = pathlib.Path(root_given(root_name)) if relative else pathlib.Path(scratch) / root_given(root_name)
        old_cwd = os.getcwd()
        os.chdir(scratch)
        try:
            return self._parse(scratch, rp)
        finally:
            os.chdir(old_cwd)

    def _parse(self, scratch, rp):

        def cpath(p):
            s = str(p)
            pre = str(scratch) + os.sep
            return s[len(pre):] if s.startswith(pre) else s

        class NoLine(Exception):
            pass

        def cseq(src):
            if src is None or src.first_line_number is None or src.lines is None or any(l is None for l in src.lines):
                raise NoLine()
            return (src.first_line_number, list(src.lines))

        def cloc(l):
            return (cpath(l.file_path_rel_referrer), cseq(l.source))

        try:
            tc = self.parser.apply(self.TestCaseFileReference(rp, pathlib.Path(scratch)), self.ParseSource(rp.read_text()))
        except self.exc.FileSourceError as e:
            try:
                lp = list(e.location_path)
                rest = (cpath(lp[-1].file_path_rel_referrer), [cloc(l) for l in lp[:-1]])
                by_location = ('source', e.maybe_section_name, cseq(lp[-1].source)) + rest
                direct = ('source', e.maybe_section_name, cseq(e.source)) + rest
            except NoLine:
                return ('crash', 'NoSourceLine')
            if direct != by_location:
                self.last_alt = direct
            return by_location
        except self.exc.FileAccessError as e:
            try:
                return ('access', e.maybe_section_name, cpath(e.erroneous_path), [cloc(l) for l in e.location_path])
            except NoLine:
                return ('crash', 'NoSourceLine')
        except Exception as e:  # an escaping exception is an observation
            return ('crash', type(e).__name__)
        out, alt = {}, {}
        try:
            for name, sc in zip(SECS, (tc.configuration_phase, tc.setup_phase, tc.act_phase, tc.before_assert_phase,
                                       tc.assert_phase, tc.cleanup_phase)):
                es, es2 = [], []
                for e in sc.elements:
                    sli = e.source_location_info
                    tail = (cpath(sli.file_path_rel_referrer), [cloc(l) for l in sli.file_inclusion_chain])
                    desc = e.instruction_info.description if e.instruction_info is not None else None
                    tail = tail + (desc,)
                    es.append((self.kind[e.element_type], cseq(sli.source_location_path.location.source)) + tail)
                    es2.append((self.kind[e.element_type], cseq(e.source)) + tail)
                out[name], alt[name] = es, es2
        except NoLine:
            return ('crash', 'NoSourceLine')
        if alt != out:
            self.last_alt = ('ok', alt)
        return ('ok', out)


# =============================================================================================
# Coq terms
# =============================================================================================
def c_lines(ls):
    return clist([ctext(l) for l in ls]) if ls else '(@nil text)'


def c_lineseq(src):
    return '(LineSeq %s %s)' % (cN(src[0]), c_lines(src[1]))


def c_loc(l):
    return '(Loc %s %s)' % (ctext(l[0]), c_lineseq(l[1]))


def c_chain(ch):
    return clist([c_loc(l) for l in ch]) if ch else '(@nil loc)'


def c_element(e):
    return '(Element %s %s %s %s %s)' % (e[0], c_lineseq(e[1]), ctext(e[2]), c_chain(e[3]), copt(e[4], ctext))


def c_sec_opt(name):
    if name is None:
        return 'None'
    return '(Some %s)' % SEC_C[name]  # KeyError = fail closed


def c_obs(o):
    if o[0] == 'ok':
        return '(OOk %s)' % clist([clist([c_element(e) for e in o[1][s]]) if o[1][s] else '(@nil element)' for s in SECS])
    if o[0] == 'source':
        return '(OErr (ESource %s %s %s %s))' % (c_sec_opt(o[1]), c_lineseq(o[2]), ctext(o[3]), c_chain(o[4]))
    if o[0] == 'access':
        return '(OErr (EAccess %s %s %s %s))' % (c_sec_opt(o[1]), ctext(o[2]), c_chain(o[3]), o[4])
    return '(OErr ECrash)'


def c_ires(r):
    if r[0] == 'ok':
        return '(IOk %s)' % cnat(r[1])
    if r[0] == 'line':
        return 'IErrLine'
    if r[0] == 'at':
        return '(IErrAt %s)' % cnat(r[1])
    raise RuntimeError('instruction parser stopped inside a line: %r' % (r,))


# =============================================================================================
# A case on disk: files {relative name: text}; symlinks {name: target}
# =============================================================================================
def split_py(text):
    return text.split('\n')


class Disk:
    def __init__(self, scratch, files, links=None):
        self.scratch = scratch
        self.files = files
        self.links = links or {}
        shutil.rmtree(scratch, ignore_errors=True)
        os.makedirs(scratch)
        for name, text in files.items():
            p = os.path.join(scratch, name)
            os.makedirs(os.path.dirname(p), exist_ok=True)
            with open(p, 'w', newline='') as f:
                f.write(text)
        for name, target in self.links.items():
            p = os.path.join(scratch, name)
            os.makedirs(os.path.dirname(p), exist_ok=True)
            os.symlink(target, p)
        # ways to name one file differently: sub/../F, ld/F (ld -> .), lr.case -> r.case
        os.makedirs(os.path.join(scratch, 'sub'), exist_ok=True)
        os.symlink('.', os.path.join(scratch, 'ld'))
        if ROOT in files and 'lr.case' not in self.links:
            os.symlink(ROOT, os.path.join(scratch, 'lr.case'))
        # identities
        self.fid = {}
        for name in sorted(files):
            self.fid[os.path.realpath(os.path.join(scratch, name))] = len(self.fid)
        self.dirs = {}
        for d, _, _ in sorted(os.walk(scratch)):
            self.dirs[os.path.realpath(d)] = len(self.dirs)
        self.fid_name = {v: os.path.relpath(k, os.path.realpath(scratch)) for k, v in self.fid.items()}

    def tokens(self):
        toks = set()
        for text in self.files.values():
            for line in split_py(text):
                parts = line.split()
                if len(parts) == 2 and parts[0] == 'including':
                    toks.add(parts[1])
        return sorted(toks)

    def fs_entry(self, d_abs, tok):
        """what pathlib and the OS answer for `including tok` in a file whose directory is d_abs"""
        display = str(pathlib.Path(pathlib.PurePosixPath(tok)))
        p = pathlib.Path(d_abs) / display
        try:
            with p.open():
                pass
        except OSError:
            return display, None
        fid = self.fid.get(str(p.resolve()))
        dir_id = self.dirs.get(os.path.realpath(str(p.parent)))
        if fid is None or dir_id is None:
            raise RuntimeError('file outside the scratch tree: %s' % p)
        return display, (fid, dir_id)

    def fs_table(self):
        rows = []
        for d_abs, d_id in sorted(self.dirs.items(), key=lambda kv: kv[1]):
            for tok in self.tokens():
                display, target = self.fs_entry(d_abs, tok)
                rows.append('(%s, %s, FsEntry %s %s)' % (cN(d_id), ctext(tok), ctext(display),
                                                         'None' if target is None else '(Some (%s, %s))' % (cN(target[0]), cN(target[1]))))
        return clist(rows) if rows else '(@nil (N * text * fsres))'

    def why(self, chain, root=ROOT):
        """Missing / Cyclic for an access error: can the file named by the last directive of the chain be opened?"""
        d = (pathlib.Path(self.scratch) / root_given(root)).parent
        p = None
        for (_path, (_ln, lines)) in chain:
            parts = lines[0].split()
            p = d / str(pathlib.Path(pathlib.PurePosixPath(parts[1])))
            d = p.parent
        try:
            with p.open():
                return 'Cyclic'
        except OSError:
            return 'Missing'

    def sections_named(self):
        import re
        s = set()
        for text in self.files.values():
            for line in split_py(text):
                m = re.match(r'[ \t]*\[([a-z-]+)\][ \t]*$', line)
                if m and m.group(1) in NONACT:
                    s.add(m.group(1))
        return sorted(s)


def candidate_positions(lines):
    """(index, column) where an instruction can start: after leading white space; after a back-tick + white space"""
    out = []
    for i, l in enumerate(lines):
        c = len(l) - len(l.lstrip())
        if c < len(l) or l.strip(' \t'):
            out.append((i, c))  # also the end of a line of odd white space (after a description it is "the instruction")
        for j, ch in enumerate(l):
            if ch == '`':
                rest = l[j + 1:]
                c2 = j + 1 + (len(rest) - len(rest.lstrip()))
                if c2 < len(l) and (i, c2) not in out:
                    out.append((i, c2))
    return out


def oracle_table(im, disk):
    rows = []
    secs = disk.sections_named()
    if not secs:
        return '(@nil (N * nat * nat * list (sec * ires)))'
    for fid, name in sorted(disk.fid_name.items()):
        lines = split_py(disk.files[name])
        for (i, c) in candidate_positions(lines):
            key_lines = tuple([lines[i][c:]] + lines[i + 1:])
            answers = ['(%s, %s)' % (SEC_C[s], c_ires(im.iquery(s, key_lines))) for s in secs]
            rows.append('(%s, %s, %s, %s)' % (cN(fid), cnat(i), cnat(c), clist(answers)))
    return clist(rows) if rows else '(@nil (N * nat * nat * list (sec * ires)))'


ROOT_NAMINGS = [ROOT, 'sub/../' + ROOT, 'ld/' + ROOT, 'lr.case', 'rel:' + ROOT, 'rel:sub/../' + ROOT, 'rel:ld/' + ROOT,
                'rel:lr.case', 'ld/ld/sub/../' + ROOT]


def root_given(root):
    """the path of the test case file as given to the parser: relative to the scratch dir; 'rel:' = given as a
    relative path with the scratch dir as current directory, otherwise as an absolute path"""
    return root[4:] if root.startswith('rel:') else root


def observe(im, disk, root=ROOT):
    o = im.parse(disk.scratch, root)
    if o[0] == 'access':
        o = o + (disk.why(o[3], root),)
    return o


def observe_alt(im):
    """the observation through the direct `source` attributes, when it differs from the one through the locations"""
    return im.last_alt


def dcase_term(im, disk, o, root=ROOT):
    files = clist(['(%s, %s)' % (cN(fid), c_lines(split_py(disk.files[name])))
                   for fid, name in sorted(disk.fid_name.items())])
    # the identity of the test case file goes through the same oracle as that of included files: its RESOLVED path;
    # inclusion paths in it are relative to the directory of the path AS GIVEN
    given = os.path.join(disk.scratch, root_given(root))
    root_fid = disk.fid[os.path.realpath(given)]
    root_dir = disk.dirs[os.path.realpath(os.path.dirname(given))]
    return '(DCase %s %s %s %s %s %s %s)' % (files, disk.fs_table(), oracle_table(im, disk), cN(root_fid),
                                             ctext(root_given(root)), cN(root_dir), c_obs(o))


# =============================================================================================
# Generator: documents over the alphabet of line kinds
# =============================================================================================
ODD_BREAKS = ['\x0b', '\x0c', '\x1c', '\x1d', '\x1e', '\x85', '\u2028', '\u2029']  # str.splitlines() boundaries other than \n, \r
INNER = ['x\u2028y', 'p\x0cq \x85 r', '[act]', '# not a comment', '', 'including x.xly', 'text', '`tick', '  [setup]  ', '\\[x]']
HEADER_FORMS = ['[%s]', '[%s]', '[%s]', ' [%s]', '[%s]  ', '\t[%s]\t']
UNKNOWN_HEADERS = ['[nophase]', '[Setup]', '[act2]', '[before assert]', '[a.b]', '[_]']
BAD_HEADERS = ['[setup', '[setup] x', '[ setup ]', '[]', '[-x]', '[setup]]', '[a b.]', '[', '[act] # c']
COMMENTS = ['# comment', '  # c', '#', '\t#x [setup]', '#including a.xly']
BLANKS = ['', ' ', '\t', '  \t']
ACT_LINES = ['$ echo ATCOUT', 'plain text', 'including a.xly', '`x`', '  indented', 'x [act]']
ODD_SPACE = ['\x0c', ' \x0c', '\x0b\t', '\x1c']  # str.isspace() but not [ \t]*: not a blank line for the syntax
ESCAPED = ['\\[setup]', '  \\[act]', '\\\\x', ' \\\\[x', '\\x', '\\[']


class Gen:
    def __init__(self, rng):
        self.rng = rng
        self.n = 0

    def name(self):
        self.n += 1
        return 'S%d' % self.n

    def one_line(self, ph):
        r = self.rng
        if ph == 'conf':
            return r.choice(['status = PASS', 'status = PASS ', 'actor = command line'])
        base = r.choice(['def string %s = v%d' % (self.name(), self.n), 'env E%d = x' % self.n, 'def string %s = "a b"' % self.name()])
        if r.chance(0.12):  # a character that str.splitlines() takes for a line break, inside a quoted string
            base = r.choice(["def string %s = 'h%si'", 'def string %s = "a%sb c"']) % (self.name(), r.choice(ODD_BREAKS))
        return r.choice(['', '', '', '  ', '\t']) + base + r.choice(['', '', '', '  '])

    def multi(self, ph, k=None, closed=True):
        r = self.rng
        k = r.randint(0, 3) if k is None else k
        inner = [r.choice(INNER) for _ in range(k)]
        if ph == 'conf':
            return [self.one_line(ph)]  # no instruction of [conf] takes a here-document
        return ['def string %s = <<EOF' % self.name()] + inner + (['EOF'] if closed else [])

    def described(self, ph):
        """an instruction with a description, in every legal layout: tight, padded inside the delimiters (leading /
        trailing / both, blanks and tabs), several lines, block form with the delimiters on lines of their own, empty;
        instruction on the line of the closing delimiter, on the next line, or after comment / empty lines; one-line
        and multi-line instructions"""
        r = self.rng
        body = [self.one_line(ph).lstrip()] if r.chance(0.7) else self.multi(ph)
        inner = r.choice(['d', 'a description', ' d ', '  d', 'd  ', '\td\t', ' two  words ', '', ' ', 'first\nsecond',
                          ' first \n second ', '\ntext\n', '\n  text\n  more\n  ', 'with\n[act]\ninside', 'x\n\n# c\ny ',
                          '\n', ' \u2028d\x0c'])
        dlines = ('`' + inner + '`').split('\n')
        dlines[0] = r.choice(['', '', '  ', '\t']) + dlines[0]
        place = r.below(4)
        if place == 0:
            return dlines[:-1] + [dlines[-1] + r.choice([' ', '   ', '\t', '']) + body[0]] + body[1:]
        if place == 1:
            return dlines[:-1] + [dlines[-1] + r.choice(['', '  '])] + body
        if place == 2:
            return dlines + r.choice([[''], ['# c'], ['', '# c', ' ']]) + [r.choice(['', '  ']) + body[0]] + body[1:]
        return dlines + body

    def symbol_lines(self, sym, ph, inc_tokens):
        """-> (lines, new phase)"""
        r = self.rng
        k = sym[0]
        if k == 'H':
            return [r.choice(HEADER_FORMS) % sym[1]], sym[1]
        if k == 'HU':
            return [r.choice(UNKNOWN_HEADERS)], ph
        if k == 'HB':
            return [r.choice(BAD_HEADERS)], ph
        if k == 'C':
            return [r.choice(COMMENTS)], ph
        if k == 'B':
            return [r.choice(BLANKS)], ph
        if k == 'I1':
            return [self.one_line(ph)], ph
        if k == 'IM':
            return self.multi(ph), ph
        if k == 'ID':
            return self.described(ph), ph
        if k == 'A':
            return [r.choice(ACT_LINES)], ph
        if k == 'E':
            return [r.choice(ESCAPED)], ph
        if k == 'WS':
            return [r.choice(ODD_SPACE)], ph
        if k == 'INC':
            tok = r.choice(inc_tokens) if inc_tokens else 'missing.xly'
            return [r.choice(['including %s', 'including %s', '  including   %s  ', 'including\t%s']) % tok], ph
        if k == 'X':
            j = r.below(9)
            if j == 8:
                # an argument error reported after part of a continuation line was consumed (truncated last line)
                return ['file f%d =' % self.n, ' -contents-of -rel-xx y'], ph
            if j == 0:
                return ['no-such-instruction arg'], ph
            if j == 1:
                return ['including'], ph
            if j == 2:
                return ['including a.xly b.xly'], ph
            if j == 3:
                return ['`unterminated description'], ph
            if j == 4:
                return self.multi(ph, closed=False), ph
            if j == 5:
                return ['def string %s = a b' % self.name()], ph
            if j == 6:
                return ['`d`'], ph
            return ['`d`', '', '# only comments follow'], ph
        raise ValueError(sym)

    def symbols(self):
        return [(('H', s), 3) for s in SECS] + [(('HU',), 1), (('HB',), 1), (('C',), 4), (('B',), 4), (('I1',), 10),
                                                (('IM',), 4), (('ID',), 4), (('A',), 3), (('E',), 2), (('INC',), 5), (('X',), 2), (('WS',), 1)]

    def document(self, n_syms, inc_tokens, start_ph='act', error_free=False):
        r = self.rng
        syms = self.symbols()
        if error_free:
            syms = [(s, w) for s, w in syms if s[0] not in ('HU', 'HB', 'X')]
        ph = start_ph
        lines = []
        used = []
        for _ in range(n_syms):
            sym = r.weighted(syms)
            if sym[0] == 'H' and sym[1] == 'conf' and r.chance(0.6):
                sym = ('H', r.choice(['setup', 'assert', 'cleanup', 'before-assert']))
            used.append(sym[0])
            ls, ph = self.symbol_lines(sym, ph, inc_tokens)
            lines += ls
        return lines, used


def render(lines, rng):
    """file text: usually terminated by a newline"""
    if not lines:
        return rng.choice(['', '', '\n'])
    t = '\n'.join(lines)
    q = rng.below(20)
    if q < 16:
        return t + '\n'
    if q < 18:
        return t
    return t + '\n\n'


def rel_token(from_name, to_name, rng):
    """a path token naming file to_name from the directory of file from_name, in one of several spellings"""
    fd = os.path.dirname(from_name)
    tok = os.path.relpath(to_name, fd or '.')
    q = rng.below(10)
    if q == 0:
        return './' + tok
    if q == 1 and not tok.startswith('..'):
        return ('sub/../' if fd == '' else '../sub/') + tok
    if q == 2 and fd == '':
        return 'ld/' + tok
    if q == 3 and to_name == ROOT:
        return os.path.relpath('lr.case', fd or '.')
    return tok


def gen_files(g, rng, quick):
    """a root document and 0..3 included files with an arbitrary inclusion graph (self / mutual cycles, diamonds,
    a sub-directory, a symbolic link, a missing file)"""
    n_inc = rng.weighted([(0, 4), (1, 3), (2, 3), (3, 2)])
    names = [ROOT] + ['a.xly', 'b.xly', 'sub/c.xly'][:n_inc]
    links = {}
    if n_inc >= 1 and rng.chance(0.15):
        links['l.xly'] = 'a.xly'
    files = {}
    used_all = []
    for name in names:
        targets = [t for t in names if t != ROOT or rng.chance(0.15)] + list(links)
        if rng.chance(0.1):
            targets.append('missing.xly')
        if name != ROOT and rng.chance(0.75):
            # mostly acyclic: only later files
            later = names[names.index(name) + 1:]
            targets = later if later else []
        toks = [rel_token(name, t, rng) for t in targets]
        n_syms = rng.randint(0, 8 if name == ROOT else 4)
        lines, used = g.document(n_syms, toks, start_ph='act' if name == ROOT else rng.choice(NONACT),
                                 error_free=rng.chance(0.6))
        if name == ROOT and n_inc and 'INC' not in used and rng.chance(0.8):
            # make inclusion likely to be reached: a non-act header and a directive
            lines = ['[%s]' % rng.choice(['setup', 'assert', 'cleanup'])] + ['including ' + rel_token(name, names[1], rng)] + lines
            used = used + ['INC', 'H']
        files[name] = render(lines, rng)
        used_all += used
    return files, links, used_all


# ---- exhaustive small documents over one canonical rendering per symbol -------------------------
CANON = [
    ['[conf]'], ['[setup]'], ['[act]'], ['[before-assert]'], ['[assert]'], ['[cleanup]'],
    ['[nophase]'], ['[setup'], ['# c'], [''], ['def string A = v'], ['  env B = x  '],
    ['def string C = <<EOF', '[act]', 'EOF'], ['`d` def string D = v'], ['`d', '[setup]', 'e`', '', 'def string F = v'],
    ['plain'], ['\\[act]'], ['including a.xly'], ['including r.case'], ['including missing.xly'], ['no-such x'],
    ['including'], ['`d`'], ['def string G = <<EOF', 'x'], ['status = PASS'],
]
CANON_INC = '# in a\ndef string IA = 1\n[cleanup]\ndef string IC = 2\n'


def exhaustive_docs(max_len):
    docs = [[]]
    frontier = [[]]
    for _ in range(max_len):
        frontier = [d + [s] for d in frontier for s in range(len(CANON))]
        docs += frontier
    return docs


# ---- malformed inclusion directives ----------------------------------------------------------------
BAD_DIRECTIVES = ['including', 'including a.xly b.xly', "including 'unterminated", 'including a.xly b.xly c.xly',
                  '  including  ', 'including "a.xly', 'including\ta.xly\tb.xly']


def malformed_directive_cases():
    """every phase other than [act] x malformed `including` x (in the middle | last line with | without final newline)
    x (in the test case file | in an included file); the error must name the directive's own line, text, file, chain"""
    for ph in NONACT:
        ok = 'status = PASS' if ph == 'conf' else 'def string OK = v'
        for d in BAD_DIRECTIVES:
            for pos in range(5):
                if pos == 0:
                    body = [ok, d, ok, '# c']
                    end = '\n'
                elif pos == 1:
                    body = [ok, d, '[%s]' % ph, ok]
                    end = '\n'
                elif pos == 2:
                    body = [d]
                    end = '\n'
                elif pos == 3:
                    body = [ok, '', d]
                    end = ''
                else:
                    body = [d, '']
                    end = '\n'
                yield {ROOT: '[%s]\n' % ph + '\n'.join(body) + end}
                yield {ROOT: '# c\n[%s]\n%s\nincluding inc.xly\n%s\n' % (ph, ok, ok), 'inc.xly': '\n'.join(body) + end}


# ---- printed reports: chain of "FILE, line N" entries --------------------------------------------------
REPORT_KINDS = [
    ('syntax', 'setup', ['no-such-instruction arg']),
    ('fail', 'assert', ['exit-code == 72']),
    ('fail', 'assert', ["stdout equals 'h\u2028i'"]),
    ('fail', 'assert', ['stdout equals <<EOF', 'x\x0cy', 'EOF']),
    ('hard', 'setup', ['$ exit 1']),
    ('validation', 'setup', ['file f.txt = -contents-of nonexisting.txt']),
    ('syntax', 'cleanup', ["def string S = 'a\x85b' superfluous"]),
]
REPORT_IDENT = {'syntax': 'SYNTAX_ERROR', 'fail': 'FAIL', 'hard': 'HARD_ERROR', 'validation': 'VALIDATION_ERROR'}
INCLUDE_STEPS = ['%s', '%s', 'lib/%s', 'lib/deeper/%s', '../sib/%s', 'a/../b/%s']


def norm_comps(comps):
    out = []
    for c in comps:
        if c == '..':
            out = out[:-1]
        elif c != '.':
            out.append(c)
    return out


def report_scenario(rng):
    """(files {normalised path: text}, case path as given, links [(path as written, line)], kind, source lines)"""
    kind, phase, bad = rng.choice(REPORT_KINDS)
    cdir = rng.choice([[], ['cases'], ['x', 'cases'], ['cases']])
    names = ['one.xly', 'two.xly', 'three.xly'][:rng.randint(1, 3) if rng.chance(0.25) else rng.randint(2, 3)]
    case_comps = cdir + ['main.case']
    files = {}
    links = []
    cur_dir = list(cdir)
    written = case_comps          # path of the current file as written in the directive (the case: as given)
    cur_file = case_comps         # normalised path of the current file
    for k, name in enumerate(names + [None]):
        pre = [rng.choice(['# c', '', '# another comment']) for _ in range(rng.randint(0, 2))]
        if k == 0:
            head = ['[act]', '$ echo hi', '[%s]' % (phase if phase != 'assert' else 'setup')]
        else:
            head = []
        if name is None:
            body = head + pre + (['[%s]' % phase] if phase == 'assert' else []) + bad
            links.append((written, len(body) - len(bad) + 1))
            files['/'.join(cur_file)] = '\n'.join(body) + '\n'
            break
        while True:
            step = rng.choice(INCLUDE_STEPS) % name
            nxt = norm_comps(cur_dir + step.split('/'))
            if not step.startswith('..') or cur_dir:
                break
        body = head + pre + ['including ' + step] + [rng.choice(['', '# after']) for _ in range(rng.randint(0, 1))]
        links.append((written, len(head) + len(pre) + 1))
        files['/'.join(cur_file)] = '\n'.join(body) + '\n'
        written = step.split('/')
        # the directory of the next file, lexically as the renderer does it; its real place (no symlinks): normalised
        cur_dir = norm_comps(cur_dir + step.split('/'))[:-1]
        cur_file = nxt
    # intermediate directories named in a/../b must exist
    extra_dirs = set()
    d = list(cdir)
    for (w, _ln) in links[1:]:
        for i in range(1, len(w)):
            extra_dirs.add('/'.join(norm_comps(d + w[:i])))
            if w[i - 1] != '..':
                extra_dirs.add('/'.join(d + [c for c in w[:i]])) if '..' not in w[:i] else None
        d = norm_comps(d + w)[:-1]
    return files, '/'.join(case_comps), links, kind, bad, sorted(x for x in extra_dirs if x)


LOC_RE = None


def report_entries(err):
    """[(path, line number, [source lines printed below it])] of a printed report"""
    import re
    global LOC_RE
    if LOC_RE is None:
        LOC_RE = re.compile(r'^(\S.*), line (\d+)$')
    lines = err.split('\n')
    out = []
    i = 0
    while i < len(lines):
        m = LOC_RE.match(lines[i])
        if m:
            j = i + 1
            while j < len(lines) and lines[j] == '':
                j += 1
            src = []
            while j < len(lines) and lines[j].startswith('  '):
                src.append(lines[j][2:])
                j += 1
            out.append((m.group(1), int(m.group(2)), src))
        i += 1
    return out


def c_path(comps):
    return clist([ctext(c) for c in comps]) if comps else '(@nil text)'


def rcase_term(files, links, entries):
    fs = clist(['(%s, %s)' % (c_path(name.split('/')), c_lines(split_py(text))) for name, text in sorted(files.items())])
    ls = clist(['(%s, %s)' % (c_path(w), cN(n)) for w, n in links])
    obs = clist(['(%s, %s, %s)' % (c_path(p.split('/')), cN(n), c_lines(src)) for p, n, src in entries]) if entries \
        else '(@nil (path * N * list text))'
    return '(RCase %s %s %s)' % (fs, ls, obs)


# ---- phase blocks -----------------------------------------------------------------------------------
def closed_body(g, rng, s, inc_tokens, n):
    """lines of n self-contained, error-free symbols of phase s"""
    body = []
    for _ in range(n):
        if s == 'act':
            body += [rng.choice(ACT_LINES + ESCAPED + COMMENTS + BLANKS)]
            continue
        k = rng.weighted([('C', 2), ('B', 2), ('I1', 6), ('IM', 2), ('ID', 2),
                          ('INC', 2 if inc_tokens and s != 'conf' else 0), ('AS', 2 if s == 'assert' else 0)])
        if k == 'AS':
            body += rng.choice(['exit-code == 0', 'stdout equals <<EOF\nATCOUT\nEOF', 'exit-code == 1']).split('\n')
        else:
            body += g.symbol_lines((k,), s, inc_tokens)[0]
    return body


def closed_include(g, rng):
    """an included file without errors wherever (outside [conf] and [act]) it is included, and without lines that
    look like phase headers (a file that declares phases itself makes the including block contribute to other
    phases: the phase-order theorem excludes that, see Props/C07.v)"""
    lines = []
    for _ in range(rng.randint(1, 4)):
        while True:
            ls = closed_body(g, rng, 'setup', [], 1)
            if not any(l.lstrip(' \t').startswith('[') for l in ls):
                break
        lines += ls
    return lines


def gen_blocks(g, rng, inc_tokens, runnable):
    """blocks (sec, header, body) whose bodies are self-contained"""
    n = rng.randint(2, 5)
    blocks = []
    have_act = False
    for _ in range(n):
        s = rng.choice(['setup', 'act', 'before-assert', 'assert', 'cleanup', 'setup', 'assert'] + ([] if runnable else ['conf']))
        if runnable and s == 'act':
            if have_act:
                s = 'assert'
            have_act = True
        header = rng.choice(HEADER_FORMS) % s
        if s == 'act' and runnable:
            body = ['$ echo ATCOUT']
        else:
            body = closed_body(g, rng, s, inc_tokens, rng.randint(0, 3))
        blocks.append((s, header, body))
    if runnable and not have_act:
        blocks.append(('act', '[act]', ['$ echo ATCOUT']))
    return blocks


def permute_blocks(blocks, rng):
    """a random interleaving that keeps the relative order of the blocks of each phase"""
    labels = [b[0] for b in blocks]
    rng.shuffle(labels)
    queues = {}
    for b in blocks:
        queues.setdefault(b[0], []).append(b)
    return [queues[l].pop(0) for l in labels]


def blocks_text(blocks):
    return ''.join(h + '\n' + ''.join(l + '\n' for l in body) for (_s, h, body) in blocks)


def c_blocks(blocks):
    return clist(['(Block %s %s %s)' % (SEC_C[s], ctext(h), c_lines(body)) for (s, h, body) in blocks])


# ---- ParseSource --------------------------------------------------------------------------------------
PS_ALPHABET = 'ab \t\n\n\n[#`'


def gen_pscase(rng):
    n = rng.randint(0, 14)
    s = ''.join(rng.choice(PS_ALPHABET) for _ in range(n))
    ops = []
    for _ in range(rng.randint(1, 7)):
        q = rng.below(10)
        if q < 3:
            ops.append(('line',))
        elif q < 7:
            ops.append(('consume', rng.randint(0, 6)))
        elif q < 9:
            ops.append(('part', rng.randint(0, 3)))
        else:
            ops.append(('space',))
    return s, ops


def run_ps(ParseSource, s, ops):
    p = ParseSource(s)
    obs = []
    for op in ops:
        try:
            if op[0] == 'line':
                p.consume_current_line()
            elif op[0] == 'consume':
                p.consume(op[1])
            elif op[0] == 'part':
                p.consume_part_of_current_line(op[1])
            else:
                p.consume_initial_space_on_current_line()
        except Exception:
            obs.append(None)
            break
        if p.has_current_line:
            obs.append((p.current_line_number, p.column_index, p.current_line_text, p.remaining_source, p.is_at_eof))
        else:
            obs.append((None, p.column_index, '', p.remaining_source, p.is_at_eof))
    return obs


def pscase_term(s, ops, obs):
    def c_op(op):
        return {'line': 'OpLine', 'space': 'OpSpace'}.get(op[0]) or '(%s %s)' % ('OpConsume' if op[0] == 'consume' else 'OpPart', cnat(op[1]))

    def c_o(o):
        if o is None:
            return 'None'
        return '(Some (PsObs %s %s %s %s %s))' % (copt(o[0], cN), cN(o[1]), ctext(o[2]), ctext(o[3]), cbool(o[4]))
    return '(PsCase %s %s %s)' % (ctext(s), clist([c_op(o) for o in ops]), clist([c_o(o) for o in obs]))


# ---- line classification -----------------------------------------------------------------------------------
H_ALPHABET = '[]]ab_-. \t1#\\`\x0c[setup'


def gen_hline(rng):
    q = rng.below(10)
    if q < 2:
        inner = rng.choice(SECS + ['a b', 'x-y', 'a.b', 'a ', ' a', 'a.', '_', 'a#b', 'A1', '', 'a]b'])
        return rng.choice(['', ' ', '\t']) + '[' + inner + rng.choice([']', ']', '] ', ']x', '', ']]'])
    return ''.join(rng.choice(H_ALPHABET) for _ in range(rng.randint(0, 9)))


def observe_hline(line):
    from exactly_lib.section_document import syntax
    from exactly_lib.processing.parse import act_phase_source_parser as ap
    header = syntax.is_section_header_line(line)
    name = None
    if header:
        try:
            name = syntax.extract_section_name_from_section_line(line)
        except ValueError:
            name = None
        if name not in SECS:
            name = None  # malformed and unknown headers are both errors; only a phase name is compared
    return (syntax.is_empty_line(line), syntax.is_comment_line(line), header, name, ap._un_escape(line), line.split())


def hcase_term(line, o):
    return '(HCase %s %s %s %s %s %s %s)' % (ctext(line), cbool(o[0]), cbool(o[1]), cbool(o[2]), copt(o[3], ctext), ctext(o[4]),
                                             c_lines(o[5]))


# =============================================================================================
# Known findings
# =============================================================================================
def finding_for(files, o):
    """no open finding of C07 (FIX-C07-1, commit 79a014d, repaired the only one; its input stays in the corpus)"""
    return None


def decode_coq(term):
    """make a printed Coq term readable: lists of code points -> Python string literals"""
    import re

    def rep(m):
        return repr(''.join(chr(int(x)) for x in m.group(1).split(';')))
    return re.sub(r'\[((?:\d+\s*;\s*)*\d+)\]', rep, term.replace('%N', '')).replace('[]', "''")


# =============================================================================================
# The run
# =============================================================================================
def is_nontrivial(files, o):
    """>= 2 different valid phase headers, or an inclusion directive that was followed, or an element of several lines"""
    import re
    hs = set()
    for t in files.values():
        for l in t.split('\n'):
            m = re.match(r'[ \t]*\[([a-z-]+)\][ \t]*$', l)
            if m and m.group(1) in SECS:
                hs.add(m.group(1))
    if len(hs) >= 2:
        return True
    if o[0] == 'ok':
        for es in o[1].values():
            for e in es:
                if e[3] or len(e[1][1]) > 1:
                    return True
    if o[0] == 'source' and o[4]:
        return True
    if o[0] == 'access' and len(o[3]) > 1:
        return True
    return False


def describe(files, links, o, root=ROOT):
    d = {'files': files, 'symlinks': links, 'root': root,
         'note': "root 'rel:P' = test case given as relative path P with the directory of the files as cwd; ld -> . ; lr.case -> r.case"}
    if o[0] == 'ok':
        d['observed'] = {s: [{'type': e[0], 'first_line': e[1][0], 'lines': e[1][1], 'file': e[2],
                              'included_via': [[l[0], l[1][0], l[1][1][0]] for l in e[3]], 'description': e[4]} for e in es]
                         for s, es in o[1].items()}
    else:
        d['observed_error'] = list(o)
    return d


def run(ctx, res, scale=1):
    rng = ctx.rng
    quick = ctx.quick
    n_random = (2000 if quick else 25000) * scale
    ex_len = 2 if quick else 3
    n_perm = (250 if quick else 1500) * scale
    n_ps = (3000 if quick else 30000) * scale
    scratch_root = tempfile.mkdtemp(prefix='c07-', dir=ctx.work)
    scratch = os.path.join(scratch_root, 'd')
    im = Impl()
    g = Gen(rng)
    res.rule = ('documents over the alphabet {6 phase headers (4 spacings), unknown header, malformed header, comment, blank, '
                'one-line instruction, here-document instruction with 0-3 inner lines that look like headers/comments/'
                'directives, instruction with description (6 layouts incl. multi-line description containing a header), act '
                'source line, escaped header line, including directive (4 spellings of the path, sub-directory, symlink), 8 '
                'kinds of erroneous lines}; all documents of <= %d symbols over one canonical rendering per symbol + seeded '
                'random documents of 0-8 symbols with 0-3 included files (self/mutual cycles, diamonds, missing); block '
                'permutations executed end to end; ParseSource operation sequences.  non-trivial := >= 2 different valid '
                'phase headers, or an element that came from an included file, or an element of > 1 line, or an error inside '
                'an included file; distinct := distinct file contents' % ex_len)

    dterms, dmeta = [], []

    counter = [0]

    def add_case(files, links, tag, root=None):
        if root is None:  # rotate through the ways of naming the test case file
            root = ROOT_NAMINGS[counter[0] % len(ROOT_NAMINGS)]
            counter[0] += 1
        disk = Disk(scratch, files, links)
        o = observe(im, disk, root)
        dterms.append(dcase_term(im, disk, o, root))
        dmeta.append((files, links, o, root))
        res.count('test case file named as: ' + root)
        o2 = observe_alt(im)
        if o2 is not None:
            dterms.append(dcase_term(im, disk, o2, root))
            dmeta.append((files, links, o2, root))
            res.count('second observation: source attribute differs from the source of the location')
        res.count(tag)
        res.count('outcome: ' + (o[0] if o[0] != 'access' else 'access/' + o[4]))
        if is_nontrivial(files, o):
            res.nontrivial.add(tuple(sorted(files.items())))
        return disk, o

    # corpus
    cdir = os.path.join(common.VERIF, 'harness', 'corpus', 'C07')
    if os.path.isdir(cdir):
        for fn in sorted(os.listdir(cdir)):
            if fn.endswith('.json'):
                c = json.load(open(os.path.join(cdir, fn)))
                add_case(c['files'], c.get('symlinks', {}), 'corpus', c.get('root', ROOT))
    # exhaustive
    for doc in exhaustive_docs(ex_len):
        lines = [l for s in doc for l in CANON[s]]
        add_case({ROOT: ''.join(l + '\n' for l in lines), 'a.xly': CANON_INC}, {}, 'exhaustive documents')
        if 0 < len(doc) <= 2:
            add_case({ROOT: '\n'.join(lines), 'a.xly': CANON_INC}, {}, 'exhaustive documents without final newline')
    # malformed directives, systematically
    for files in malformed_directive_cases():
        add_case(files, {}, 'malformed inclusion directives (phase x form x position x root/included)')
    # random
    for _ in range(n_random):
        files, links, used = gen_files(g, rng, quick)
        add_case(files, links, 'random documents')
        res.count('files per case: %d' % len(files))
    # permutations
    pterms, pmeta = [], []
    mp = impl.main_program(scratch_root)
    for j in range(n_perm):
        runnable = rng.chance(0.5)
        inc = {}
        inc_tokens = []
        if rng.chance(0.4):
            inc = {'a.xly': render(closed_include(g, rng), rng)}
            inc_tokens = ['a.xly']
        blocks = gen_blocks(g, rng, inc_tokens, runnable)
        blocks2 = permute_blocks(blocks, rng)
        files1 = dict(inc)
        files1[ROOT] = blocks_text(blocks)
        files2 = dict(inc)
        files2[ROOT] = blocks_text(blocks2)
        disk = Disk(scratch, files1)
        o1 = observe(im, disk)
        t1 = dcase_term(im, disk, o1)
        r1 = impl.run_main(mp, [ROOT], scratch, scratch_root)
        disk = Disk(scratch, files2)
        o2 = observe(im, disk)
        t2 = dcase_term(im, disk, o2)
        r2 = impl.run_main(mp, [ROOT], scratch, scratch_root)
        v1 = (r1.exit_code if r1.exit_code is not None else 999, r1.out)
        v2 = (r2.exit_code if r2.exit_code is not None else 999, r2.out)
        if o1[0] != 'ok' and o2[0] != 'ok':
            res.count('block documents skipped: error in both orders')
            continue
        pterms.append('(PCase %s %s %s %s (%s, %s) (%s, %s))' % (c_blocks(blocks), c_blocks(blocks2), t1, t2,
                                                                  cN(v1[0]), ctext(v1[1]), cN(v2[0]), ctext(v2[1])))
        pmeta.append((files1, files2, o1, o2, v1, v2))
        res.count('block permutations')
        res.count('permutation verdict: exit %s' % v1[0])
        if blocks != blocks2:
            res.nontrivial.add(('perm', files1[ROOT], files2[ROOT]))
        for sub in os.listdir(scratch_root):
            if sub.startswith('exactly-'):
                shutil.rmtree(os.path.join(scratch_root, sub), ignore_errors=True)
    # printed reports
    rterms, rmeta = [], []
    for _ in range((150 if quick else 1200) * scale):
        files, case_rel, links, kind, bad, extra_dirs = report_scenario(rng)
        add_case(files, {}, 'report scenarios, parsed (case in a sub directory, includes in sibling / nested directories)',
                 root='rel:' + case_rel)
        disk = Disk(scratch, files)
        for dname in extra_dirs:
            os.makedirs(os.path.join(scratch, dname), exist_ok=True)
        r = impl.run_main(mp, [case_rel], scratch, scratch_root)
        entries = report_entries(r.err)
        if r.out.split('\n')[0] != REPORT_IDENT[kind] or r.exception is not None:
            entries = []  # not the expected kind of outcome: judged as a report without chain (fails the predicate)
        rterms.append(rcase_term(files, links, entries))
        rmeta.append((files, case_rel, links, kind, r.exit_code, r.err))
        res.count('printed reports: ' + kind)
        res.count('printed reports: inclusion depth %d' % (len(links) - 1))
        if len(links) >= 3:
            res.nontrivial.add(('report', tuple(sorted(files.items()))))
        for sub in os.listdir(scratch_root):
            if sub.startswith('exactly-'):
                shutil.rmtree(os.path.join(scratch_root, sub), ignore_errors=True)
    # ParseSource
    psterms, psmeta = [], []
    for _ in range(n_ps):
        s, ops = gen_pscase(rng)
        obs = run_ps(im.ParseSource, s, ops)
        psterms.append(pscase_term(s, ops, obs))
        psmeta.append((s, ops, obs))
        res.count('ParseSource operation sequences')
        if s.count('\n') >= 2 and len(obs) >= 3 and obs[-1] is not None:
            res.nontrivial.add(('ps', s, tuple(ops)))
    # line classification
    hterms, hmeta = [], []
    for _ in range((2000 if quick else 20000) * scale):
        line = gen_hline(rng)
        o = observe_hline(line)
        hterms.append(hcase_term(line, o))
        hmeta.append((line, o))
        res.count('line classification cases')
    shutil.rmtree(scratch_root, ignore_errors=True)
    import time
    res.extra['seconds_generating_and_running_implementation'] = round(time.time() - ctx.t0, 1)

    res.evaluations = len(dterms) + len(pterms) + len(psterms) + len(hterms) + len(rterms)
    res.samples = [describe(*dmeta[min(len(dmeta) - 1, 700 + k)]) for k in range(3)] + \
                  [{'blocks': pmeta[0][0][ROOT], 'permuted': pmeta[0][1][ROOT], 'verdicts': [pmeta[0][4][0], pmeta[0][5][0]]}] if pmeta else []

    cb, pb, errs = common.run_shards('C07', IMPORTS, 'check_dcase', dterms, shard_size=120, tag='dcases')
    res.errors += errs
    expected = {}
    if pb:
        outs, _raw = common.coq_eval_terms('C07', IMPORTS, ['spec_obs %s' % dterms[i] for i in pb[:5]], tag='expected')
        for i, t in zip(pb[:5], outs or []):
            expected[i] = decode_coq(t)
    for i in pb:
        files, links, o, root = dmeta[i]
        case = describe(files, links, o, root)
        if i in expected:
            case['expected_by_declarative_reading'] = expected[i]
        res.prop_failures.append(Failure('property', case,
                                         'the observed per-phase contents / error differ from the declarative reading of the '
                                         'files (Spec.C07.flat_root), or an observed element / error report is not located '
                                         'at the lines of the file it names', finding=finding_for(files, o)))
    for i in cb:
        files, links, o, root = dmeta[i]
        res.disagreements.append(Failure('correspondence', describe(files, links, o, root),
                                         'Model.Doc.parse_root differs from test_case_parser.new_parser(..).apply'))
    cb, pb, errs = common.run_shards('C07', IMPORTS, 'check_pcase', pterms, shard_size=60, tag='pcases')
    res.errors += errs
    for i in pb:
        f1, f2, o1, o2, v1, v2 = pmeta[i]
        res.prop_failures.append(Failure('property', {'files': f1, 'permuted_files': f2, 'observed': describe(f1, {}, o1),
                                                      'observed_permuted': describe(f2, {}, o2), 'verdict': list(v1),
                                                      'verdict_permuted': list(v2)},
                                         'permuting the phase blocks (keeping the order of the blocks of each phase) changed '
                                         'the instructions of a phase or the outcome of executing the case'))
    for i in cb:
        f1, f2, o1, o2, v1, v2 = pmeta[i]
        res.disagreements.append(Failure('correspondence', {'files': f1, 'permuted_files': f2},
                                         'model differs from implementation on a block document or its permutation'))
    cb, pb, errs = common.run_shards('C07', IMPORTS, 'check_pscase', psterms, shard_size=400, tag='pscases')
    res.errors += errs
    for i in pb:
        s, ops, obs = psmeta[i]
        res.prop_failures.append(Failure('property', {'parse_source': s, 'operations': ops, 'observed_states': obs},
                                         'ParseSource: line number != 1 + newlines consumed, or remaining source / current '
                                         'line text is not the rest / the line of the original'))
    for i in cb:
        s, ops, obs = psmeta[i]
        res.disagreements.append(Failure('correspondence', {'parse_source': s, 'operations': ops, 'observed_states': obs},
                                         'Model.Doc.ps_* differs from ParseSource'))
    cb, pb, errs = common.run_shards('C07', IMPORTS, 'check_rcase', rterms, shard_size=100, tag='rcases')
    res.errors += errs
    for i in pb:
        files, case_rel, links, kind, code, err = rmeta[i]
        res.prop_failures.append(Failure('property', {'files': files, 'command': 'exactly ' + case_rel + '   (cwd = directory of the files)',
                                                      'inclusion_chain (path as written, line)': [['/'.join(w), n] for w, n in links],
                                                      'exit_code': code, 'stderr': err},
                                         'an entry "FILE, line N" + source text of the printed report is not true: FILE (relative to '
                                         'the current directory) does not exist, or line N of it is not the printed text, or the '
                                         'chain of including files is not the real one'))
    for i in cb:
        files, case_rel, links, kind, code, err = rmeta[i]
        res.disagreements.append(Failure('correspondence', {'files': files, 'command': 'exactly ' + case_rel, 'exit_code': code,
                                                            'stderr': err},
                                         'Model.Doc.report_chain differs from the printed chain of locations'))
    cb, pb, errs = common.run_shards('C07', IMPORTS, 'check_hcase', hterms, shard_size=400, tag='hcases')
    res.errors += errs
    for i in pb:
        line, o = hmeta[i]
        res.prop_failures.append(Failure('property', {'line': line, 'observed': list(o)},
                                         'a line is accepted as the header of a phase although it is not [NAME] (apart from surrounding blanks/tabs), or [NAME] is not accepted'))
    for i in cb:
        line, o = hmeta[i]
        res.disagreements.append(Failure('correspondence', {'line': line, 'observed (empty, comment, header, phase, un-escaped, split)': list(o)},
                                         'Model.Doc line classification / section name / un_escape / split_ws differs from syntax.py, _un_escape, str.split'))


def search(ctx, res):
    """failing-input search: a larger seeded run; every property failure it finds is a concrete failing input"""
    r2 = common.Result()
    ctx.rng = common.Rng(ctx.seed + 1)
    run(ctx, r2, scale=3)
    return r2.prop_failures


def replay(ctx, payload):
    case = payload.get('case') or (payload.get('correspondence_disagreements') or [{}])[0].get('case')
    print(json.dumps(case, indent=1, default=str))
    if case and 'files' in case:
        scratch_root = tempfile.mkdtemp(prefix='c07-replay-', dir=ctx.work)
        disk = Disk(os.path.join(scratch_root, 'd'), case['files'], case.get('symlinks'))
        im = Impl()
        root = case.get('root', ROOT)
        o = observe(im, disk, root)
        print('observed now:', json.dumps(describe(case['files'], case.get('symlinks'), o, root), indent=1, default=str))
        out, raw = common.coq_eval_terms('C07', IMPORTS, ['let c := %s in (model_obs c, check_dcase c)' % dcase_term(im, disk, o, root)])
        print('model / check:', [decode_coq(x) for x in out] if out else raw[-2000:])
        shutil.rmtree(scratch_root, ignore_errors=True)
    elif case and 'parse_source' in case:
        im = Impl()
        s, ops = case['parse_source'], [tuple(o) for o in case['operations']]
        obs = run_ps(im.ParseSource, s, ops)
        print('observed now:', obs)
        out, raw = common.coq_eval_terms('C07', IMPORTS, ['let c := %s in (ps_trace (psc_ops c) (ps_init (psc_src c)), check_pscase c)'
                                                          % pscase_term(s, ops, obs)])
        print('model / check:', out if out else raw[-2000:])
    return 0


def gen_tables(ctx):
    common.source_tie('C07')
