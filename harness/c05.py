"""C05 — text matchers and text transformers mean what the reference manual says.  Correspondence harness.

Implementation side: expressions are rendered to exactly's concrete syntax and parsed by the real parsers
(`parse_string_matcher`, `parse_string_transformer`); the resulting primitives are applied to real StringSources of
every kind (an existing file, a constant string, a transformed source), with several `mem_buff_size`s; a second
stream runs whole test cases through the real `MainProgram` (`contents FILE : M`, `stdout M`,
`file f = -contents-of g -transformed-by T`).  Model side: Model/TextOps.v (impl-shaped evaluators) and the
whole-text semantics of Spec/C05.v, evaluated by vm_compute on the same inputs.  Python's `re`, `str.upper/lower` are
oracle tables computed HERE, with the library itself (never through exactly), for exactly the queries a case makes.
"""
import json
import os
import pathlib
import re
import shutil
import tempfile

import common
from common import Failure, cZ, cN, cnat, cbool, clist, ctext
import impl

EXPLANATION = ('Theorems over the Gallina model of the string matchers / string transformers (Props/C05.v: impl-shaped '
               'line-iterator algorithms = whole-text semantics of the reference manual, for all texts and all expressions) '
               '+ differential correspondence of that model, and of the whole-text semantics, with the running code.')
ASSUMPTIONS = [
    'Python re (search / fullmatch / sub), str.upper / str.lower are oracles: Section variables in the theorems, tables '
    'computed with the real library for the queries of each case in the correspondence check',
    'str.isspace per character = the fixed table py_is_space of Spec/C05.v (checked against the interpreter on every run '
    'for all code points below 0x3100)',
    'texts are free of the line boundaries other than "\\n" that str.splitlines knows (\\r \\x0b \\x0c \\x1c-\\x1e \\x85 '
    'U+2028 U+2029): on those, constant strings and files split differently - that is C14 (known findings there)',
    'the read-ahead line interval of `filter` is the C13 model (Model/Interval.v filter_impl); C05_filter_read_ahead_exact '
    'composes it with this model for the binary-nested translation of the matcher (the parser builds n-ary && / ||; C13\'s '
    'own correspondence covers the n-ary interval computation)',
]
TRUSTED_EXTRA = ['Python reference evaluator in harness/c05.py: used only to enumerate oracle queries and to direct the '
                 'generator; verdicts come from Coq (Spec/C05.v sem_m / sem_t)']

IMPORTS = ['Lib.Text', 'Model.Interval', 'Model.LineNums', 'Model.TextOps', 'Spec.C05']

# ---------------------------------------------------------------------------------------------
# Regex family (Python syntax) and replacement strings.  (pattern, ignore_case)
# ---------------------------------------------------------------------------------------------
REGEXES = [
    ('a', False), ('b', False), ('ab', False), ('a|ab', False), ('ab|a', False), ('a+?', False), ('a*', False),
    ('[ab]+', False), ('^a', False), ('b$', False), ('^$', False), ('^', False), ('$', False), ('.', False), ('.*', False),
    ('.+', False), (r'\s+', False), (r'\s*$', False), (r' +', False), (r'\n', False), (r'a\n', False), (r',\n', False),
    (r'[,;]\s*', False), (r'\.', False), (r'(a)(b)?', False), (r'(a|b)\1', False), (r'x*', False), (r'\bA\b', False),
    (r'[^\n]*', False), (r'(?s).*', False), (r'(?m)^a', False), (r'(?m)b$', False), ('A', True), ('a b', False),
    (r'\(', False), (r'[.*]', False), ('1+', False), (r'\d', False), (r'.\n.', False), (r'^\s*$', False),
    ('v(1|1\\.2|2)', False), ('(?:a|ab)(?:b|)', False), ('', False), ('é', True), ('a.b', False), (r'\t', False), ('B', False), ('a+', False), (r'\n\n', False), (r'\s', False),
]
REPLACEMENTS = ['', 'X', 'b', ' ', r'\n', r'a\nb', r'\1', r'[\1]', r'\g<0>\g<0>', r'\\', '.', r'\t', 'aa', r'\n\n', r'-\g<0>-']
N_FIXED_REGEXES = len(REGEXES)
_COMPILED = []   # compiled REGEXES
POSITIVES = []   # per pattern: strings (<= 4 characters over a small alphabet) that it matches as a whole - planted
                 # as lines / texts so that `-full` holds for some inputs, whatever the pattern
SUBS = []        # (regex index, replacement index) pairs whose template is valid for the pattern
_PROBES = ('', 'a', 'ab\n', 'a b\nA\n', 'aab1,\n', ' a,b.\n\n1')


def _strings():
    import itertools
    alpha = 'ab ,.1v2A\n'
    out = ['']
    for n in range(1, 5):
        out += [''.join(t) for t in itertools.product(alpha, repeat=n)]
    return out


_STRINGS = _strings()


def _pair_ok(pat, rep):
    try:
        for probe in _PROBES:
            pat.sub(rep, probe)
    except (re.error, IndexError):
        return False
    return True


def _register_regex(r):
    """bookkeeping for REGEXES[r] (already appended)"""
    p, ic = REGEXES[r]
    pat = re.compile(p, re.IGNORECASE if ic else 0)
    _COMPILED.append(pat)
    POSITIVES.append([x for x in _STRINGS if pat.fullmatch(x)][:400])
    for q, rep in enumerate(REPLACEMENTS):
        if _pair_ok(pat, rep):
            SUBS.append((r, q))


for _r in range(len(REGEXES)):
    _register_regex(_r)


def rid_of(p, ic=False):
    """index of a pattern in the family, added if new (replays, corpus, generated patterns)"""
    if (p, ic) not in REGEXES:
        re.compile(p)
        REGEXES.append((p, ic))
        _register_regex(len(REGEXES) - 1)
    return REGEXES.index((p, ic))


def kid_of(p, ic, rep):
    r = rid_of(p, ic)
    if rep not in REPLACEMENTS:
        REPLACEMENTS.append(rep)
        q = len(REPLACEMENTS) - 1
        for r2, pat in enumerate(_COMPILED):
            if _pair_ok(pat, rep):
                SUBS.append((r2, q))
    return SUBS.index((r, REPLACEMENTS.index(rep)))  # ValueError: the template is not valid for the pattern


_ATOMS = ['a', 'b', 'A', ' ', ',', r'\.', '.', r'\s', r'\n', '[ab]', r'[^\n]', r'\d', 'x', '1', r'\t', 'é', r'[a-z]', r'\S', ';']


def gen_regex(rng, depth=2):
    """a random small pattern: atoms, concatenation, alternation, groups, (lazy) quantifiers on atoms or on groups
    without inner quantifiers (no nested quantifiers: matching stays cheap), anchors, flags"""
    def atom():
        return rng.choice(_ATOMS)

    def plain(d):  # no quantifier inside
        r = rng.below(10)
        if d <= 0 or r < 5:
            return atom()
        if r < 8:
            return plain(d - 1) + plain(d - 1)
        return '(?:' + plain(d - 1) + '|' + plain(d - 1) + ')'

    def g(d):
        r = rng.below(20)
        if d <= 0 or r < 5:
            return atom()
        if r < 9:
            return g(d - 1) + g(d - 1)
        if r < 11:
            return '(?:' + g(d - 1) + '|' + g(d - 1) + ')'
        if r < 13:
            return '(' + g(d - 1) + ')'
        if r < 17:
            x = atom() if rng.chance(0.6) else '(?:' + plain(d - 1) + ')'
            q = rng.choice(['*', '+', '?', '+?', '*?', '??', '{2}'])
            if '|' in x and q in ('*', '+', '+?', '*?'):
                # an unbounded quantifier over an alternation whose branches can match the same character (`(?:\S|[^\n])+?`)
                # makes Python's backtracking matcher exponential when the overall match fails: the branches become a sequence
                # (done on the finished string, so the random stream of every other case is unchanged)
                x = x.replace('|', '')
            return x + q
        if r < 18:
            return '^' + g(d - 1)
        if r < 19:
            return g(d - 1) + '$'
        return g(d - 1) + '|' + g(d - 1)
    p = g(depth)
    if rng.chance(0.1):
        p = rng.choice(['(?m)', '(?s)']) + p
    return p, rng.chance(0.1)


def gen_replacement(rng):
    pieces = ['', 'X', r'\n', r'\g<0>', r'\1', ' ', 'b', r'\\', r'\t', ',', r'\g<1>']
    return ''.join(rng.choice(pieces) for _ in range(rng.randint(1, 2)))


def extend_family(rng, n_re, n_rep):
    """the generated part of the family: derived from the run's seed, first thing in a run"""
    for _ in range(n_rep):
        rep = gen_replacement(rng)
        if rep not in REPLACEMENTS:
            kid_of('a', False, rep) if _pair_ok(_COMPILED[0], rep) else REPLACEMENTS.append(rep)
    for _ in range(n_re):
        p, ic = gen_regex(rng, rng.randint(1, 3))
        try:
            rid_of(p, ic)
        except re.error:
            continue


CMPS = [('==', 'CEq'), ('!=', 'CNe'), ('<', 'CLt'), ('<=', 'CLe'), ('>', 'CGt'), ('>=', 'CGe')]

ALPHABET = [('a', 14), ('b', 10), ('A', 5), ('B', 2), (' ', 9), ('\t', 3), ('\n', 14), ('.', 3), ('x', 3), ('1', 3),
            (',', 4), (';', 1), ('(', 1), ('*', 1), ('é', 2), ('ß', 1), ('Σ', 1), ('v', 1), ('2', 1), ('[', 1), ('\\', 1)]
EXOTIC_BREAKS = '\r\x0b\x0c\x1c\x1d\x1e\x85  '


# ---------------------------------------------------------------------------------------------
# Reference evaluation in Python: the whole-text semantics, every branch evaluated (no laziness), logging every
# query to an external library, so that the oracle tables cover whatever the Coq model and the Coq spec ask.
# ---------------------------------------------------------------------------------------------
def lines_lf(t):
    parts = t.split('\n')
    ls = [p + '\n' for p in parts[:-1]]
    if parts[-1] != '':
        ls.append(parts[-1])
    return ls


def im_holds(im, x):
    k = im[0]
    if k == 'cmp':
        op, n = CMPS[im[1]][0], im[2]
        return {'==': x == n, '!=': x != n, '<': x < n, '<=': x <= n, '>': x > n, '>=': x >= n}[op]
    if k == 'neg':
        return not im_holds(im[1], x)
    if k == 'conj':
        return all(im_holds(o, x) for o in im[1])
    if k == 'disj':
        return any(im_holds(o, x) for o in im[1])
    if k == 'const':
        return im[1]
    raise ValueError(im)


def in_range(r, k, num_lines):
    """LINE-NUMBER-RANGE: N | N: | :N | N:M; a negative number counts from the end (-1 = the last line)"""
    a = lambda n: n if n >= 0 else num_lines + n + 1
    if r[0] == 's':
        return k == a(r[1])
    if r[0] == 'l':
        return a(r[1]) <= k
    if r[0] == 'u':
        return k <= a(r[1])
    return a(r[1]) <= k <= a(r[2])


def range_src(r):
    return {'s': '%d', 'l': '%d:', 'u': ':%d', 'b': '%d:%d'}[r[0]] % tuple(r[1:])


class Ref:
    def __init__(self):
        self.re, self.sub, self.case = {}, {}, {}

    def q_re(self, rid, t):
        pat = _COMPILED[rid]
        v = (pat.search(t) is not None, pat.fullmatch(t) is not None)
        self.re.setdefault(rid, {})[t] = v
        return v

    def q_sub(self, kid, t):
        r, q = SUBS[kid]
        v = _COMPILED[r].sub(REPLACEMENTS[q], t)
        self.sub.setdefault(kid, {})[t] = v
        return v

    def q_case(self, t):
        v = (t.upper(), t.lower())
        self.case[t] = v
        return v

    def m(self, m, t):
        k = m[0]
        if k == 'empty':
            return t == ''
        if k == 'equals':
            return t == self.src(m[1])
        if k == 'matches':
            s, f = self.q_re(m[2], t)
            return f if m[1] else s
        if k == 'numlines':
            return im_holds(m[1], len(lines_lf(t)))
        if k == 'line':
            vs = [self.lm(m[2], n, l.rstrip('\n')) for n, l in enumerate(lines_lf(t), 1)]
            return all(vs) if m[1] == 'all' else any(vs)
        if k == 'trans':
            return self.m(m[2], self.t(m[1], t))
        if k == 'const':
            return m[1]
        if k == 'not':
            return not self.m(m[1], t)
        if k in ('and', 'or'):
            vs = [self.m(o, t) for o in m[1]]
            return all(vs) if k == 'and' else any(vs)
        raise ValueError(m)

    def lm(self, lm, n, c):
        k = lm[0]
        if k == 'contents':
            return self.m(lm[1], c)
        if k == 'linenum':
            return im_holds(lm[1], n)
        if k == 'const':
            return lm[1]
        if k == 'not':
            return not self.lm(lm[1], n, c)
        if k in ('and', 'or'):
            vs = [self.lm(o, n, c) for o in lm[1]]
            return all(vs) if k == 'and' else any(vs)
        raise ValueError(lm)

    def _sub_line(self, preserve, kid, l):
        if preserve and l.endswith('\n'):
            return self.q_sub(kid, l[:-1]) + '\n'
        return self.q_sub(kid, l)

    def t(self, T, t):
        k = T[0]
        if k == 'identity':
            return t
        if k == 'replace':
            sel, preserve, kid = T[1], T[2], T[3]
            out = []
            for n, l in enumerate(lines_lf(t), 1):
                chosen = True if sel is None else self.lm(sel, n, l.rstrip('\n'))
                sub = self._sub_line(preserve, kid, l)  # logged for every line (superset)
                out.append(sub if chosen else l)
            return ''.join(out)
        if k == 'strip':
            return {'both': t.strip(), 'trailing-space': t.rstrip(), 'trailing-new-lines': t.rstrip('\n')}[T[1]]
        if k in ('upper', 'lower'):
            for l in lines_lf(t):
                self.q_case(l)
            u, lo = self.q_case(t)
            return u if k == 'upper' else lo
        if k == 'filter':
            return ''.join(l for n, l in enumerate(lines_lf(t), 1) if self.lm(T[1], n, l.rstrip('\n')))
        if k == 'grep':
            return self.t(('filter', ('contents', ('matches', T[1], T[2]))), t)
        if k == 'linenums':
            ls = lines_lf(t)
            return ''.join(l for n, l in enumerate(ls, 1) if any(in_range(r, n, len(ls)) for r in T[1]))
        if k == 'seq':
            for o in T[1]:
                t = self.t(o, t)
            return t
        raise ValueError(T)

    def src(self, e):
        k = e[0]
        if k in ('str', 'file'):
            return e[1]
        if k == 'strans':
            return self.t(e[2], self.src(e[1]))
        raise ValueError(e)


# ---------------------------------------------------------------------------------------------
# Generators
# ---------------------------------------------------------------------------------------------
def gen_line_body(rng, maxlen=5):
    n = rng.weighted([(0, 2), (1, 3), (2, 4), (3, 4), (4, 2), (5, 1)])
    n = min(n, maxlen)
    return ''.join(rng.weighted([(c, w) for c, w in ALPHABET if c != '\n']) for _ in range(n))


def gen_text(rng, long_ok=True, theme=None):
    """theme: a pattern number; some of its positive examples are planted as lines (or as the whole text)"""
    if theme is not None and POSITIVES[theme]:
        pos = POSITIVES[theme]
        if rng.chance(0.25):
            return rng.choice(pos)
        t = gen_text(rng, long_ok)
        ls = lines_lf(t) or ['\n']
        for _ in range(rng.randint(1, 2)):
            x = rng.choice(pos)
            if '\n' not in x:
                i = rng.below(len(ls))
                ls[i] = x + ('\n' if ls[i].endswith('\n') else '')
        return ''.join(l for l in ls if l != '')
    shape = rng.weighted([('empty', 4), ('lines', 38), ('nofinal', 20), ('blank_around', 12), ('only_space', 8),
                          ('only_nl', 4), ('single', 8), ('long', 9 if long_ok else 0)])
    if shape == 'empty':
        return ''
    if shape == 'only_nl':
        return '\n' * rng.randint(1, 3)
    if shape == 'only_space':
        return ''.join(rng.choice([' ', '\t', '\n', ' ']) for _ in range(rng.randint(1, 5)))
    if shape == 'single':
        return gen_line_body(rng) + rng.choice(['', '\n'])
    if shape == 'long':
        ls = [''.join(rng.choice('ab ,.x') for _ in range(rng.randint(20, 60))) for _ in range(rng.randint(2, 5))]
        return '\n'.join(ls) + rng.choice(['', '\n'])
    n = rng.randint(1, 6)
    ls = [gen_line_body(rng) for _ in range(n)]
    if rng.chance(0.4):  # repeated / related lines make regexes and filters meaningful
        ls[rng.below(n)] = rng.choice(['a', 'ab', 'a b', 'aab', 'A', ' a ', 'a,', 'v1.2', 'aaa', 'ba'])
    if rng.chance(0.3):  # white space (blanks AND tabs) at the beginning of the first and the end of the last line
        ws = lambda: ''.join(rng.choice(' \t') for _ in range(rng.randint(1, 3)))
        ls[0] = ws() + ls[0]
        ls[-1] = ls[-1] + ws()
    if shape == 'blank_around':
        ls = [rng.choice(['', ' ', '\t', '  '])] * rng.randint(1, 2) + ls + [rng.choice(['', ' ', '\t '])] * rng.randint(1, 3)
    t = '\n'.join(ls)
    if shape != 'nofinal' or t == '':
        t += '\n'
    elif t.endswith('\n'):
        t += rng.choice('ab ')
    return t


def literal_ok(t):
    return "'" not in t and '@' not in t


def gen_im(rng, n, depth=1):
    r = rng.below(10)
    if depth <= 0 or r < 6:
        return ('cmp', rng.below(6), rng.randint(max(-1, n - 2), n + 2))
    if r < 7:
        return ('neg', gen_im(rng, n, depth - 1))
    return ('conj' if r < 9 else 'disj', [gen_im(rng, n, depth - 1) for _ in range(2)])


def same_size_variant(rng, t):
    """a different text of the same size in bytes (one or two ASCII letters / blanks exchanged)"""
    swap = {'a': 'b', 'b': 'a', 'A': 'B', 'B': 'A', ' ': '\t', '\t': ' ', 'x': '1', '1': 'x', '.': ',', ',': '.', '\n': ' '}
    idx = [i for i, ch in enumerate(t) if ch in swap]
    if not idx:
        return t[:-1] + ('b' if t[-1] != 'b' else 'a') if ord(t[-1]) < 128 else t
    cs = list(t)
    for i in rng.sample(idx, min(len(idx), rng.randint(1, 2))):
        cs[i] = swap[cs[i]]
    return ''.join(cs)


def gen_related_text(rng, t):
    """an expected text related to t: equal, extended, truncated (at line / char boundaries), or unrelated"""
    ls = lines_lf(t)
    if len(t) >= 100:  # the prefix-reading strategies of `equals` read len + 1 + 100 characters: prefix relations matter
        c = rng.weighted([('eq', 30), ('ext', 30), ('trunc_line', 20), ('trunc_char', 10), ('nl', 10)])
    else:
        c = rng.weighted([('eq', 45), ('ext', 15), ('trunc_line', 12), ('trunc_char', 8), ('other', 10), ('nl', 10)])
    if t and rng.chance(0.08):
        return same_size_variant(rng, t)
    if c == 'eq':
        return t
    if c == 'ext':
        return t + rng.choice(['\n', 'a', 'a\n', ' ', '\nb\n', gen_text(rng, False), gen_text(rng, False)])
    if c == 'trunc_line' and ls:
        return ''.join(ls[:rng.below(len(ls))])
    if c == 'trunc_char' and t:
        return t[:rng.below(len(t))]
    if c == 'nl':
        return t[:-1] if t.endswith('\n') else t + '\n'
    return gen_text(rng, False)


class Gen:
    """expressions are generated top-down next to the text they will be applied to (tracked with the reference
    evaluator), so that `equals`, quantifiers and nested transformations are not trivially false"""

    def __init__(self, rng):
        self.rng = rng
        self.ref = Ref()
        self.theme = None  # pattern number the current text was built around (or None)

    def regex_for(self, t, full=False):
        """a pattern of the family; mostly one with something to say about this text: for -full one that matches
        the whole text (so that both verdicts occur), otherwise one that matches somewhere"""
        rng = self.rng
        if self.theme is not None and rng.chance(0.5):
            return self.theme
        if rng.chance(0.3):
            return rng.below(len(REGEXES))
        order = list(range(len(REGEXES)))
        rng.shuffle(order)
        for r in order:
            if (_COMPILED[r].fullmatch(t) if full else _COMPILED[r].search(t)) is not None:
                return r
        return order[0]

    def source(self, t, depth):
        rng = self.rng
        r = rng.below(10)
        if depth > 0 and r < 2:
            # SOURCE -transformed-by T whose result is related to t: pick the base, transform it
            T = self.trans(t, depth - 1, simple_only=True)
            return ('strans', self.source(t, 0), T)
        if r < 6 or not literal_ok(t):
            return ('file', t)
        return ('str', t)

    def expected_source(self, t, depth):
        rng = self.rng
        if depth > 0 and rng.chance(0.2):
            base = gen_related_text(rng, t) if rng.chance(0.5) else t
            T = self.trans(base, depth - 1, simple_only=True)
            return ('strans', self.source(base, 0), T)
        return self.source(gen_related_text(rng, t), 0)

    def equals_focus(self, t):
        """(model, matcher): `equals` in the contexts that select its four strategies (operand in memory / possibly on
        disk, model frozen by && / ||, transformed models), the two texts related by prefix relations - also with the
        shorter one ending exactly at a line boundary of the longer one, on either side, in memory or on disk"""
        rng = self.rng
        kind = lambda p_file: 'file' if rng.chance(p_file) or not literal_ok(t) else 'str'
        mode = rng.weighted([('generic', 4), ('actual_is_prefix', 3), ('expected_is_prefix', 3), ('same_size', 3)])
        ls = lines_lf(t)
        if mode == 'same_size' and t:
            # two existing files of the same size (and, as all fixtures, the same modification time), compared in place
            model, src = (kind(0.85), t), (kind(0.85), same_size_variant(rng, t) if rng.chance(0.8) else t)
        elif mode == 'actual_is_prefix':
            actual = t if t.endswith('\n') or rng.chance(0.3) else t + '\n'
            expected = actual + rng.choice(['a', 'b\n', '\n', gen_text(rng, False) or 'x', 'ab ,.x' * rng.randint(1, 30) + '\n'])
            model, src = (kind(0.3), actual), (kind(0.7), expected)
        elif mode == 'expected_is_prefix' and len(ls) >= 2:
            k = rng.randint(max(1, len(ls) - 2), len(ls) - 1)
            expected = ''.join(ls[:k])
            if rng.chance(0.2):
                expected = expected[:-1]
            model, src = (kind(0.7), t), (kind(0.3), expected)
        else:
            model, src = (kind(0.5), t), self.expected_source(t, rng.below(2))
        eq = ('equals', src)
        m = rng.choice([eq, eq, eq, ('not', eq), ('and', [eq, ('not', ('empty',))]), ('or', [('const', False), eq]),
                        ('trans', ('identity',), eq), ('trans', ('filter', ('const', True)), eq)])
        return model, m

    def trans_then_infix(self, t, depth):
        """`-transformed-by T M1 && M2` / `... || M2` WITHOUT parentheses: by the manual the operand of -transformed-by is
        M1 only, M2 is applied to the ORIGINAL text.  M2 has different verdicts on the original and on the transformed
        text, and M1 does not decide the outcome alone - so the verdict tells which text M2 was applied to."""
        rng = self.rng
        for _ in range(6):
            T = self.trans(t, max(depth - 1, 0), simple_only=rng.chance(0.6))
            t2 = self.ref.t(T, t)
            if t2 == t:
                continue
            n, n2 = len(lines_lf(t)), len(lines_lf(t2))
            m2 = [('equals', self.source(t, 0)), ('not', ('equals', self.source(t, 0))), ('equals', self.source(t2, 0))]
            if n != n2:
                m2 += [('numlines', ('cmp', 0, n)), ('numlines', ('cmp', 1, n))]
            if (t == '') != (t2 == ''):
                m2 += [('empty',), ('not', ('empty',))]
            op = rng.choice(['and', 'or'])
            holds = op == 'and'  # M1 on the transformed text: true for &&, false for ||
            m1 = rng.choice([('equals', self.source(t2, 0)), ('numlines', ('cmp', 0, n2)), ('const', True)])
            if not holds:
                m1 = ('not', m1)
            ops = [('trans', T, m1), rng.choice(m2)]
            if rng.chance(0.3):
                ops.insert(0, ('const', holds))
            if rng.chance(0.25):
                ops.append(('const', holds))
            return (op, ops)
        return ('and', [('trans', ('identity',), ('const', True)), ('not', ('empty',))])

    def smatcher(self, t, depth):
        rng = self.rng
        if rng.chance(0.05):
            return self.trans_then_infix(t, depth)
        r = rng.below(100)
        if t == '' and rng.chance(0.6):
            # an empty (possibly: emptied by a transformer) text: what line-wise consumers see matters
            return rng.choice([('numlines', ('cmp', rng.below(6), rng.randint(0, 1))), ('empty',),
                               ('line', rng.choice(['all', 'any']), ('const', rng.chance(0.5))),
                               ('line', 'any', ('contents', ('empty',))), ('equals', self.source('', 0)),
                               ('not', ('line', 'all', ('contents', ('matches', True, rid_of('')))))])
        if depth <= 0 or r < 45:
            q = rng.below(100)
            if q < 8:
                return ('empty',)
            if q < 40:
                return ('equals', self.expected_source(t, depth))
            if q < 62:
                full = rng.chance(0.45)
                return ('matches', full, self.regex_for(t, full))
            if q < 76:
                return ('numlines', gen_im(rng, len(lines_lf(t)), rng.randint(0, 1)))
            if q < 97:
                return ('line', rng.choice(['all', 'any']), self.lmatcher(t, max(depth - 1, 0)))
            return ('const', rng.chance(0.5))
        if r < 62:
            T = self.trans(t, depth - 1)
            return ('trans', T, self.smatcher(self.ref.t(T, t), depth - 1))
        if r < 72:
            return ('not', self.smatcher(t, depth - 1))
        return ('and' if r < 86 else 'or', [self.smatcher(t, depth - 1) for _ in range(rng.randint(2, 3))])

    def lmatcher(self, t, depth):
        """a line matcher meant for the lines of t"""
        rng = self.rng
        ls = lines_lf(t)
        c = rng.choice(ls).rstrip('\n') if ls else ''
        r = rng.below(100)
        if depth <= 0 or r < 60:
            q = rng.below(100)
            if q < 55:
                return ('contents', self.smatcher_for_line(c, depth))
            if q < 95:
                return ('linenum', gen_im(rng, rng.randint(1, max(1, len(ls))), rng.randint(0, 1)))
            return ('const', rng.chance(0.5))
        if r < 72:
            return ('not', self.lmatcher(t, depth - 1))
        return ('and' if r < 86 else 'or', [self.lmatcher(t, depth - 1) for _ in range(2)])

    def smatcher_for_line(self, c, depth):
        rng = self.rng
        q = rng.below(100)
        if q < 50:
            full = rng.chance(0.5)
            return ('matches', full, self.regex_for(c, full))
        if q < 65:
            return ('equals', self.source(c if rng.chance(0.6) else gen_related_text(rng, c), 0))
        if q < 72:
            return ('empty',)
        if q < 80:
            return ('numlines', gen_im(rng, 1, 0))
        return self.smatcher(c, max(depth - 1, 0))

    def sub_for(self, t):
        rng = self.rng
        for _ in range(6):
            k = rng.below(len(SUBS))
            if rng.chance(0.3) or _COMPILED[SUBS[k][0]].search(t):
                return k
        return k

    def linenums_multi(self, t):
        """at least two ranges, at least one with a negative number"""
        while True:
            T = self.linenums(t)
            if len(T[1]) >= 2 and any(x < 0 for r in T[1] for x in r[1:]):
                return T

    def linenums(self, t):
        """filter -line-nums RANGE...: 1 range (the ten single-range implementations) or 2-4 ranges (partition / merge /
        translation of negative numbers), numbers around 0, around +-(number of lines) and beyond the text on both sides"""
        rng = self.rng
        n = len(lines_lf(t))

        def num():
            c = rng.below(10)
            if c < 3:
                return rng.randint(-n - 3, -n)      # at / beyond the start, counted from the end
            if c < 5:
                return rng.randint(n, n + 3)        # at / beyond the end
            if c < 6:
                return rng.randint(-1, 1)
            return rng.randint(-n - 1, n + 1)

        def rg():
            k = rng.below(5)
            return ('s', num()) if k < 2 else ('l', num()) if k == 2 else ('u', num()) if k == 3 else ('b', num(), num())
        return ('linenums', [rg() for _ in range(1 if rng.chance(0.3) else rng.randint(2, 4))])

    def trans(self, t, depth, simple_only=False):
        rng = self.rng
        r = rng.below(100)
        if depth > 0 and not simple_only and r < 35:
            ops = []
            cur = t
            for _ in range(rng.randint(2, 3)):
                o = self.trans(cur, depth - 1)
                ops.append(o)
                cur = self.ref.t(o, cur)
            return ('seq', ops)
        q = rng.below(100)
        if t != '' and t.strip() == '' and rng.chance(0.45):
            return ('strip', rng.choice(['both', 'trailing-space', 'trailing-space', 'trailing-new-lines']))
        if t == '' and rng.chance(0.5):
            # nothing left: a pattern that matches the empty string still substitutes - if there is a line to work on
            ks = [k for k, (r_, q_) in enumerate(SUBS) if _COMPILED[r_].fullmatch('') and REPLACEMENTS[q_] not in ('', r'\g<0>')]
            return rng.choice([('replace', None, rng.chance(0.4), rng.choice(ks)), ('filter', ('const', True)),
                               ('filter', ('contents', ('empty',))), ('grep', True, rid_of(''))])
        if rng.chance(0.09):
            return self.linenums(t)
        if q < 38:
            sel = self.lmatcher(t, max(depth - 1, 0)) if rng.chance(0.3) else None
            return ('replace', sel, rng.chance(0.4), self.sub_for(t))
        if q < 58:
            return ('strip', rng.choice(['both', 'trailing-space', 'trailing-new-lines']))
        if q < 68:
            return (rng.choice(['upper', 'lower']),)
        if q < 84:
            return ('filter', self.lmatcher(t, max(depth - 1, 0)))
        if q < 93:
            full = rng.chance(0.4)
            return ('grep', full, self.regex_for(rng.choice(lines_lf(t) or ['']).rstrip('\n'), full))
        return ('identity',)


# ---------------------------------------------------------------------------------------------
# Rendering to exactly's syntax
# ---------------------------------------------------------------------------------------------
def q_str(s):
    assert literal_ok(s), s
    return "'" + s + "'"


def open_src(e):
    """does the rendering of this TEXT-SOURCE end in a position where a following `-transformed-by` token would be read
    as ITS optional TRANSFORMATION (TEXT-SOURCE = STRING | -contents-of PATH ... [-transformed-by T])?"""
    return True if e[0] in ('str', 'file') else open_t(e[2])


def open_m(m):
    k = m[0]
    if k == 'equals':
        return open_src(m[1])
    if k == 'line':
        return open_lm(m[2])
    if k == 'trans':
        return open_m(m[2])
    if k == 'not':
        return open_m(m[1])
    return False  # leaves without a source; && / || are rendered inside parentheses


def open_lm(lm):
    k = lm[0]
    if k == 'contents':
        return open_m(lm[1])
    if k == 'not':
        return open_lm(lm[1])
    return False


def open_t(T):
    return open_lm(T[1]) if T[0] == 'filter' else False  # replace ends in a STRING, a sequence in `)`


FIXTURE_MTIME = 1600000000  # every fixture file gets this modification time (as after `cp -p`, an unpacked archive, ...)


def write_fixture(path, contents):
    with open(path, 'w', encoding='utf-8', newline='') as f:
        f.write(contents)
    os.utime(path, (FIXTURE_MTIME, FIXTURE_MTIME))


class ImplRaised(Exception):
    """the implementation raised (or ended in HARD_ERROR / INTERNAL_ERROR) while APPLYING a successfully parsed, valid
    expression to a text: it did not give the documented verdict / output - a property failure, not a harness error"""


class HarnessRenderingError(Exception):
    """the real parser built another tree than the one the harness meant (a defect of the renderer, not of exactly)"""


class Render:
    def __init__(self):
        self.files = {}  # name -> contents, to be created in the home directory
        self.n_src = 0
        self.file_rel = ''  # relativity option of -contents-of (default: home directory)

    def file_for(self, t):
        name = 'f%d.txt' % len(self.files)
        self.files[name] = t
        return name

    def regex(self, rid):
        p, ic = REGEXES[rid]
        return ('-ignore-case ' if ic else '') + q_str(p)

    def im(self, im, simple=True):
        k = im[0]
        if k == 'cmp':
            return '%s %d' % (CMPS[im[1]][0], im[2])
        if k == 'neg':
            return '! ' + self.im(im[1])
        if k == 'const':
            return 'constant ' + ('true' if im[1] else 'false')
        op = ' && ' if k == 'conj' else ' || '
        return '( ' + op.join(self.im(x) for x in im[1]) + ' )'

    def src(self, e, delimit=False):
        """delimit: the source is followed by a `-transformed-by` that is NOT its own: it must be parenthesised
        ( `( TEXT-SOURCE' )` is a form of TEXT-SOURCE ).  One source in four is parenthesised anyway."""
        k = e[0]
        self.n_src += 1
        if k == 'str':
            r = q_str(e[1])
        elif k == 'file':
            r = '-contents-of ' + self.file_rel + self.file_for(e[1])
        else:
            self.n_src += 1 if (self.n_src + 1) % 4 == 0 else 0  # the base of a transformed source is never parenthesised
            r = self.src(e[1]) + ' -transformed-by ' + self.t(e[2])
        return '( ' + r + ' )' if delimit or self.n_src % 4 == 0 else r

    def m(self, m, top=False):
        k = m[0]
        if k == 'empty':
            return 'is-empty'
        if k == 'equals':  # `==` is the documented alias; chosen deterministically from the operand
            return ('equals ' if len(self.files) % 3 else '== ') + self.src(m[1])
        if k == 'matches':
            return ('matches ' if m[2] % 4 else '~ ') + ('-full ' if m[1] else '') + self.regex(m[2])
        if k == 'numlines':
            return 'num-lines ' + self.im(m[1])
        if k == 'line':
            return ('every' if m[1] == 'all' else 'any') + ' line : ' + self.lm(m[2])
        if k == 'trans':
            # `-transformed-by T M` with T ending in a TEXT-SOURCE and M starting with `-transformed-by`: the source would
            # swallow M's transformer.  Parenthesise T then.
            t = self.t(m[1])
            if open_t(m[1]) and m[2][0] == 'trans' and not t.endswith(')'):
                t = '( ' + t + ' )'
            return '-transformed-by ' + t + ' ' + self.m(m[2])
        if k == 'const':
            return 'constant ' + ('true' if m[1] else 'false')
        if k == 'not':
            return '! ' + self.m(m[1])
        s = (' && ' if k == 'and' else ' || ').join(self.m(x) for x in m[1])
        return s if top else '( ' + s + ' )'

    def lm(self, lm):
        k = lm[0]
        if k == 'contents':
            return 'contents ' + self.m(lm[1])
        if k == 'linenum':
            return 'line-num ' + self.im(lm[1])
        if k == 'const':
            return 'constant ' + ('true' if lm[1] else 'false')
        if k == 'not':
            return '! ' + self.lm(lm[1])
        return '( ' + (' && ' if k == 'and' else ' || ').join(self.lm(x) for x in lm[1]) + ' )'

    def t(self, T, top=False):
        k = T[0]
        if k == 'identity':
            return 'identity'
        if k == 'replace':
            sel, preserve, kid = T[1], T[2], T[3]
            r, q = SUBS[kid]
            return ('replace ' + ('-at ' + self.lm(sel) + ' ' if sel is not None else '') +
                    ('-preserve-new-lines ' if preserve else '') + self.regex(r) + ' ' + q_str(REPLACEMENTS[q]))
        if k == 'strip':
            return 'strip' + {'both': '', 'trailing-space': ' -trailing-space', 'trailing-new-lines': ' -trailing-new-lines'}[T[1]]
        if k == 'upper':
            return 'char-case -to-upper'
        if k == 'lower':
            return 'char-case -to-lower'
        if k == 'filter':
            return 'filter ' + self.lm(T[1])
        if k == 'grep':
            return 'grep ' + ('-full ' if T[1] else '') + self.regex(T[2])
        if k == 'linenums':
            # the RANGE list extends to the end of the line: anywhere but at the very end of the whole expression it is
            # closed by a line break inside parentheses
            r = 'filter -line-nums ' + ' '.join(range_src(x) for x in T[1])
            return r if top else '( ' + r + '\n)'
        s = ' | '.join(self.t(x) for x in T[1])
        return s if top else '( ' + s + ' )'


# ---------------------------------------------------------------------------------------------
# Parse-tree read-back: the structure tree of the primitive the REAL parser built, against the intended AST
# ---------------------------------------------------------------------------------------------
_OPT = re.compile(r'^-[a-z][a-z-]*$')


def skel_of_node(node):
    out = [node.header]
    for d in node.details:
        out += _skel_of_detail(d, node.header)
    out += [skel_of_node(c) for c in node.children]
    return out


def _skel_of_detail(d, hdr):
    n = type(d).__name__
    if n == 'TreeDetail':
        return [skel_of_node(d.tree)]
    if n == 'HeaderAndValueDetail':
        inner = []
        for v in d.values:
            inner += _skel_of_detail(v, hdr)
        return [['hv:' + str(d.header)] + inner]
    if n == 'IndentedDetail':
        inner = []
        for v in d.details:
            inner += _skel_of_detail(v, hdr)
        return inner
    if n == 'StringDetail':
        x = str(d.string)
        return ['opt:' + x] if _OPT.match(x) or hdr == 'constant' else []
    return []


class Skel:
    """the skeleton the structure tree must have for an AST (node headers, options, nesting; not the operands'
    texts): names as the implementation's description trees print them"""

    def regex(self, rid, full=None):
        inner = ['hv:Case insensitive'] if REGEXES[rid][1] else None
        if full is None:
            return inner
        return ['hv:Full match' if full else 'hv:Contains'] + ([inner] if inner else [])

    def im(self, im):
        k = im[0]
        if k == 'cmp':
            return [CMPS[im[1]][0] + ' INTEGER', ['hv:RHS']]
        if k == 'neg':
            return ['!', self.im(im[1])]
        if k == 'const':
            return ['constant', 'opt:' + ('true' if im[1] else 'false')]
        return ['&&' if k == 'conj' else '||'] + [self.im(x) for x in im[1]]

    def src(self, e):
        k = e[0]
        if k == 'str':
            return ['STRING']
        if k == 'file':
            return ['PATH']
        if 'linenums' in kinds_of(e[2], set()):
            # the description of a transformed SOURCE is built by transform(): `filter -line-nums` whose ranges cover
            # every line returns the model itself, which then shows no transformation - any tail is accepted here
            return self.src(e[1]) + ['*']
        return self.src(e[1]) + [['-transformed-by', self.t(e[2])]]

    def m(self, m):
        k = m[0]
        if k == 'empty':
            return ['is-empty']
        if k == 'equals':
            return ['equals TEXT-SOURCE', self.src(m[1])]
        if k == 'matches':
            r = self.regex(m[2], m[1])
            return ['matches REGEX'] + ([r] if r else [])
        if k == 'numlines':
            return ['num-lines INTEGER-MATCHER', self.im(m[1])]
        if k == 'line':
            return [('every' if m[1] == 'all' else 'any') + ' line : LINE-MATCHER', self.lm(m[2])]
        if k == 'trans':
            return ['-transformed-by TEXT-TRANSFORMER', self.t(m[1]), self.m(m[2])]
        if k == 'const':
            return ['constant', 'opt:' + ('true' if m[1] else 'false')]
        if k == 'not':
            return ['!', self.m(m[1])]
        return ['&&' if k == 'and' else '||'] + [self.m(x) for x in m[1]]

    def lm(self, lm):
        k = lm[0]
        if k == 'contents':
            return ['contents TEXT-MATCHER', self.m(lm[1])]
        if k == 'linenum':
            return ['line-num INTEGER-MATCHER', self.im(lm[1])]
        if k == 'const':
            return ['constant', 'opt:' + ('true' if lm[1] else 'false')]
        if k == 'not':
            return ['!', self.lm(lm[1])]
        return ['&&' if k == 'and' else '||'] + [self.lm(x) for x in lm[1]]

    def t(self, T):
        k = T[0]
        if k == 'identity':
            return ['identity']
        if k == 'replace':
            out = ['replace']
            if T[1] is not None:
                out.append(['hv:-at LINE-MATCHER', self.lm(T[1])])
            if T[2]:
                out.append('opt:-preserve-new-lines')
            r = self.regex(SUBS[T[3]][0])
            out.append(['hv:pattern REGEX'] + ([r] if r else []))
            out.append(['hv:replacement STRING'])
            return out
        if k == 'strip':
            return ['strip'] + {'both': [], 'trailing-space': ['opt:-trailing-space'], 'trailing-new-lines': ['opt:-trailing-new-lines']}[T[1]]
        if k in ('upper', 'lower'):
            return ['char-case', 'opt:-to-' + k]
        if k == 'filter':
            return ['filter LINE-MATCHER', self.lm(T[1])]
        if k == 'grep':
            return ['filter LINE-MATCHER', ['contents TEXT-MATCHER', self.m(('matches', T[1], T[2]))]]
        if k == 'linenums':
            return ['filter -line-nums LINE-NUMBER-RANGE...']
        return ['|'] + [self.t(x) for x in T[1]]


def skel_match(got, exp):
    if isinstance(exp, list):
        if not isinstance(got, list):
            return False
        if exp and exp[-1] == '*':
            return len(got) >= len(exp) - 1 and all(skel_match(g, x) for g, x in zip(got, exp[:-1]))
        return len(got) == len(exp) and all(skel_match(g, x) for g, x in zip(got, exp))
    return got == exp


class RefParser:
    """An independent parser of the RENDERED expressions, written from the reference manual (help syntax TEXT-MATCHER,
    TEXT-TRANSFORMER, LINE-MATCHER, INTEGER-MATCHER, TEXT-SOURCE): precedence ! > && > ||; the operands of `!`, `every/any
    line :`, `contents`, `num-lines`, `line-num`, `-transformed-by T M`, `filter`, `replace -at`, and the transformer of a
    TEXT-SOURCE "may not contain infix operators (unless inside parentheses)"; TEXT-SOURCE = STRING | -contents-of PATH,
    each with an optional `-transformed-by T` of its own, or the same in parentheses; a `-line-nums` RANGE list extends
    to the end of the line.  It yields the skeleton (as `Skel`) the manual gives the string.  Used to tell a defect of the
    renderer (harness error) from the program giving an expression another structure than the manual."""

    def __init__(self, src):
        self.toks = self._tokens(src)
        self.i = 0

    @staticmethod
    def _tokens(src):
        out, i, n = [], 0, len(src)
        while i < n:
            c = src[i]
            if c == '\n':
                out.append(('nl', None))
                i += 1
            elif c.isspace():
                i += 1
            elif c == "'":
                j = src.index("'", i + 1)
                out.append(('str', src[i + 1:j]))
                i = j + 1
            else:
                j = i
                while j < n and not src[j].isspace():
                    j += 1
                out.append(('w', src[i:j]))
                i = j
        return out

    def peek(self):
        while self.i < len(self.toks) and self.toks[self.i][0] == 'nl':
            self.i += 1
        return self.toks[self.i] if self.i < len(self.toks) else ('end', None)

    def next(self):
        t = self.peek()
        self.i += 1
        return t

    def is_w(self, *words):
        t = self.peek()
        return t[0] == 'w' and t[1] in words

    def expect(self, word):
        t = self.next()
        if t != ('w', word):
            raise HarnessRenderingError('reference parser: expected %r, found %r' % (word, t))

    def at_end(self):
        return self.peek()[0] == 'end'

    def infix(self, simple):
        """|| of && of simple operands; a run of the same operator is one n-ary node"""
        ors = []
        while True:
            ands = [simple()]
            while self.is_w('&&'):
                self.next()
                ands.append(simple())
            ors.append(ands[0] if len(ands) == 1 else ['&&'] + ands)
            if not self.is_w('||'):
                break
            self.next()
        return ors[0] if len(ors) == 1 else ['||'] + ors

    def grouped(self, full):
        self.expect('(')
        x = full()
        self.expect(')')
        return x

    def const(self):
        self.expect('constant')
        return ['constant', 'opt:' + self.next()[1]]

    def regex(self):
        ic = self.is_w('-ignore-case')
        if ic:
            self.next()
        t = self.next()
        if t[0] != 'str':
            raise HarnessRenderingError('reference parser: a quoted REGEX expected, found %r' % (t,))
        return ['hv:Case insensitive'] if ic else None

    # ---- TEXT-MATCHER
    def m_full(self):
        return self.infix(self.m_simple)

    def m_simple(self):
        if self.is_w('('):
            return self.grouped(self.m_full)
        if self.is_w('!'):
            self.next()
            return ['!', self.m_simple()]
        if self.is_w('constant'):
            return self.const()
        t = self.next()
        w = t[1] if t[0] == 'w' else None
        if w == 'is-empty':
            return ['is-empty']
        if w in ('equals', '=='):
            return ['equals TEXT-SOURCE', self.source()]
        if w in ('matches', '~'):
            full = self.is_w('-full')
            if full:
                self.next()
            r = self.regex()
            return ['matches REGEX', ['hv:Full match' if full else 'hv:Contains'] + ([r] if r else [])]
        if w == 'num-lines':
            return ['num-lines INTEGER-MATCHER', self.im_simple()]
        if w in ('every', 'any'):
            self.expect('line')
            self.expect(':')
            return [w + ' line : LINE-MATCHER', self.lm_simple()]
        if w == '-transformed-by':
            T = self.t_simple()
            return ['-transformed-by TEXT-TRANSFORMER', T, self.m_simple()]
        raise HarnessRenderingError('reference parser: not a TEXT-MATCHER: %r' % (t,))

    def source(self):
        if self.is_w('('):
            return self.grouped(self.source1)
        return self.source1()

    def source1(self):
        t = self.next()
        if t[0] == 'str':
            base = ['STRING']
        elif t == ('w', '-contents-of'):
            if self.is_w('-rel-act', '-rel-home'):
                self.next()
            self.next()
            base = ['PATH']
        else:
            raise HarnessRenderingError('reference parser: not a TEXT-SOURCE: %r' % (t,))
        if self.is_w('-transformed-by'):
            self.next()
            base = base + [['-transformed-by', self.t_simple()]]
        return base

    # ---- INTEGER-MATCHER
    def im_full(self):
        return self.infix(self.im_simple)

    def im_simple(self):
        if self.is_w('('):
            return self.grouped(self.im_full)
        if self.is_w('!'):
            self.next()
            return ['!', self.im_simple()]
        if self.is_w('constant'):
            return self.const()
        t = self.next()
        if t[0] == 'w' and t[1] in ('==', '!=', '<', '<=', '>', '>='):
            self.next()
            return [t[1] + ' INTEGER', ['hv:RHS']]
        raise HarnessRenderingError('reference parser: not an INTEGER-MATCHER: %r' % (t,))

    # ---- LINE-MATCHER
    def lm_full(self):
        return self.infix(self.lm_simple)

    def lm_simple(self):
        if self.is_w('('):
            return self.grouped(self.lm_full)
        if self.is_w('!'):
            self.next()
            return ['!', self.lm_simple()]
        if self.is_w('constant'):
            return self.const()
        t = self.next()
        if t == ('w', 'contents'):
            return ['contents TEXT-MATCHER', self.m_simple()]
        if t == ('w', 'line-num'):
            return ['line-num INTEGER-MATCHER', self.im_simple()]
        raise HarnessRenderingError('reference parser: not a LINE-MATCHER: %r' % (t,))

    # ---- TEXT-TRANSFORMER
    def t_full(self):
        ops = [self.t_simple()]
        while self.is_w('|'):
            self.next()
            ops.append(self.t_simple())
        return ops[0] if len(ops) == 1 else ['|'] + ops

    def t_simple(self):
        if self.is_w('('):
            return self.grouped(self.t_full)
        t = self.next()
        w = t[1] if t[0] == 'w' else None
        if w == 'identity':
            return ['identity']
        if w == 'strip':
            if self.is_w('-trailing-space', '-trailing-new-lines'):
                return ['strip', 'opt:' + self.next()[1]]
            return ['strip']
        if w == 'char-case':
            return ['char-case', 'opt:' + self.next()[1]]
        if w == 'grep':
            full = self.is_w('-full')
            if full:
                self.next()
            r = self.regex()
            return ['filter LINE-MATCHER', ['contents TEXT-MATCHER',
                                            ['matches REGEX', ['hv:Full match' if full else 'hv:Contains'] + ([r] if r else [])]]]
        if w == 'filter':
            if self.is_w('-line-nums'):
                self.next()
                while self.i < len(self.toks) and self.toks[self.i][0] != 'nl':  # the RANGE list: to the end of the line
                    self.i += 1
                return ['filter -line-nums LINE-NUMBER-RANGE...']
            return ['filter LINE-MATCHER', self.lm_simple()]
        if w == 'replace':
            out = ['replace']
            if self.is_w('-at'):
                self.next()
                out.append(['hv:-at LINE-MATCHER', self.lm_simple()])
            if self.is_w('-preserve-new-lines'):
                self.next()
                out.append('opt:-preserve-new-lines')
            r = self.regex()
            out.append(['hv:pattern REGEX'] + ([r] if r else []))
            if self.next()[0] != 'str':
                raise HarnessRenderingError('reference parser: a quoted replacement STRING expected')
            out.append(['hv:replacement STRING'])
            return out
        raise HarnessRenderingError('reference parser: not a TEXT-TRANSFORMER: %r' % (t,))


def documented_structure(src, is_transformer, expected):
    """the rendered string must denote the intended tree by the documented grammar - else the RENDERER is wrong"""
    rp = RefParser(src)
    try:
        got = rp.t_full() if is_transformer else rp.m_full()
        if not rp.at_end():
            raise HarnessRenderingError('reference parser: trailing input %r' % (rp.peek(),))
    except (IndexError, ValueError) as ex:
        raise HarnessRenderingError('reference parser failed on %r: %s' % (src, ex))
    if not skel_match(got, expected):
        raise HarnessRenderingError('by the documented grammar %r denotes %s, the harness meant %s' % (src, got, expected))


def read_back(primitive, expected, src, is_transformer):
    """-> None if the program gave the expression the documented structure, else the structure it gave it.  (A rendering
    that does not denote the intended tree by the documented grammar raises HarnessRenderingError.)"""
    documented_structure(src, is_transformer, expected)
    got = skel_of_node(primitive.structure().render())
    return None if skel_match(got, expected) else {'program_structure': got, 'documented_structure': expected}


# ---------------------------------------------------------------------------------------------
# Rendering to Coq terms (case-local numbering of patterns and pattern/replacement pairs)
# ---------------------------------------------------------------------------------------------
class CoqTerm:
    def __init__(self):
        self.rids, self.kids = {}, {}

    def rid(self, r):
        return cnat(self.rids.setdefault(r, len(self.rids)))

    def kid(self, k):
        return cnat(self.kids.setdefault(k, len(self.kids)))

    def im(self, im):
        k = im[0]
        if k == 'cmp':
            return '(MLeaf (ICmp %s %s))' % (CMPS[im[1]][1], cZ(im[2]))
        if k == 'neg':
            return '(MNeg %s)' % self.im(im[1])
        if k == 'const':
            return '(MConst %s)' % cbool(im[1])
        return '(%s %s %s)' % ('MConj' if k == 'conj' else 'MDisj', self.im(im[1][0]), clist([self.im(x) for x in im[1][1:]]))

    def nest(self, ctor, terms):
        return terms[0] if len(terms) == 1 else '(%s %s %s)' % (ctor, terms[0], self.nest(ctor, terms[1:]))

    def src(self, e):
        k = e[0]
        if k == 'str':
            return '(SrcStr %s)' % ctext(e[1])
        if k == 'file':
            return '(SrcFile %s)' % ctext(e[1])
        return '(SrcTrans %s %s)' % (self.src(e[1]), self.t(e[2]))

    def m(self, m):
        k = m[0]
        if k == 'empty':
            return 'SEmpty'
        if k == 'equals':
            return '(SEquals %s)' % self.src(m[1])
        if k == 'matches':
            return '(SMatches %s %s)' % (cbool(m[1]), self.rid(m[2]))
        if k == 'numlines':
            return '(SNumLines %s)' % self.im(m[1])
        if k == 'line':
            return '(SLine %s %s)' % ('QAll' if m[1] == 'all' else 'QAny', self.lm(m[2]))
        if k == 'trans':
            return '(STransformed %s %s)' % (self.t(m[1]), self.m(m[2]))
        if k == 'const':
            return '(SConst %s)' % cbool(m[1])
        if k == 'not':
            return '(SNot %s)' % self.m(m[1])
        return self.nest('SAnd' if k == 'and' else 'SOr', [self.m(x) for x in m[1]])

    def lm(self, lm):
        k = lm[0]
        if k == 'contents':
            return '(LContents %s)' % self.m(lm[1])
        if k == 'linenum':
            return '(LLineNum %s)' % self.im(lm[1])
        if k == 'const':
            return '(LConst %s)' % cbool(lm[1])
        if k == 'not':
            return '(LNot %s)' % self.lm(lm[1])
        return self.nest('LAnd' if k == 'and' else 'LOr', [self.lm(x) for x in lm[1]])

    def t(self, T):
        k = T[0]
        if k == 'identity':
            return 'TIdentity'
        if k == 'replace':
            if T[1] is None:
                return '(TReplace %s %s)' % (cbool(T[2]), self.kid(T[3]))
            return '(TReplaceAt %s %s %s)' % (self.lm(T[1]), cbool(T[2]), self.kid(T[3]))
        if k == 'strip':
            return {'both': 'TStrip', 'trailing-space': 'TStripTrailingSpace', 'trailing-new-lines': 'TStripTrailingNewLines'}[T[1]]
        if k == 'upper':
            return 'TUpper'
        if k == 'lower':
            return 'TLower'
        if k == 'filter':
            return '(TFilter %s)' % self.lm(T[1])
        if k == 'grep':
            return '(TFilter (LContents (SMatches %s %s)))' % (cbool(T[1]), self.rid(T[2]))
        if k == 'linenums':
            rc = {'s': 'RSingle', 'l': 'RLower', 'u': 'RUpper', 'b': 'RBoth'}
            return '(TFilterLineNums %s)' % clist(['(%s %s)' % (rc[r[0]], ' '.join(cZ(x) for x in r[1:])) for r in T[1]])
        return self.nest('TSeq', [self.t(x) for x in T[1]])

    def tables(self, ref):
        """the oracle tables of one case, in the case-local numbering; every pattern / pair that occurs in the
        term has a (possibly empty) table"""
        def bb(v):
            return '(%s, %s)' % (cbool(v[0]), cbool(v[1]))

        def alist(d, f):
            if not d:
                return '[]'
            return clist(['(%s, %s)' % (ctext(k), f(v)) for k, v in d.items()])

        re_tabs = [None] * len(self.rids)
        for r, loc in self.rids.items():
            re_tabs[loc] = alist(ref.re.get(r, {}), bb)
        sub_tabs = [None] * len(self.kids)
        for k, loc in self.kids.items():
            sub_tabs[loc] = alist(ref.sub.get(k, {}), ctext)
        case_tab = alist(ref.case, lambda v: '(%s, %s)' % (ctext(v[0]), ctext(v[1])))
        return '(OT %s %s %s)' % (clist(re_tabs) if re_tabs else '[]', clist(sub_tabs) if sub_tabs else '[]', case_tab)


def c_lines(ls):
    return clist([ctext(l) for l in ls]) if ls else '[]'


# ---------------------------------------------------------------------------------------------
# The implementation, in process
# ---------------------------------------------------------------------------------------------
MEMS = [1, 4, 12, 40, 1024]


class Impl:
    def __init__(self, tmp):
        from exactly_lib.impls.types.string_matcher import parse_string_matcher
        from exactly_lib.impls.types.string_transformer import parse_string_transformer
        from exactly_lib.impls.types.string_source import file_source
        from exactly_lib.tcfs.tcds import TestCaseDs
        from exactly_lib.tcfs.hds import HomeDs
        from exactly_lib.tcfs import sds as sdsm
        self.psm, self.pst, self.file_source = parse_string_matcher, parse_string_transformer, file_source
        self.tmp = pathlib.Path(tmp)
        self.envs = {}
        for mem in MEMS:
            d = self.tmp / ('env%d' % mem)
            d.mkdir()
            self.envs[mem] = impl.app_env(str(d), mem)
        self.n = 0
        self.n_model = 0
        self.structure_differs = None
        self.TestCaseDs, self.HomeDs, self.sdsm = TestCaseDs, HomeDs, sdsm
        self.sroot = self.tmp / 'sb'
        self.sroot.mkdir()
        self.sds = sdsm.construct_at(str(self.sroot))

    def primitive(self, parser, src, env, tcds):
        """what an instruction does: parse, resolve, validate (this is what parses the RANGEs of -line-nums and
        compiles the regexes), make the primitive"""
        ddv = impl.parse_full(parser, src).resolve(impl.SymbolTable())
        for err in (ddv.validator.validate_pre_sds_if_applicable(tcds.hds), ddv.validator.validate_post_sds_if_applicable(tcds)):
            if err is not None:
                raise ValueError('validation error for a generated expression: %r' % src)
        return ddv.value_of_any_dependency(tcds).primitive(env)

    def new_home(self, files):
        self.n += 1
        home = self.tmp / ('h%d' % self.n)
        home.mkdir()
        for name, contents in files.items():
            write_fixture(home / name, contents)
        return home

    def base_source(self, e, home, env):
        if e[0] == 'str':
            return impl.str_source(e[1], env)
        self.n_model += 1
        p = home / ('model%d.txt' % self.n_model)
        write_fixture(p, e[1])
        return self.file_source.string_source_of_file__poorly_described(p, env.tmp_files_space)

    def run_t(self, T_src, files, model, mem, expr=None, before=()):
        env = self.envs[mem]
        home = self.new_home(files)
        tcds = self.TestCaseDs(self.HomeDs(home, home), self.sds)
        tr = self.primitive(self.pst, T_src, env, tcds)
        self.structure_differs = read_back(tr, Skel().t(expr), T_src, True) if expr is not None else None
        try:
            for b in before:  # the same primitive applied to other texts first: a transformer is a function of its input only
                with tr.transform(self.base_source(b, home, env)).contents().as_lines as lines:
                    list(lines)
            source = self.base_source(model, home, env)
            out = tr.transform(source)
            ext = bool(out.contents().may_depend_on_external_resources)
            with out.contents().as_lines as lines:
                ls = list(lines)
            out.freeze()
            fext = bool(out.contents().may_depend_on_external_resources)
        except OSError:
            raise
        except Exception as ex:
            raise ImplRaised('%s: %s' % (type(ex).__name__, str(ex)[:300]))
        finally:
            shutil.rmtree(home, ignore_errors=True)
        return ls, ext, fext

    def read_back_only(self, is_transformer, src, files, expr):
        """whole-program route: the same source text through the parser API, for the parse-tree read-back"""
        env = self.envs[1024]
        home = self.new_home(files)
        tcds = self.TestCaseDs(self.HomeDs(home, home), self.sds)
        try:
            if is_transformer:
                return read_back(self.primitive(self.pst, src, env, tcds), Skel().t(expr), src, True)
            return read_back(self.primitive(self.psm, src, env, tcds), Skel().m(expr), src, False)
        finally:
            shutil.rmtree(home, ignore_errors=True)

    def run_m(self, m_src, files, model, mem, expr=None, before=()):
        env = self.envs[mem]
        home = self.new_home(files)
        tcds = self.TestCaseDs(self.HomeDs(home, home), self.sds)
        mt = self.primitive(self.psm, m_src, env, tcds)
        self.structure_differs = read_back(mt, Skel().m(expr), m_src, False) if expr is not None else None
        try:
            for b in before:
                mt.matches_w_trace(self.base_source(b, home, env))
            source = self.base_source(model, home, env)
            v = bool(mt.matches_w_trace(source).value)
        except OSError:
            raise
        except Exception as ex:
            raise ImplRaised('%s: %s' % (type(ex).__name__, str(ex)[:300]))
        finally:
            shutil.rmtree(home, ignore_errors=True)
        return v


class Program:
    """whole test cases through the real MainProgram (parsing of the instructions `contents`, `stdout`, `file`,
    sandbox, act phase with a child process), sandboxes under a private directory"""
    PMEMS = [3, 1024]

    def __init__(self, tmp):
        self.tmp = pathlib.Path(tmp)
        self.sb = self.tmp / 'prog-sandboxes'
        self.sb.mkdir()
        self.scratch = self.tmp / 'prog-scratch'
        self.scratch.mkdir()
        self.mps = {mem: impl.main_program(str(self.sb), mem) for mem in self.PMEMS}
        self.n = 0

    def run(self, case, im=None):
        rnd = Render()
        self.n += 1
        home = self.tmp / ('p%d' % self.n)
        home.mkdir()
        text = case['model'][1]
        model_path = home / 'model.txt'
        via = case['via']
        if via == 'file-instruction':
            src = rnd.t(case['expr'])
            source = '-contents-of model.txt' if case['model'][0] == 'file' else q_str(text)
            body = '[setup]\nfile out.txt = %s -transformed-by %s\n' % (source, src)
        elif via == 'contents-instruction':
            src = rnd.m(case['expr'], top=True)
            body = '[assert]\ncontents -rel-home model.txt : %s\n' % src
        elif via == 'contents-of-copied-files-instruction':
            # fixtures copied into the sandbox by `copy` (which preserves the modification time); both the checked
            # file and the files of -contents-of are the copies in the act directory
            rnd.file_rel = '-rel-act '
            src = rnd.m(case['expr'], top=True)
            body = ('[setup]\n' + ''.join('copy %s\n' % name for name in ['model.txt'] + list(rnd.files)) +
                    '[assert]\ncontents model.txt : %s\n' % src)
        elif via == 'dir-contents-instruction':
            # ONE matcher primitive applied to every file of a directory
            src = rnd.m(case['expr'])
            (home / 'd').mkdir()
            for i, t in enumerate(case['model'][1]):
                write_fixture(home / 'd' / ('file%d.txt' % i), t)
            body = '[assert]\ndir-contents -rel-home d : %s file : contents %s\n' % (
                'every' if case['quant'] == 'all' else 'any', src)
        else:
            src = rnd.m(case['expr'], top=True)
            body = '[act]\n$ cat %s\n[assert]\nstdout %s\n' % (model_path, src)
        files = dict(rnd.files)
        if via != 'dir-contents-instruction':
            files['model.txt'] = text
        for name, contents in files.items():
            write_fixture(home / name, contents)
        with open(home / 't.case', 'w', encoding='utf-8', newline='') as f:
            f.write(body)
        case['src'], case['files'], case['case_file'] = src, files, body
        if im is not None:
            if via == 'contents-of-copied-files-instruction':  # same tree; the API read-back resolves the files in the home dir
                rnd2 = Render()
                case['structure_differs'] = im.read_back_only(False, rnd2.m(case['expr'], top=True), dict(rnd2.files), case['expr'])
            else:
                case['structure_differs'] = im.read_back_only(via == 'file-instruction', src, dict(rnd.files), case['expr'])
        keep = via == 'file-instruction'
        r = impl.run_main(self.mps[case['mem']], (['--keep'] if keep else []) + [str(home / 't.case')], str(home), str(self.scratch))
        if r.exception is not None:
            raise ImplRaised('escaped MainProgram.execute: %s: %s' % (type(r.exception).__name__, str(r.exception)[:300]))
        from exactly_lib.processing import exit_values as xv
        for bad in (xv.EXECUTION__HARD_ERROR, xv.EXECUTION__INTERNAL_ERROR):
            if r.exit_code == bad.exit_code:
                raise ImplRaised('%s: %s' % (bad.exit_identifier, r.err[:400]))
        if keep:
            d = r.out.strip()
            if r.exit_code != 0 or not os.path.isdir(d):
                raise RuntimeError('test case did not PASS: exit %s %s' % (r.exit_code, r.err[:300]))
            with open(os.path.join(d, 'act', 'out.txt'), encoding='utf-8', newline='') as f:
                case['obs'] = {'text': f.read()}
            shutil.rmtree(d, ignore_errors=True)
        else:
            from exactly_lib.processing.exit_values import EXECUTION__PASS as PASS, EXECUTION__FAIL as FAIL
            if r.exit_code == PASS.exit_code and r.out.strip() == PASS.exit_identifier:
                case['obs'] = {'verdict': True}
            elif r.exit_code == FAIL.exit_code and r.out.strip() == FAIL.exit_identifier:
                case['obs'] = {'verdict': False}
            else:
                raise RuntimeError('neither PASS nor FAIL: exit %s out %r err %r' % (r.exit_code, r.out[:100], r.err[:300]))
        shutil.rmtree(home, ignore_errors=True)


def make_program_cases(rng, n):
    g = Gen(rng)
    cases = []
    for j in range(n):
        via = rng.weighted([('file-instruction', 4), ('contents-instruction', 3), ('stdout-instruction', 3),
                            ('contents-of-copied-files-instruction', 2), ('dir-contents-instruction', 3)])
        g.theme = rng.below(len(REGEXES)) if rng.chance(0.4) else None
        text = gen_text(rng, theme=g.theme)
        if via == 'dir-contents-instruction':
            texts = [text] + [gen_text(rng, long_ok=False, theme=g.theme if rng.chance(0.5) else None) for _ in range(rng.randint(1, 2))]
            rng.shuffle(texts)
            # mostly `-transformed-by T M` with a `filter -line-nums` in T (state kept between applications would show)
            quant = rng.choice(['all', 'any'])
            for _ in range(5):
                if rng.chance(0.75):
                    T = g.linenums_multi(rng.choice(texts)) if rng.chance(0.7) else g.trans(texts[0], 1)
                    T = T if rng.chance(0.6) else ('seq', [T, g.trans(g.ref.t(T, texts[0]), 0)])
                    m = ('trans', T, g.smatcher(g.ref.t(T, rng.choice(texts)), 1))
                else:
                    m = g.smatcher(rng.choice(texts), rng.randint(0, 2))
                # prefer the informative aggregate: every file satisfies M (for `every`), no file does (for `any`) -
                # one wrong application then flips the verdict
                vs = [g.ref.m(m, t) for t in texts]
                if all(vs) if quant == 'all' else not any(vs):
                    break
            cases.append({'kind': 'MF', 'via': via, 'expr': m, 'quant': quant, 'model': ('files', texts),
                          'mem': rng.choice(Program.PMEMS)})
            continue
        if via == 'contents-of-copied-files-instruction':
            model, m = g.equals_focus(text)
            if rng.chance(0.3):
                m = g.smatcher(text, 1)
            cases.append({'kind': 'M', 'via': via, 'expr': m, 'model': ('file', model[1]), 'mem': rng.choice(Program.PMEMS)})
            continue
        depth = rng.weighted([(0, 2), (1, 4), (2, 4)])
        mem = rng.choice(Program.PMEMS)
        if via == 'file-instruction':
            model = ('str', text) if literal_ok(text) and rng.chance(0.3) else ('file', text)
            cases.append({'kind': 'TF', 'via': via, 'expr': g.trans(text, depth), 'model': model, 'mem': mem})
        else:
            cases.append({'kind': 'M', 'via': via, 'expr': g.smatcher(text, depth), 'model': ('file', text), 'mem': mem})
    return cases


# ---------------------------------------------------------------------------------------------
# Cases
# ---------------------------------------------------------------------------------------------
def size_of(x):
    if isinstance(x, (tuple, list)):
        return (1 if isinstance(x, tuple) and x and isinstance(x[0], str) else 0) + sum(size_of(y) for y in x)
    return 0


def kinds_of(x, acc):
    if isinstance(x, tuple) and x and isinstance(x[0], str):
        acc.add(x[0] + (':' + str(x[1]) if x[0] in ('strip', 'line') else ''))
    if isinstance(x, (tuple, list)):
        for y in x:
            kinds_of(y, acc)
    return acc


def check_isspace_table():
    """py_is_space of Spec/C05.v against the interpreter (fail-closed)"""
    tab = {9, 10, 11, 12, 13, 28, 29, 30, 31, 32, 133, 160, 5760, 8192, 8193, 8194, 8195, 8196, 8197, 8198, 8199, 8200,
           8201, 8202, 8232, 8233, 8239, 8287, 12288}
    bad = [c for c in range(0x3100) if chr(c).isspace() != (c in tab)]
    return bad


def make_cases(rng, n_t, n_m, res):
    g = Gen(rng)
    cases = []
    for j in range(n_t + n_m):
        kind = 'T' if j < n_t else 'M'
        g.theme = rng.below(len(REGEXES)) if rng.chance(0.4) else None
        text = gen_text(rng, theme=g.theme)
        model = ('file', text) if rng.chance(0.55) or not literal_ok(text) else ('str', text)
        mem = rng.choice(MEMS)
        depth = rng.weighted([(0, 2), (1, 4), (2, 4), (3, 2)])
        if kind == 'M' and rng.chance(0.08):
            g.theme = None
            text = gen_text(rng) if rng.chance(0.3) else '\n'.join(
                ''.join(rng.choice('ab ,.x') for _ in range(rng.randint(15, 60))) for _ in range(rng.randint(2, 5))) + rng.choice(['', '\n'])
            model, expr = g.equals_focus(text)
        else:
            expr = g.trans(text, depth) if kind == 'T' else g.smatcher(text, depth)
        cases.append({'kind': kind, 'expr': expr, 'model': model, 'mem': mem})
        # ONE primitive applied to SEVERAL texts in sequence (what `every file : contents ...` does): each application is
        # a case of its own, carrying the texts the primitive has seen before.  Always when `filter -line-nums` is
        # involved (its implementation keeps per-application state), else for one case in eight.
        if 'linenums' in kinds_of(expr, set()) or rng.chance(0.12):
            before = [model]
            for _ in range(rng.randint(1, 2)):
                t2 = gen_text(rng, long_ok=False, theme=g.theme if rng.chance(0.5) else None)
                m2 = ('file', t2) if rng.chance(0.55) or not literal_ok(t2) else ('str', t2)
                cases.append({'kind': kind, 'expr': expr, 'model': m2, 'mem': mem, 'before': list(before)})
                before.append(m2)
    return cases


def observe(im, case):
    rnd = Render()
    if case['kind'] == 'T':
        src = rnd.t(case['expr'], top=True)
        case['src'], case['files'] = src, rnd.files
        im.structure_differs = None
        try:
            ls, ext, fext = im.run_t(src, rnd.files, case['model'], case['mem'], case['expr'], case.get('before', ()))
        finally:
            case['structure_differs'] = im.structure_differs
        case['obs'] = {'lines': ls, 'ext': ext, 'fext': fext}
    else:
        src = rnd.m(case['expr'], top=True)
        case['src'], case['files'] = src, rnd.files
        im.structure_differs = None
        try:
            v = im.run_m(src, rnd.files, case['model'], case['mem'], case['expr'], case.get('before', ()))
        finally:
            case['structure_differs'] = im.structure_differs
        case['obs'] = {'verdict': v}


def reference(ref, case):
    if case['kind'] == 'MF':
        vs = [ref.m(case['expr'], t) for t in case['model'][1]]
        return all(vs) if case['quant'] == 'all' else any(vs)
    return ref.t(case['expr'], case['model'][1]) if case['kind'] in ('T', 'TF') else ref.m(case['expr'], case['model'][1])


def coq_case(case):
    ref = Ref()
    ct = CoqTerm()
    if case['kind'] == 'MF':
        case['ref'] = reference(ref, case)
        term_e = ct.m(case['expr'])
        case['oracle_assumption_violations'] = check_case_map_assumptions(ref)
        return '(CaseMFiles %s %s %s %s %s %s)' % (ct.tables(ref), cN(case['mem']), 'QAll' if case['quant'] == 'all' else 'QAny',
                                                   term_e, c_lines(case['model'][1]), cbool(case['obs']['verdict']))
    text = case['model'][1]
    if case['kind'] in ('T', 'TF'):
        case['ref'] = ref.t(case['expr'], text)
        term_e = ct.t(case['expr'])
    else:
        case['ref'] = ref.m(case['expr'], text)
        term_e = ct.m(case['expr'])
    case['oracle_assumption_violations'] = check_case_map_assumptions(ref)
    src = ct.src(case['model'])
    tabs = ct.tables(ref)
    o = case['obs']
    if case['kind'] == 'T':
        return '(CaseT %s %s %s %s %s)' % (tabs, cN(case['mem']), term_e, src, c_lines(o['lines']))
    if case['kind'] == 'TF':
        return '(CaseTText %s %s %s %s %s)' % (tabs, cN(case['mem']), term_e, src, ctext(o['text']))
    return '(CaseM %s %s %s %s %s)' % (tabs, cN(case['mem']), term_e, src, cbool(o['verdict']))


def check_case_map_assumptions(ref):
    """the hypotheses the theorems make on str.upper / str.lower (Proofs: [case_map_ok]), checked on every text the
    case asks about: the conversion of a text is the concatenation of the conversions of its lines, and a line stays
    a line"""
    bad = []
    for t in ref.case:
        for f in (str.upper, str.lower):
            ls = lines_lf(t)
            if f(t) != ''.join(f(l) for l in ls) or [l.endswith('\n') for l in lines_lf(f(t))] != [l.endswith('\n') for l in ls] \
                    or len(lines_lf(f(t))) != len(ls):
                bad.append(t)
    return bad


def tup(x):
    """JSON lists back to the tuples / lists of the ASTs"""
    if isinstance(x, list):
        if x and isinstance(x[0], str) and x[0] in _NODE_NAMES:
            return tuple(tup(y) for y in x)
        return [tup(y) for y in x]
    if isinstance(x, dict):  # symbolic references: {"re": pattern[, "ic": true]}, {"sub": [pattern, replacement][, "ic": true]}
        if 're' in x:
            return rid_of(x['re'], bool(x.get('ic', False)))
        return kid_of(x['sub'][0], bool(x.get('ic', False)), x['sub'][1])
    return x


def sym(x):
    """the AST with pattern numbers replaced by the patterns themselves (what replays and corpus files store)"""
    if isinstance(x, tuple) and x and x[0] in ('matches', 'grep'):
        p, ic = REGEXES[x[2]]
        return [x[0], x[1], {'re': p, 'ic': ic}]
    if isinstance(x, tuple) and x and x[0] == 'replace':
        r, q = SUBS[x[3]]
        return ['replace', sym(x[1]), x[2], {'sub': [REGEXES[r][0], REPLACEMENTS[q]], 'ic': REGEXES[r][1]}]
    if isinstance(x, (tuple, list)):
        return [sym(y) for y in x]
    return x


_NODE_NAMES = {'empty', 'equals', 'matches', 'numlines', 'line', 'trans', 'const', 'not', 'and', 'or', 'contents', 'linenum',
               'identity', 'replace', 'strip', 'upper', 'lower', 'filter', 'grep', 'linenums', 's', 'l', 'u', 'b', 'seq', 'str', 'file', 'strans', 'cmp', 'neg',
               'conj', 'disj'}


def case_json(case):
    return {'kind': case['kind'], 'via': case.get('via', 'parsers + primitives in process'),
            'expression': case.get('src'), 'files_in_home_dir': case.get('files'), 'case_file': case.get('case_file'),
            'source_kind': {'file': 'existing file', 'str': 'constant string', 'files': 'the files of a directory'}[case['model'][0]],
            'text': case['model'][1], 'quant': case.get('quant'),
            'same_primitive_applied_before_to': [list(b) for b in case.get('before', [])],
            'structure_given_by_the_program_differs_from_the_documented_one': case.get('structure_differs'),
            'mem_buff_size': case['mem'], 'implementation_observed': case.get('obs'),
            'reference_semantics_says': case.get('ref'), 'expr': sym(case['expr']), 'model': list(case['model']), 'mem': case['mem']}


def has_exotic(case):
    s = json.dumps(case_json(case), ensure_ascii=False)
    return any(c in s for c in EXOTIC_BREAKS)


def evaluate(cases, res, tag='cases'):
    terms = [coq_case(c) for c in cases]
    for c, t in zip(cases, terms):
        c['term'] = t
    for c in cases:
        if c['oracle_assumption_violations']:
            res.errors.append('str.upper/lower does not distribute over the lines of %r' % c['oracle_assumption_violations'][:2])
    cb, pb, errs = common.run_shards('C05', IMPORTS, 'check_case', terms, shard_size=250, tag=tag)
    res.errors += errs
    for i in pb:
        c = cases[i]
        res.prop_failures.append(Failure('property', case_json(c),
                                         'the implementation\'s result differs from the documented meaning (Spec/C05.v sem_m / sem_t)'
                                         + ('; the program gives the expression another structure than the reference manual '
                                            '(precedence / extent of operands): see the two structures in the case'
                                            if c.get('structure_differs') else '')))
    pbs = set(pb)
    for i, c in enumerate(cases):
        if c.get('structure_differs') and i not in pbs:
            # another structure but the documented result on this text: not shown to be a violation, not shown to be
            # harmless (it may be a change of the description trees only): fail-closed
            res.errors.append('the program gives %r another structure than the documented one, with the documented result on '
                              'this input: %s' % (c.get('src'), json.dumps(c['structure_differs'])[:600]))
    for i in cb:
        c = cases[i]
        res.disagreements.append(Failure('correspondence', case_json(c),
                                         'Model/TextOps.v evaluated on this input differs from the implementation'))
    return cb, pb


def load_corpus():
    d = os.path.join(common.VERIF, 'harness', 'corpus', 'C05')
    out = []
    if os.path.isdir(d):
        for fn in sorted(os.listdir(d)):
            if fn.endswith('.json'):
                for c in json.load(open(os.path.join(d, fn), encoding='utf-8')):
                    out.append({'kind': c['kind'], 'via': c.get('via'), 'expr': tup(c['expr']), 'model': tuple(c['model']),
                                'mem': c['mem'], 'corpus': fn, 'quant': c.get('quant'),
                                'before': [tuple(b) for b in c.get('before', [])]})
    return out


def observe_all(tmp, cases, res):
    im, pg = Impl(tmp), Program(tmp)
    good = []
    for c in cases:
        try:
            if c.get('via') in ('file-instruction', 'contents-instruction', 'stdout-instruction',
                                'contents-of-copied-files-instruction', 'dir-contents-instruction'):
                pg.run(c, im)
            else:
                c.pop('via', None)
                observe(im, c)
        except ImplRaised as ex:
            c['obs'] = {'exception': str(ex)}
            ref = Ref()
            c['ref'] = reference(ref, c)
            res.prop_failures.append(Failure('property', case_json(c), 'the implementation raised / ended in HARD_ERROR or '
                                             'INTERNAL_ERROR while applying a valid expression: no documented verdict / output'))
            continue
        except Exception as ex:  # the real parser rejects a generated expression / reads it differently: fail-closed
            res.errors.append('implementation raised on %r (%s): %s: %s' % (c.get('src'), c.get('via'), type(ex).__name__, str(ex)[:300]))
            if len(res.errors) > 20:
                break
            continue
        good.append(c)
    return good


def run(ctx, res, sizes=None):
    rng = ctx.rng
    n_t, n_m, n_p = sizes or ((1100, 1400, 550) if ctx.quick else (20000, 27000, 4500))
    n_fam = len(REGEXES)
    extend_family(rng, 50 if ctx.quick else 400, 8 if ctx.quick else 30)
    res.extra['regex_family'] = {'fixed_patterns': N_FIXED_REGEXES, 'generated_patterns_this_run': len(REGEXES) - n_fam,
                                 'replacement_strings': len(REPLACEMENTS), 'valid_pattern_replacement_pairs': len(SUBS),
                                 'generated_examples': [p for p, _ in REGEXES[n_fam:n_fam + 12]]}
    bad = check_isspace_table()
    if bad:
        res.errors.append('py_is_space of Spec/C05.v disagrees with str.isspace on code points %s' % bad[:10])
    tmp = tempfile.mkdtemp(prefix='c05-', dir=ctx.work)
    try:
        corpus = load_corpus()
        cases = corpus + make_cases(rng, n_t, n_m, res) + make_program_cases(rng, n_p)
        good = observe_all(tmp, cases, res)
    finally:
        shutil.rmtree(tmp, ignore_errors=True)
    for c in good:
        res.count('kind ' + c['kind'] + ' via ' + c.get('via', 'primitives in process'))
        res.count('source ' + c['model'][0])
        t = c['model'][1]
        if c['model'][0] == 'files':
            t = '\x00'.join(t)  # the texts of a directory, as one key
        if c.get('before'):
            res.count('the same primitive applied to %d text(s) before' % len(c['before']))
        res.count('text: ' + ('empty' if t == '' else 'no final newline' if not t.endswith('\n') else 'ends with newline'))
        res.count('expression size %d' % min(size_of(c['expr']), 12))
        for k in kinds_of(c['expr'], set()):
            res.count('node ' + k)
        if 'verdict' in c['obs']:
            res.count('verdict %s' % c['obs']['verdict'])
        if size_of(c['expr']) >= 2 and (len(lines_lf(t)) >= 2 or (t and not t.endswith('\n'))):
            res.nontrivial.add((c['src'], t, c['model'][0], c.get('via'), len(c.get('before') or ())))
    res.rule = ('corpus first; random expressions (depth <= 3) over every matcher / transformer form of the statement, rendered to '
                'concrete syntax and parsed by the real parsers; texts over {a b A B space tab newline . x 1 , ; ( * [ \\ é ß Σ ...} '
                'with forced shapes (empty, no final newline, blank lines around, whitespace only, long); file and constant-string '
                'sources (all fixture files share one mtime; same-size different-content pairs); 5 memory-buffer sizes; primitives applied '
                'to 2-3 texts in sequence; a stream of whole test cases through MainProgram (contents / stdout / file / copy + contents / dir-contents every|any file '
                'instructions). non-trivial := expression with >= 2 nodes AND text with >= 2 lines or an unterminated last line; '
                'distinct := distinct (expression, text, source kind, route)')
    res.evaluations = len(good)
    res.samples = [case_json(c) for c in good[len(corpus):len(corpus) + 2] + good[-2:]]
    evaluate(good, res)
    # information only (never a failure): does the model predict may_depend_on_external_resources before / after freeze()?
    tcs = [c for c in good if c['kind'] == 'T' and 'linenums' not in kinds_of(c['expr'], set())][:400 if ctx.quick else 4000]
    terms = ['(%s, (%s, %s))' % (c['term'], cbool(c['obs']['ext']), cbool(c['obs']['fext'])) for c in tcs]
    fb, _, ferrs = common.run_shards('C05', IMPORTS, 'check_flags', terms, shard_size=250, tag='flags')
    res.extra['source_flags_information_only'] = {
        'what': 'may_depend_on_external_resources of a transformed source before/after freeze(), model vs implementation; '
                'selects the strategy of equals, cannot change a verdict (C05_equals_all_strategies); not part of pass/fail',
        'compared': len(tcs), 'model_differs': len(fb), 'evaluation_errors': len(ferrs),
        'first_difference': case_json(tcs[fb[0]]) if fb else None}


def search(ctx, res):
    """failing-input search: a second batch from a derived seed; P is evaluated on the implementation's behaviour"""
    r2 = common.Result()
    ctx2 = common.Ctx(ctx.prop, 'quick', ctx.seed + 1)
    run(ctx2, r2, sizes=(2500, 3500, 600))
    return r2.prop_failures


def replay(ctx, payload):
    """re-run one stored input on the implementation, the model and the specification"""
    case = payload.get('case') or (payload.get('correspondence_disagreements') or [{}])[0].get('case')
    if not case or 'expr' not in case:
        print(json.dumps(payload, indent=1, ensure_ascii=False, default=str))
        return 0
    c = {'kind': case['kind'], 'via': case.get('via'), 'expr': tup(case['expr']), 'model': tuple(case['model']), 'mem': case['mem'],
         'quant': case.get('quant'), 'before': [tuple(b) for b in case.get('same_primitive_applied_before_to') or []]}
    res = common.Result()
    tmp = tempfile.mkdtemp(prefix='c05-replay-', dir=ctx.work)
    try:
        good = observe_all(tmp, [c], res)
    finally:
        shutil.rmtree(tmp, ignore_errors=True)
    if not good:
        print('implementation raised:', res.errors)
        return 1
    cb, pb = evaluate(good, res, tag='replay')
    print(json.dumps(case_json(c), indent=1, ensure_ascii=False, default=str))
    print('stored observation     :', case.get('implementation_observed'))
    print('implementation now     :', c['obs'])
    print('reference semantics    :', repr(c.get('ref')))
    print('Coq: model = implementation: %s; documented meaning = implementation: %s; errors: %s'
          % (not cb, not pb, res.errors))
    return 1 if (cb or pb or res.errors) else 0


def gen_tables(ctx):
    common.source_tie('C05')
