"""C02 — outcome table.  (T) tabulates translate_status, the conf-phase status translation, exit values and
the three reporters through their public API into coq/Gen/C02_tables.v; (D) runs real test cases, constructed
to end in every documented way, through MainProgram.execute in the three output modes."""
import io
import os
import pathlib
import shutil
import tempfile

import common
from common import Failure, cZ, cbool, clist, copt, cstring
import impl

EXTRA_PROPS = ['Compose']  # composition theorems printed and counted with this property
TRUSTED_EXTRA = ['harness/py2coq.py (Python->Gallina translator for the small pure functions named in DESIGN 12.8) and coq/Lib/PyVal.v: trusted by the SrcTie theorems only']
EXPLANATION = ('Finite outcome tables proved equal to the documented table in Coq (atc exit code universally quantified); '
               'the model is re-tied on every run to tables regenerated from the running code and to end-to-end runs.')
ASSUMPTIONS = ['INTERNAL_ERROR endings are covered by the tabulated reporters only (no text-only way to provoke one is known '
               'after the C18 fixes)', 'error message text is not part of the observation']

FULL = ['SYNTAX_ERROR', 'PASS', 'VALIDATION_ERROR', 'FAIL', 'SKIPPED', 'XFAIL', 'XPASS', 'HARD_ERROR', 'INTERNAL_ERROR']
ACCESS = {'FILE_ACCESS_ERROR': 'FILE_ACCESS_ERROR', 'PRE_PROCESS_ERROR': 'PRE_PROCESS_ERROR', 'SYNTAX_ERROR': 'ACC_SYNTAX_ERROR'}
FAILS = {'SYNTAX_ERROR': 'FSyntax', 'VALIDATION_ERROR': 'FValidation', 'FAIL': 'FFail', 'HARD_ERROR': 'FHard',
         'INTERNAL_ERROR': 'FInternal'}
TC = {'PASS': 'TPass', 'SKIP': 'TSkip', 'FAIL': 'TFail'}
MODES = {'Normal': [], 'Keep': ['--keep'], 'Act': ['--act']}
IDENT_NAMES = set(FULL) | set(ACCESS)


def c_result(r):
    k = r[0]
    if k == 'executed':
        return '(Executed %s %s %s)' % (r[1], cbool(r[2]), copt(r[3], cZ))
    if k == 'access':
        return '(AccessErr %s)' % ACCESS[r[1]]
    return 'InternalErr'


def c_report(exit_code, out_items, err_ident, atc_err):
    def item(x):
        return '(OIdent %s)' % cstring(x[1]) if x[0] == 'ident' else {'sds': 'OSdsPath', 'atc': 'OAtcOut', 'other': 'OOther'}[x[0]]
    return '(Report %s %s %s %s)' % (cZ(exit_code), clist([item(x) for x in out_items]) if out_items else '(@nil out_item)',
                                      copt(err_ident, cstring), cbool(atc_err))


def classify_out(text, sds_marker=None):
    items = []
    for line in text.splitlines():
        if line in IDENT_NAMES:
            items.append(('ident', line))
        elif line == 'ATCOUT':
            items.append(('atc',))
        elif sds_marker is not None and sds_marker(line):
            items.append(('sds',))
        else:
            items.append(('other',))
    return items


def err_ident_of(text):
    """the exit identifier on stderr: printed first by the reporter (after any output of the action to check)"""
    for line in text.splitlines():
        if line in IDENT_NAMES:
            return line
    return None


# ---------------------------------------------------------------------------------------------
# (T) tables
# ---------------------------------------------------------------------------------------------
def result_maker():
    """returns mk_result(r): a synthetic test_case_processing.Result for a result descriptor"""
    from exactly_lib.execution.full_execution import result as fres
    from exactly_lib.execution.result import ActionToCheckOutcome
    from exactly_lib.execution.failure_info import ActPhaseFailureInfo
    from exactly_lib.execution import phase_step
    from exactly_lib.test_case.result.failure_details import FailureDetails
    from exactly_lib.processing import test_case_processing as tcp
    from exactly_lib.tcfs.sds import SandboxDs
    from exactly_lib.test_case import error_description
    fi = ActPhaseFailureInfo(phase_step.CONFIGURATION__MAIN, FailureDetails.new_constant_message('MSG'), 'actor', 'src')

    def mk_result(r):
        if r[0] == 'executed':
            st = fres.FullExeResultStatus[r[1]]
            sds = SandboxDs('/SDS-ROOT') if r[2] else None
            atc = None if r[3] is None else ActionToCheckOutcome(r[3])
            failure = None if r[1] in ('PASS', 'SKIPPED', 'XPASS') else fi
            return tcp.new_executed(fres.FullExeResult(st, sds, atc, failure))
        ei = tcp.ErrorInfo(error_description.of_constant_message('MSG'))
        if r[0] == 'access':
            return tcp.new_access_error(tcp.AccessErrorType[r[1]], ei)
        return tcp.new_internal_error(ei)

    return mk_result


def gen_tables(ctx):
    common.source_tie('C02')
    from exactly_lib.execution.full_execution import result as fres, execution as fexe
    from exactly_lib.execution.result import ExecutionFailureStatus, PhaseStepFailure, ActionToCheckOutcome
    from exactly_lib.execution.failure_info import ActPhaseFailureInfo
    from exactly_lib.execution import phase_step
    from exactly_lib.test_case.test_case_status import TestCaseStatus
    from exactly_lib.test_case.result.failure_details import FailureDetails
    from exactly_lib.processing import test_case_processing as tcp, exit_values
    from exactly_lib.processing.standalone import result_reporting
    from exactly_lib.processing.standalone.settings import ReportingOption
    from exactly_lib.common.process_result_reporter import Environment, StdOutputFilePrinters
    from exactly_lib.util.file_utils.std import StdOutputFiles
    from exactly_lib.tcfs.sds import SandboxDs
    from exactly_lib.test_case import error_description

    lines = ['(* GENERATED on every run by harness/c02.py from the running code under /repo/src. Do not edit. *)',
             'From Coq Require Import ZArith List Bool String.', 'From Exactly Require Import Model.Outcome.',
             'Import ListNotations.', 'Open Scope Z_scope.', '']
    # translate_status
    rows = []
    for mode in (TestCaseStatus.PASS, TestCaseStatus.FAIL):
        for ps in [None] + list(ExecutionFailureStatus):
            s = fres.translate_status(mode, ps)
            rows.append('(%s, %s, %s)' % (TC[mode.name], 'None' if ps is None else '(Some %s)' % FAILS[ps.name], s.name))
    lines.append('Definition gen_translate_status : list (tc_status * option fail_status * full_status) :=\n  %s.' % clist(rows))
    # conf phase failure translation
    fi = ActPhaseFailureInfo(phase_step.CONFIGURATION__MAIN, FailureDetails.new_constant_message('MSG'), 'actor', 'src')
    rows = []
    for ps in ExecutionFailureStatus:
        try:
            r = fexe.new_configuration_phase_failure_from(PhaseStepFailure(ps, fi))
        except KeyError:
            continue  # status that the conf phase cannot produce
        rows.append('(%s, %s)' % (FAILS[ps.name], r.status.name))
    lines.append('Definition gen_conf_status_translation : list (fail_status * full_status) :=\n  %s.' % clist(rows))

    mk_result = result_maker()

    # a completely executed case (PASS/FAIL/XPASS/XFAIL) always has an outcome of the action to check
    all_results = ([('executed', s, h, c) for s in FULL for h in (True, False) for c in (None, 0, 7, 255)
                    if not (c is None and s in ('PASS', 'FAIL', 'XPASS', 'XFAIL'))]
                   + [('access', a) for a in ACCESS] + [('internal',)])
    rows = []
    for r in [('executed', s, False, None) for s in FULL] + [('access', a) for a in ACCESS] + [('internal',)]:
        ev = exit_values.from_result(mk_result(r))
        rows.append('(%s, %s, %s)' % (c_result(r), cZ(ev.exit_code), cstring(ev.exit_identifier)))
    lines.append('Definition gen_exit_values : list (proc_result * Z * string) :=\n  %s.' % clist(rows))
    opts = {'Normal': ReportingOption.STATUS_CODE, 'Keep': ReportingOption.SANDBOX_DIRECTORY_STRUCTURE_ROOT,
            'Act': ReportingOption.ACT_PHASE_OUTPUT}
    rows = []
    for m, opt in opts.items():
        for r in all_results:
            out, err = io.StringIO(), io.StringIO()
            files = StdOutputFiles(out, err)
            reporter = result_reporting.RESULT_REPORTERS[opt](Environment(files, StdOutputFilePrinters.new_plain(files)))
            code = reporter.report(mk_result(r))
            rows.append('(%s, %s, %s)' % (m, c_result(r), c_report(code, classify_out(out.getvalue(), lambda l: l == '/SDS-ROOT'),
                                                                    err_ident_of(err.getvalue()), False)))
    lines.append('Definition gen_reports : list (mode * proc_result * report_t) :=\n  %s.' % clist(rows))
    common.write_if_changed(os.path.join(common.COQ, 'Gen', 'C02_tables.v'), '\n'.join(lines) + '\n')


# ---------------------------------------------------------------------------------------------
# (D) end to end
# ---------------------------------------------------------------------------------------------
DESCRIPTIONS = [
    ('described instructions', 'checks the thing'),
    ('descriptions with format-significant characters', 'checks ${HOME} {0} {} {x!r} %s %(a)d'),
    ('descriptions with a lone brace', 'a { b'),
]


def with_descriptions(text, desc):
    out = []
    phase = None
    here = None
    for line in text.split('\n'):
        st = line.strip()
        if here is not None:  # inside a here-document
            if st == here:
                here = None
            out.append(line)
            continue
        if '<<' in st:
            here = st.rsplit('<<', 1)[1].strip()
        if st.startswith('[') and st.endswith(']'):
            phase = st[1:-1]
        elif st and phase not in (None, 'act') and not st.startswith('including') and not st.startswith('#'):
            out.append('`%s`' % desc)
        out.append(line)
    return '\n'.join(out)


def atc_line(code):
    return '$ echo ATCOUT; echo ATCERR >&2; exit %d' % code


def endings(code, status):
    """(name, case text, extra files, extra argv, constructed result) — the result uses the verdict the documented
    table gives; has_sds/atc as the construction implies."""
    conf = '' if status == 'PASS' else '[conf]\nstatus = %s\n' % status
    act = '[act]\n%s\n' % atc_line(code)
    other = (code + 1) % 256

    def verdict(outcome):  # outcome: None (all pass) | 'FAIL' | error name
        if status == 'SKIP':
            return ('executed', 'SKIPPED', False, None)
        if outcome is None:
            return ('executed', 'XPASS' if status == 'FAIL' else 'PASS', True, code)
        if outcome == 'FAIL':
            return ('executed', 'XFAIL' if status == 'FAIL' else 'FAIL', True, code)
        return None

    es = [
        ('pass', conf + act + '[assert]\nexit-code == %d\n' % code, {}, [], verdict(None)),
        ('failing assertion', conf + act + '[assert]\nexit-code == %d\n' % other, {}, [], verdict('FAIL')),
        ('syntax error in [assert]', conf + act + '[assert]\nno-such-instruction x\n', {}, [], ('access', 'SYNTAX_ERROR')),
        ('syntax error in a later phase than all others', conf + act + '[cleanup]\nfile\n', {}, [], ('access', 'SYNTAX_ERROR')),
        ('missing included file', conf + act + '[assert]\nincluding missing-file.xly\n', {}, [], ('access', 'FILE_ACCESS_ERROR')),
        ('failing preprocessor', conf + act, {}, ['--preprocessor', 'false'], ('access', 'PRE_PROCESS_ERROR')),
        ('preprocessor that does not exist', conf + act, {}, ['--preprocessor', 'no-such-preprocessor-c02'], ('access', 'PRE_PROCESS_ERROR')),
        ('preprocessor that is a directory', conf + act, {}, ['--preprocessor', '/'], ('access', 'PRE_PROCESS_ERROR')),
        ('preprocessor that is not executable', conf + act, {'not-exe.txt': 'x'}, ['--preprocessor', './not-exe.txt'], ('access', 'PRE_PROCESS_ERROR')),
        # regression of FIX-C02-1: the identifier of an error in the suite file given with --suite follows the output mode
        ('syntax error in the suite file given with --suite', conf + act, {'bad.suite': '[cases]\n[nonsense\n'},
         ['--suite', 'bad.suite'], ('access', 'SYNTAX_ERROR')),
        ('syntax error in a [setup] instruction of the suite file given with --suite', conf + act,
         {'bad2.suite': '[setup]\nno-such-instruction x\n'}, ['--suite', 'bad2.suite'], ('access', 'SYNTAX_ERROR')),
    ]
    # a failing [conf] instruction AFTER the status has been set (to any status, SKIP included): the conf phase fails, nothing
    # else runs; and a failing one BEFORE a status line
    es += [
        ('conf-phase validation error after the status line', conf + '[conf]\nhome = does-not-exist-c02\n' + act, {}, [],
         ('executed', 'VALIDATION_ERROR', False, None)),
        ('conf-phase validation error (act-home) after the status line', conf + '[conf]\nact-home = does-not-exist-c02\n' + act, {}, [],
         ('executed', 'VALIDATION_ERROR', False, None)),
        ('conf-phase validation error before the status line', '[conf]\nhome = does-not-exist-c02\n' + conf + act, {}, [],
         ('executed', 'VALIDATION_ERROR', False, None)),
    ]
    both = "sh -c 'echo helper-on-stdout; echo helper-on-stderr >&2; exit 3'"
    es += [
        # programs run as TEXT SOURCES by instructions write on both channels: nothing of it may reach the program's own output
        ('pass, with helper programs writing on both channels', conf + '[setup]\nfile e.txt = -stderr-from -ignore-exit-code % ' + both +
         '\nfile o.txt = -stdout-from -ignore-exit-code % ' + both + '\nrun -ignore-exit-code % ' + both + '\n' + act +
         '[assert]\nexit-code == %d\ncontents e.txt : equals <<EOF\nhelper-on-stderr\nEOF\n' % code, {}, [], verdict(None)),
        ('failing assertion, with helper programs writing on both channels', conf + act +
         '[before-assert]\nfile e.txt = -stderr-from -ignore-exit-code % ' + both + '\n[assert]\nexit-code == ' + str(other) + '\n[cleanup]\nfile o.txt = -stdout-from -ignore-exit-code % ' + both + '\n',
         {}, [], verdict('FAIL')),
    ]
    # how the status comes to be configured: the case's [conf], the [conf] of ./exactly.suite, the [conf] of --suite FILE
    # (documented precedence: --suite overrides the default suite file; the case's own [conf] comes last and wins)
    dflt_skip = {'exactly.suite': '[conf]\nstatus = SKIP\n'}
    dflt_fail = {'exactly.suite': '[conf]\nstatus = FAIL\n'}
    other_fail = {'other.suite': '[conf]\nstatus = FAIL\n'}
    other_plain = {'other.suite': '[cases]\n'}
    passing = '[assert]\nexit-code == %d\n' % code
    if status == 'PASS':
        es += [
            ('status from ./exactly.suite (FAIL), passing', act + passing, dflt_fail, [], ('executed', 'XPASS', True, code)),
            ('status from ./exactly.suite (SKIP)', act + passing, dflt_skip, [], ('executed', 'SKIPPED', False, None)),
            ('status from --suite (FAIL) although ./exactly.suite says SKIP, passing', act + passing, dict(dflt_skip, **other_fail),
             ['--suite', 'other.suite'], ('executed', 'XPASS', True, code)),
            ('status from --suite (FAIL) although ./exactly.suite says SKIP, failing assertion',
             act + '[assert]\nexit-code == %d\n' % other, dict(dflt_skip, **other_fail), ['--suite', 'other.suite'],
             ('executed', 'XFAIL', True, code)),
            ('--suite without status although ./exactly.suite says FAIL, passing', act + passing, dict(dflt_fail, **other_plain),
             ['--suite', 'other.suite'], ('executed', 'PASS', True, code)),
        ]
    else:
        es += [('own status although ./exactly.suite and --suite say otherwise', conf + act + passing,
                {'exactly.suite': '[conf]\nstatus = %s\n' % ('SKIP' if status == 'FAIL' else 'FAIL'), 'other.suite': '[conf]\nstatus = PASS\n'},
                ['--suite', 'other.suite'], verdict(None))]
    if status != 'SKIP':
        es += [
            ('act phase syntax error', conf + '[act]\n"unterminated\n', {}, [], ('executed', 'SYNTAX_ERROR', False, None)),
            ('validation error (missing home file)', conf + '[setup]\nfile f.txt = -contents-of -rel-home missing.txt\n' + act,
             {}, [], ('executed', 'VALIDATION_ERROR', False, None)),
            ('validation error (undefined symbol in cleanup)', conf + act + '[cleanup]\nfile f.txt = @[UNDEFINED]@\n',
             {}, [], ('executed', 'VALIDATION_ERROR', False, None)),
            ('hard error in [setup]', conf + '[setup]\n$ exit 1\n' + act, {}, [], ('executed', 'HARD_ERROR', True, None)),
            # the action to check refers to a sandbox file that does not exist after [setup]: hard error at act/validate-post-setup
            ('hard error at act validation after setup (program missing in the sandbox)', conf + '[act]\n-rel-act missing-program-c02 arg\n', {}, [],
             ('executed', 'HARD_ERROR', True, None)),
            ('hard error at act validation after setup (file actor, script missing in the sandbox)',
             conf + '[conf]\nactor = file % /bin/sh\n[act]\n-rel-tmp missing-script-c02.sh\n', {}, [], ('executed', 'HARD_ERROR', True, None)),
            ('hard error in [before-assert]', conf + act + '[before-assert]\n$ exit 1\n', {}, [], ('executed', 'HARD_ERROR', True, code)),
            ('hard error in [assert]', conf + act + '[assert]\ncontents no-such-file.txt : is-empty\n', {}, [],
             ('executed', 'HARD_ERROR', True, code)),
            ('hard error in [cleanup]', conf + act + '[assert]\nexit-code == %d\n[cleanup]\n$ exit 1\n' % code, {}, [],
             ('executed', 'HARD_ERROR', True, code)),
            # INTERNAL_ERROR with real instructions: the recorded C08/C18 finding (symbol defined after a failing assertion, used in cleanup)
            ('internal error in [cleanup] (KeyError of a symbol defined after a failing assertion)',
             conf + act + '[assert]\nexit-code == %d\ndef string C02_X = a\n[cleanup]\n$ echo @[C02_X]@\n' % other, {}, [],
             ('executed', 'INTERNAL_ERROR', True, code)),
            ('failing assertion then hard error in [cleanup]', conf + act + '[assert]\nexit-code == %d\n[cleanup]\n$ exit 1\n' % other,
             {}, [], ('executed', 'HARD_ERROR', True, code)),
        ]
    else:
        es += [('skip with later validation error', conf + act + '[cleanup]\nfile f.txt = @[UNDEFINED]@\n', {}, [],
                ('executed', 'SKIPPED', False, None))]
    return es


def run(ctx, res):
    rng = ctx.rng
    root = tempfile.mkdtemp(prefix='c02-', dir=ctx.work)
    sbx = os.path.join(root, 'sandboxes')
    os.makedirs(sbx)
    mp = impl.main_program(sbx)
    codes = [0, 1, 2, 32, 33, 65, 128, 129, 255] + [rng.randint(3, 254) for _ in range(3 if ctx.quick else 40)]
    cases = []
    meta = []
    res.rule = ('every way of ending (pass, failing assertion, syntax error at file level and in [act], two validation errors, '
                'hard error in each phase, missing included file, failing preprocessor, SKIP) x status PASS/FAIL/SKIP x '
                'mode normal/--keep/--act x exit codes of the action to check {0,1,2,32,33,65,128,129,255} + random; run '
                'through MainProgram.execute. non-trivial := not (pass in normal mode); distinct := (ending, status, mode, code)')
    n = 0
    for ci, code in enumerate(codes):
        for status in ('PASS', 'FAIL', 'SKIP'):
            es = endings(code, status)
            if ci < 2 or ci == len(codes) - 1:
                # the same endings with an instruction description (`text` before the instruction) on every instruction outside
                # [act]: a description is part of the error report of a located failure, and must not change code or identifier
                for (name, text, files, extra, result) in list(es):
                    if name == 'act phase syntax error':
                        continue
                    for dname, desc in DESCRIPTIONS:
                        es.append((name + ' / ' + dname, with_descriptions(text, desc), files, extra, result))
            for (name, text, files, extra, result) in es:
                # under --act, when the act phase is not reached or assertions are skipped the constructed result differs:
                for mode, margs in MODES.items():
                    r = result
                    if mode == 'Act' and r[0] == 'executed':
                        # --act skips before-assert/assert/cleanup?  No: only assertions are skipped (DESIGN C02 note):
                        # the verdict is computed without the assert phase.
                        r = act_mode_result(name, status, code, r)
                        if r is None:
                            continue
                    d = os.path.join(root, 'c%d' % n)
                    n += 1
                    os.makedirs(d)
                    with open(os.path.join(d, 'test.case'), 'w') as f:
                        f.write(text)
                    for fn, content in files.items():
                        open(os.path.join(d, fn), 'w').write(content)
                    pr = impl.run_main(mp, margs + extra + ['test.case'], d, d)
                    runs = [('in process', pr)]
                    if ('helper programs' in name and ' / ' not in name and (ci == 0 or (not ctx.quick and ci < 6))) or rng.chance(0.004 if ctx.quick else 0.01):
                        # the same through the real entry point, as a process (what a user runs; output inherited by children
                        # of the program is only visible this way)
                        runs.append(('process', impl.run_cli(margs + extra + ['test.case'], d, sbx)))
                    for how, pr in runs:
                      if pr.exception is not None:
                        res.prop_failures.append(Failure('property', {'ending': name, 'status': status, 'mode': mode, 'atc_exit': code,
                                                                      'case': text, 'run as': how},
                                                         'exception escaped MainProgram.execute / the process did not end: %r' % pr.exception))
                        continue
                      obs = (pr.exit_code, classify_out(pr.out, lambda l: l.startswith(sbx + os.sep)), err_ident_of(pr.err),
                             pr.err.startswith('ATCERR\n'))
                      cases.append('(C02Case %s %s %s)' % (mode, c_result(r), c_report(*obs)))
                      meta.append({'ending': name, 'status': status, 'mode': mode, 'atc_exit': code, 'case': text, 'run as': how,
                                   'argv': margs + extra + ['test.case'], 'constructed_result': r,
                                   'observed': {'exit': pr.exit_code, 'stdout': pr.out[:300], 'stderr': pr.err[:300]}})
                      res.count('run as: ' + how)
                    pr = runs[0][1]
                    if pr.exception is not None:
                        continue
                    res.count('mode ' + mode)
                    res.count('ending: ' + name)
                    if not (name == 'pass' and mode == 'Normal'):
                        res.nontrivial.add((name, status, mode, code))
                    shutil.rmtree(d, ignore_errors=True)
                    continue
                    if pr.exception is not None:
                        res.prop_failures.append(Failure('property', {'ending': name, 'status': status, 'mode': mode, 'atc_exit': code,
                                                                      'case': text},
                                                         'exception escaped MainProgram.execute: %r' % pr.exception))
                        continue
                    obs = (pr.exit_code, classify_out(pr.out, lambda l: l.startswith(sbx + os.sep)), err_ident_of(pr.err),
                           pr.err.startswith('ATCERR\n'))
                    cases.append('(C02Case %s %s %s)' % (mode, c_result(r), c_report(*obs)))
                    meta.append({'ending': name, 'status': status, 'mode': mode, 'atc_exit': code, 'case': text,
                                 'argv': margs + extra + ['test.case'], 'constructed_result': r,
                                 'observed': {'exit': pr.exit_code, 'stdout': pr.out[:300], 'stderr': pr.err[:300]}})
                    res.count('mode ' + mode)
                    res.count('ending: ' + name)
                    if not (name == 'pass' and mode == 'Normal'):
                        res.nontrivial.add((name, status, mode, code))
                    shutil.rmtree(d, ignore_errors=True)
    # invalid usage
    usage_cases = []
    usage = [['--no-such-option', 'x.case'], ['missing-file.case'], ['--keep'], ['--act', '--keep', 'missing.case'],
             ['suite'], ['symbol']]
    # option values that are not a command line: empty, white space only, unbalanced quotes — with an existing, valid case file
    for opt in ('--actor', '--preprocessor'):
        for val in ('', ' ', ' \t ', "'unbalanced", '"unbalanced'):
            for margs in ([], ['--keep'], ['--act']):
                usage.append(margs + [opt, val, 'ok.case'])
    for val in ('', ' ', "'unbalanced"):
        usage.append(['suite', '--actor', val, 'ok.suite'])
    # a FILE argument that cannot be a file: below a regular file, a dangling link, (--suite) a directory
    for margs in ([], ['--keep'], ['--act']):
        usage += [margs + ['ok.case/x.case'], margs + ['--suite', 'ok.case/s.suite', 'ok.case'], margs + ['dangling.case'],
                  margs + ['--suite', 'missing.suite', 'ok.case'], margs + ['no-such-dir/x.case']]
    usage += [['suite', 'ok.case/x.suite'], ['suite', 'missing.suite'], ['symbol', 'ok.case/x.case'], ['symbol', 'missing.case']]
    for ui, argv in enumerate(usage):
        d = os.path.join(root, 'u%d' % ui)
        os.makedirs(d)
        open(os.path.join(d, 'ok.case'), 'w').write('[act]\n' + atc_line(0) + '\n')
        open(os.path.join(d, 'ok.suite'), 'w').write('[cases]\nok.case\n')
        os.symlink('no-such-target-c02', os.path.join(d, 'dangling.case'))
        pr = impl.run_main(mp, argv, d, d)
        if pr.exception is not None:
            res.prop_failures.append(Failure('property', {'argv': argv}, 'exception escaped: %r' % pr.exception))
            continue
        usage_cases.append(c_report(pr.exit_code, classify_out(pr.out), err_ident_of(pr.err), False))
        meta.append({'invalid_usage_argv': argv, 'observed': {'exit': pr.exit_code, 'stdout': pr.out[:200], 'stderr': pr.err[:200]}})
        res.nontrivial.add(('usage', tuple(argv)))
    shutil.rmtree(root, ignore_errors=True)
    res.evaluations = len(cases) + len(usage_cases)
    res.samples = [meta[1], meta[len(meta) // 2], meta[-1]]
    cb, pb, errs = common.run_shards('C02', ['Model.Outcome', 'Spec.C02'], 'check_c02', cases, tag='cases')
    res.errors += errs
    for i in pb:
        res.prop_failures.append(Failure('property', meta[i], 'exit code / identifier / streams differ from the documented table'))
    for i in cb:
        res.disagreements.append(Failure('correspondence', meta[i], 'model program_output differs from the real program'))
    cb, pb, errs = common.run_shards('C02', ['Model.Outcome', 'Spec.C02'], 'check_usage', usage_cases, tag='usage')
    res.errors += errs
    base = len(cases)
    for i in pb:
        res.prop_failures.append(Failure('property', meta[base + i], 'invalid usage must give exit code 64 and no identifier'))
    for i in cb:
        res.disagreements.append(Failure('correspondence', meta[base + i], 'model report_invalid_usage differs'))


def act_mode_result(name, status, code, r):
    """Constructed result under --act: [before-assert] and [assert] are skipped; validation of all phases, [setup] and
    [cleanup] still happen (observed on the real program; README: "--act ... executes the act phase")."""
    if r[0] != 'executed' or status == 'SKIP':
        return r
    if name.split(' / ')[0] in ('failing assertion', 'hard error in [assert]', 'hard error in [before-assert]'):
        return ('executed', 'XPASS' if status == 'FAIL' else 'PASS', True, code)
    return r


def replay(ctx, payload):
    import json
    print(json.dumps(payload.get('case'), indent=1, default=str))
    return 0
