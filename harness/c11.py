"""C11 - settings persist forward: cd, env (act / non-act), timeout.  Correspondence harness.

Implementation side: generated REAL test case files run in process through the real main program
(`impl.main_program` / `impl.run_main`), whose test-case processor is given - through the public constructors
`processing.standalone.processor.Processor` and `os_services_access.new_for_cmd_exe` - a command executor that
records the `ProcessExecutionSettings` (timeout, environ) handed over for every process and then delegates to the
real executor.  Probe instructions (`$ env -0 > F; pwd > F`, `% perl probe.pl F`, `file .. = -stdout-from $ ...`)
placed after the settings instructions, and as the act program, report the environment and current directory the
child process REALLY has; the timeout is the value handed to the process executor for that process.
Model side: Model/Settings.v (`run`) and the property predicate `P_C11` of Spec/C11.v, evaluated by vm_compute.
"""
import json
import multiprocessing
import os
import re
import shutil
import tempfile

import common
from common import Failure, cN, cnat, clist, copt, ctext
import impl  # noqa: F401  (sets sys.path)

EXPLANATION = ('Theorems (Props/C11.v): the Gallina model of the environ / timeout / cd bookkeeping (None = inherit, '
               'populate on first modification, act applier only in [setup], the scanning loop of _expand_vars, act '
               'settings captured after setup/main) refines, for ALL histories, a specification with two plain total '
               'maps; corollaries: no backward effect, act sees the act set and others the non-act set, expansion '
               'against a declarative substitution, timeout / cd forward.  The model is tied to the code on every '
               'run by real test cases with probe processes.')
ASSUMPTIONS = ['the timeout in force is observed as the `timeout` argument of the wait on the child process (subprocess.Popen.wait, '
               'wrapped by the harness for the duration of a run; fallback: the value handed to the command executor); for the '
               'boundary value 0 the harness records it and then waits without limit, so that the probe can report - what '
               'happens when a timeout expires is C19',
               'what a child process sees is observed with probe programs (sh+env, perl); that a child changing its '
               'own directory does not change the parent is an operating system fact, observed only',
               'values are constant strings, or the output of a program printing a constant string; values taken from files / here-documents are outside the model',
               'the variable PWD, which dash exports by itself, is removed from what shell probes report',
               'the program computing the value of `env NAME = -stdout-from PROGRAM` is observed as a process too: the timeout handed '
               'to it and its current directory are judged; its ENVIRONMENT (documented: that of the set being changed) is not judged '
               'by the property predicate, only compared with the model']
TRUSTED_EXTRA = ['harness/c11.py: history generator, rendering to exactly syntax, probe programs, canonicaliser']

PROP = 'C11'
EXTRA_PROPS = ['C11C01']  # composition with C01: the model's execution order is the phased executor's (Proofs/SettingsExec.v)
PHASES = ['setup', 'before_assert', 'assert', 'cleanup']
PHASE_HEADER = {'setup': '[setup]', 'before_assert': '[before-assert]', 'assert': '[assert]', 'cleanup': '[cleanup]'}
PHASE_TAG = {'setup': 's', 'before_assert': 'b', 'assert': 'a', 'cleanup': 'c'}
PHASE_COQ = {'setup': 'PSetup', 'before_assert': 'PBeforeAssert', 'assert': 'PAssert', 'cleanup': 'PCleanup'}
TAG_PHASE = {v: k for k, v in PHASE_TAG.items()}

# the directories that exist below the sandbox root during a run (the prelude of every case creates the
# non-standard ones)
DIRS = [[], ['act'], ['act', 'd1'], ['act', 'd1', 'd2'], ['act', 'e1'], ['tmp'], ['tmp', 't1'], ['result'],
        ['internal']]
PRELUDE = ['dir d1/d2', 'dir e1', 'dir -rel-tmp t1']
BASE_COQ = {'cwd': 'RelCwd', 'act': 'RelAct', 'tmp': 'RelTmp', 'result': 'RelResult'}
BASE_OPT = {'cwd': '', 'act': '-rel-act ', 'tmp': '-rel-tmp ', 'result': '-rel-result '}
BASE_DIR = {'act': ['act'], 'tmp': ['tmp'], 'result': ['result']}
TARGET_COQ = {'both': 'TBoth', 'act': 'TAct', 'nonact': 'TNonAct'}
TARGET_OPT = {'both': '', 'act': '-of act ', 'nonact': '-of !act '}

NAMES = ['A', 'B', 'C', 'A1', '_x', 'b', 'LONG_NAME_9']
SHELL_ADDED = ('PWD',)  # exported by dash itself

PERL_PROBE = '''use Cwd;
open(F, ">", $ARGV[0] . ".env") or die;
foreach my $k (keys %ENV) { print F $k, "=", $ENV{$k}, "\\0"; }
close(F);
open(G, ">", $ARGV[0] . ".cwd") or die;
print G getcwd(), "\\n";
close(G);
'''


# ------------------------------------------------------------------------------------------------
# generator
# ------------------------------------------------------------------------------------------------
def py_walk(p, suffix):
    p = list(p)
    for c in suffix:
        if c == '..':
            if not p:
                return None
            p.pop()
        elif c != '.':
            p.append(c)
    return p


def gen_value(rng):
    """value strings with ${A}, ${UNSET}, $A, ${, nested-looking and adjacent references"""
    n = rng.weighted([(0, 1), (1, 5), (2, 6), (3, 5), (4, 2), (6, 1)])
    parts = []
    for _ in range(n):
        k = rng.below(20)
        nm = rng.choice(NAMES)
        if k < 7:
            parts.append('${%s}' % nm)
        elif k < 8:
            parts.append('${NOT_SET}')
        elif k < 9:
            parts.append('$' + nm)
        elif k < 10:
            parts.append('${')
        elif k < 11:
            parts.append('${%s${%s}}' % (nm, rng.choice(NAMES)))
        elif k < 12:
            parts.append(rng.choice(['${}', '${%s' % nm, '{%s}' % nm, '$${%s}' % nm, '${%s-}' % nm, '${ %s}' % nm,
                                     '$', '}', '$}{', '${é}', '${%s}}' % nm, '${${%s}' % nm]))
        else:
            parts.append(rng.choice(['a', 'b', 'xy', ' ', '-', '/', '.', '0', '_', 'v%d' % rng.below(10), 'é']))
    return ''.join(parts)


def gen_ops(rng, phase, n, sim):
    """sim: {'cwd': path} - a python-side simulation of the directory only, so that most cd's are valid"""
    ops = []
    for _ in range(n):
        k = rng.below(100)
        if k < 45:
            tgt = rng.weighted([('both', 4), ('act', 3), ('nonact', 3)])
            if rng.chance(0.22):
                # the value is the output of a program: that program is one more observed process (timeout, cwd)
                ops.append(['envprog', tgt, rng.choice(NAMES), gen_value(rng)])
            elif rng.chance(0.8):
                ops.append(['env', tgt, 'set', rng.choice(NAMES), gen_value(rng)])
            else:
                ops.append(['env', tgt, 'unset', rng.choice(NAMES)])
        elif k < 65 and sim.get('fail') and rng.chance(0.5):
            # a cd that fails: missing directory (HARD_ERROR: the phases before cleanup halt here)
            sim['fail'] = False
            ops.append(['cd', rng.choice(['cwd', 'act', 'tmp']), rng.choice([['nope'], ['d1', 'nope'], ['d2', 'd1']])])
        elif k < 65:
            bases = ['cwd', 'cwd', 'act', 'tmp'] + (['result'] if phase != 'setup' else [])
            for _try in range(6):
                base = rng.choice(bases)
                suffix = rng.choice([['d1'], ['d1', 'd2'], ['e1'], ['t1'], ['..'], ['.'], ['d2'], ['..', 'e1'],
                                     ['d1', '..', 'e1'], ['..', '..', 'tmp', 't1'], ['d1', '.', 'd2']])
                start = sim['cwd'] if base == 'cwd' else BASE_DIR[base]
                d = py_walk(start, suffix)
                if d is not None and d in DIRS and d != []:
                    sim['cwd'] = d
                    ops.append(['cd', base, suffix])
                    break
            else:
                ops.append(['cd', 'act', ['.']])
                sim['cwd'] = ['act']
        elif k < 80:
            ops.append(['timeout', rng.weighted([(None, 4), (0, 3), (rng.randint(30, 999), 13)])])  # 0: the legal boundary value
        elif k < 87:
            ops.append(['childcd', 'cwd', rng.choice([['d1'], ['..'], ['d2'], ['e1'], ['..', '..']])])
        else:
            ops.append(['probe', rng.below(3)])
        # a probe after (nearly) every change
        if ops[-1][0] != 'probe' and rng.chance(0.85):
            ops.append(['probe', rng.below(3)])
    return ops


def gen_case(rng, max_ops):
    total = rng.randint(1, max_ops)
    # distribute over the four phases in any way
    cuts = sorted(rng.below(total + 1) for _ in range(3))
    counts = [cuts[0], cuts[1] - cuts[0], cuts[2] - cuts[1], total - cuts[2]]
    if rng.chance(0.3):
        rng.shuffle(counts)
    default = {}
    for nm in rng.sample(NAMES, rng.randint(0, 4)):
        default[nm] = rng.choice(['i' + nm, '', 'x y', '${A}', 'init'])
    sim = {'cwd': ['act'], 'fail': rng.chance(0.12)}
    phases = {}
    for ph, n in zip(PHASES, counts):
        phases[ph] = gen_ops(rng, ph, n, sim)
        if ph != 'cleanup' and not any(o[0] == 'probe' for o in phases[ph]) and rng.chance(0.5):
            phases[ph].append(['probe', rng.below(3)])
    if not any(o[0] == 'probe' for o in phases['cleanup']):
        phases['cleanup'].append(['probe', rng.below(3)])
    return {'default': default, 'phases': phases, 'act_probe': rng.below(4)}


# ------------------------------------------------------------------------------------------------
# rendering to a test case file
# ------------------------------------------------------------------------------------------------
def quote(s):
    assert "'" not in s and '\n' not in s
    return "'" + s + "'"


def render_probe(kind, out, tag, perl_script, in_act=False):
    shell = '/usr/bin/env -0 > %s/%s.env; /bin/pwd > %s/%s.cwd' % (out, tag, out, tag)
    if kind == 1:
        return '%% /usr/bin/perl %s %s/%s' % (perl_script, out, tag)
    if kind == 2 and not in_act:
        # a process started to produce the contents of a file
        return 'file -rel-tmp probe-%s.txt = -stdout-from $ %s' % (tag, shell)
    return '$ ' + shell


def render_op(op, out, tag, perl_script):
    k = op[0]
    if k == 'env':
        _, tgt, what, nm = op[:4]
        if what == 'set':
            return 'env %s%s = %s' % (TARGET_OPT[tgt], nm, quote(op[4]))
        return 'env %sunset %s' % (TARGET_OPT[tgt], nm)
    if k == 'envprog':
        # one file pair per RUN of the program ($$ = pid of the shell): the program runs once per set being changed
        return ("env %s%s = -stdout-from $ /usr/bin/env -0 > %s/%s-$$.env; /bin/pwd > %s/%s-$$.cwd; printf %%s %s"
                % (TARGET_OPT[op[1]], op[2], out, tag, out, tag, quote(op[3])))
    if k == 'cd':
        return 'cd %s%s' % (BASE_OPT[op[1]], '/'.join(op[2]))
    if k == 'timeout':
        return 'timeout = %s' % ('none' if op[1] is None else op[1])
    if k == 'childcd':
        return '$ cd %s ; /bin/pwd > %s/%s.childcwd' % ('/'.join(op[2]), out, tag)
    if k == 'probe':
        return render_probe(op[1], out, tag, perl_script)
    raise ValueError(op)


ACT_PROBE_SCRIPT = '/usr/bin/env -0 > $1.env; /bin/pwd > $1.cwd\n'  # home/actprobe.sh, for the file interpreter actor


def render_act(case, out, perl_script):
    """-> ([conf] lines, act phase line): the four ways of having a program as the act phase"""
    k = case['act_probe']
    if k == 2:
        return ['actor = source % /bin/sh'], '/usr/bin/env -0 > %s/act.env; /bin/pwd > %s/act.cwd' % (out, out)
    if k == 3:
        return ['actor = file % /bin/sh'], 'actprobe.sh %s/act' % out
    return [], render_probe(k, out, 'act', perl_script, in_act=True)


def render_case(case, out, perl_script):
    conf, act = render_act(case, out, perl_script)
    lines = (['[conf]'] + conf) if conf else []
    for ph in PHASES:
        lines.append(PHASE_HEADER[ph])
        if ph == 'setup':
            lines += PRELUDE
        for i, op in enumerate(case['phases'][ph]):
            lines.append(render_op(op, out, '%s%d' % (PHASE_TAG[ph], i), perl_script))
        if ph == 'setup':
            lines.append('[act]')
            lines.append(act)
    return '\n'.join(lines) + '\n'


# ------------------------------------------------------------------------------------------------
# running the real program
# ------------------------------------------------------------------------------------------------
class Runner:
    """one private directory with home / sandboxes / probe output; one main program whose command executor records"""

    def __init__(self, work):
        from exactly_lib.cli import main_program as mpm
        from exactly_lib.test_case.command_executor import CommandExecutor
        from exactly_lib.impls.os_services import os_services_access
        from exactly_lib.definitions import os_proc_env
        self.root = tempfile.mkdtemp(prefix='c11-', dir=work)
        self.sbx = os.path.join(self.root, 'sandboxes')
        self.out = os.path.join(self.root, 'out')
        self.home = os.path.join(self.root, 'home')
        for d in (self.sbx, self.out, self.home):
            os.makedirs(d)
        self.perl_script = os.path.join(self.home, 'probe.pl')
        with open(self.perl_script, 'w') as f:
            f.write(PERL_PROBE)
        with open(os.path.join(self.home, 'actprobe.sh'), 'w') as f:
            f.write(ACT_PROBE_SCRIPT)
        self.initial_timeout = os_proc_env.TIMEOUT__DEFAULT
        real = os_services_access.new_for_current_os().command_executor
        runner = self
        self.log = []

        self.n_at_wait = self.n_fallback = 0
        self.waits = []  # the `timeout` argument of every subprocess.Popen.wait() made during a run (see run())

        class Recording(CommandExecutor):
            def execute(self, command, settings, files):
                before = set(os.listdir(runner.out))
                first_wait = len(runner.waits)
                try:
                    return real.execute(command, settings, files)
                finally:
                    new = sorted(set(os.listdir(runner.out)) - before)
                    # the timeout that REACHES the process: the argument of the wait on the child (subprocess.call ->
                    # Popen.wait); if the program did not wait through Popen.wait, the value handed to the executor
                    at_wait = len(runner.waits) > first_wait
                    runner.n_at_wait += 1 if at_wait else 0
                    runner.n_fallback += 0 if at_wait else 1
                    effective = runner.waits[first_wait] if at_wait else settings.timeout_in_seconds
                    runner.log.append((effective, None if settings.environ is None else dict(settings.environ), new))

        recording_os_services = os_services_access.new_for_cmd_exe(Recording())

        class MP(mpm.MainProgram):
            # as MainProgram.execute_test_case, with the recording OS services
            def execute_test_case(self, settings):
                from exactly_lib.processing.standalone import processor
                p = processor.Processor(self._test_case_definition, recording_os_services,
                                        self._test_suite_definition.configuration_section_parser, self._mem_buff_size)
                return processor.ProcessorExecutionReporter(p, settings)

        base = impl.main_program(self.sbx)
        self.mp = MP.__new__(MP)
        self.mp.__dict__.update(base.__dict__)

    def close(self):
        shutil.rmtree(self.root, ignore_errors=True)

    def run(self, case):
        """-> observation dict: {'exit': .., 'stdout': .., 'points': [[tag, env, cwd, timeout], ...], 'child': {...}}"""
        for fn in os.listdir(self.out):
            os.remove(os.path.join(self.out, fn))
        for fn in os.listdir(self.sbx):
            shutil.rmtree(os.path.join(self.sbx, fn), ignore_errors=True)
        self.log.clear()
        self.n_at_wait = self.n_fallback = 0
        path = os.path.join(self.home, 'c.case')
        with open(path, 'w', encoding='utf-8') as f:
            f.write(render_case(case, self.out, self.perl_script))
        saved = dict(os.environ)
        os.environ.clear()
        os.environ.update(case['default'])
        # Observe the timeout at the last point before the operating system: the argument of Popen.wait (subprocess.call
        # passes its `timeout` there).  The boundary value 0 would stop every probe before it can report; what happens
        # when a timeout expires is C19's subject, so for 0 - and only after having recorded it - the wait is made
        # without limit, and the probe reports the environment / directory it was started with as for any other value.
        import subprocess
        original_wait = subprocess.Popen.wait
        waits = self.waits
        del waits[:]

        def recording_wait(popen, timeout=None):
            waits.append(timeout)
            return original_wait(popen, timeout=None if timeout == 0 else timeout)

        subprocess.Popen.wait = recording_wait
        try:
            r = impl.run_main(self.mp, [path], self.home, self.root)
            environ_after = dict(os.environ)
        finally:
            subprocess.Popen.wait = original_wait
            os.environ.clear()
            os.environ.update(saved)
        points = []
        child = {}
        value_runs = {}
        for timeout, environ, new in self.log:
            stems = sorted({fn.split('.')[0] for fn in new})
            for stem in stems:
                if stem + '.childcwd' in new:
                    child[stem] = self._cwd(stem + '.childcwd')
                if stem + '.env' in new:
                    env = self._env(stem)
                    tag, dash, _pid = stem.partition('-')
                    role = None  # an ordinary process
                    if dash:
                        # the k-th run of the program computing the value of the env instruction at [tag]
                        role = value_runs.get(tag, 0)
                        value_runs[tag] = role + 1
                    points.append([tag, env, self._cwd(stem + '.cwd'), timeout, role])
        return {'exit': r.exit_code, 'stdout': r.out.strip(), 'stderr': r.err[-600:] if r.exit_code != 0 else '',
                'exception': repr(r.exception) if r.exception else None,
                'environ_of_exactly_unchanged': environ_after == case['default'],
                'timeouts_observed_at_wait': self.n_at_wait, 'timeouts_observed_at_command_executor_only': self.n_fallback,
                'points': points, 'child_cwd': child}

    def _env(self, tag):
        data = open(os.path.join(self.out, tag + '.env'), 'rb').read().decode('utf-8', 'surrogateescape')
        env = {}
        for item in data.split('\0'):
            if item:
                k, _, v = item.partition('=')
                env[k] = v
        for k in SHELL_ADDED:
            # dash exports PWD by itself; perl probes do not have it (and the generator never uses the name)
            env.pop(k, None)
        return env

    def _cwd(self, fn):
        try:
            p = open(os.path.join(self.out, fn)).read().rstrip('\n')
        except OSError:
            return ['<no cwd reported>']
        sbx = os.path.realpath(self.sbx)
        p = os.path.realpath(p) if os.path.exists(p) else p
        if p == sbx or not p.startswith(sbx + '/'):
            return ['<outside the sandbox>'] + [c for c in p.split('/') if c]
        return p[len(sbx) + 1:].split('/')[1:]


_RUNNER = None


def _worker(args):
    global _RUNNER
    work, cases = args
    if _RUNNER is None:
        _RUNNER = Runner(work)
    try:
        return [_RUNNER.run(c) for c in cases]
    finally:
        _RUNNER.close()
        _RUNNER = None


def run_cases(ctx, cases):
    """run all cases on the real program, in parallel worker processes (each with a private directory)"""
    import exactly_lib.cli.main_program  # noqa: F401  (import before forking)
    nproc = max(1, min(common.NCPU, len(cases) // 8 or 1))
    chunk = (len(cases) + nproc - 1) // nproc
    jobs = [(ctx.work, cases[i:i + chunk]) for i in range(0, len(cases), chunk)]
    if nproc == 1:
        return _worker(jobs[0])
    with multiprocessing.get_context('fork').Pool(nproc) as pool:
        parts = pool.map(_worker, jobs)
    return [o for part in parts for o in part]


# ------------------------------------------------------------------------------------------------
# Coq terms
# ------------------------------------------------------------------------------------------------
def c_env(d):
    if not d:
        return '(@nil (name * text))'
    return clist(['(%s, %s)' % (ctext(k), ctext(v)) for k, v in d.items()])


def c_path(p):
    return clist([ctext(c) for c in p]) if p else '(@nil name)'


def c_timeout(t):
    return copt(t, cN)


def c_op(op):
    k = op[0]
    if k == 'env':
        if op[2] == 'set':
            return '(OEnv %s (MSet %s %s))' % (TARGET_COQ[op[1]], ctext(op[3]), ctext(op[4]))
        return '(OEnv %s (MUnset %s))' % (TARGET_COQ[op[1]], ctext(op[3]))
    if k == 'envprog':
        return '(OEnvProg %s %s %s)' % (TARGET_COQ[op[1]], ctext(op[2]), ctext(op[3]))
    if k == 'cd':
        return '(OCd %s %s)' % (BASE_COQ[op[1]], c_path(op[2]))
    if k == 'timeout':
        return '(OTimeout %s)' % c_timeout(op[1])
    if k == 'childcd':
        return '(OChildCd %s %s)' % (BASE_COQ[op[1]], c_path(op[2]))
    if k == 'probe':
        return 'OProbe'
    raise ValueError(op)


def c_ops(ops):
    return clist([c_op(o) for o in ops]) if ops else '(@nil op)'


def c_point(tag):
    if tag == 'act':
        return 'PtAct'
    return '(PtInstr %s %s)' % (PHASE_COQ[TAG_PHASE[tag[0]]], cnat(int(tag[1:])))


def c_case(case, observed, initial_timeout, dirs='DIRS'):
    cfg = '(Config %s %s %s)' % (c_env(case['default']), c_timeout(initial_timeout), dirs)
    hist = '(History %s %s %s %s)' % tuple(c_ops(case['phases'][ph]) for ph in PHASES)
    obs = [('(%s, Obs %s %s %s %s)' % (c_point(tag), c_env(env), c_path(cwd), c_timeout(t),
                                       'RProcess' if role is None else '(RValue %s)' % cnat(role)))
           for tag, env, cwd, t, role in observed['points']]
    failed = observed['exit'] != 0 or observed['exception'] is not None
    return '(Case %s %s %s %s)' % (cfg, hist, clist(obs) if obs else '(@nil (point * obs))', common.cbool(failed))


C_DIRS = clist([c_path(d) for d in DIRS])
EXTRA_DEFS = 'Definition DIRS : list path := %s.\n' % C_DIRS
IMPORTS = ['Model.Settings', 'Spec.C11']


# ------------------------------------------------------------------------------------------------
# the check
# ------------------------------------------------------------------------------------------------
def features(case):
    f = set()
    phases_changing = 0
    for ph in PHASES:
        ops = case['phases'][ph]
        if any(o[0] in ('env', 'envprog', 'cd', 'timeout') for o in ops):
            phases_changing += 1
        for o in ops:
            if o[0] == 'env':
                f.add('env-' + o[1])
                if o[2] == 'set' and re.search(r'\$\{[a-zA-Z0-9_]+\}', o[4]):
                    f.add('ref')
            elif o[0] == 'envprog':
                f.add('env-' + o[1])
                f.add('env value from program')
                if re.search(r'\$\{[a-zA-Z0-9_]+\}', o[3]):
                    f.add('ref')
            else:
                f.add(o[0])
    if phases_changing >= 2:
        f.add('multi-phase')
    return f


def is_nontrivial(case):
    f = features(case)
    return 'multi-phase' in f and 'ref' in f and len(f & {'env-act', 'env-nonact', 'env-both'}) >= 2


CORPUS = [
    # the history measured while designing (DESIGN.md section 7): per-set expansion, -of act after setup, cd persisting
    {'default': {'A': 'init', 'Z': 'zz'}, 'act_probe': 0, 'phases': {
        'setup': [['probe', 0], ['env', 'both', 'set', 'A', 'a0'], ['env', 'act', 'set', 'B', 'x${A}y${NOPE}z'],
                  ['env', 'nonact', 'set', 'C', '${A}${A}'], ['probe', 1], ['cd', 'cwd', ['d1']], ['timeout', 7],
                  ['probe', 0], ['childcd', 'cwd', ['d2']], ['probe', 2]],
        'before_assert': [['probe', 0], ['env', 'act', 'set', 'D', 'd'], ['env', 'both', 'unset', 'A'],
                          ['timeout', None], ['probe', 1]],
        'assert': [['cd', 'cwd', ['d2']], ['probe', 0]],
        'cleanup': [['probe', 1]]}},
    # values computed by programs: timeout / cwd handed to them, in every phase, each -of variant
    {'default': {'A': 'i'}, 'act_probe': 0, 'phases': {
        'setup': [['timeout', 41], ['env', 'act', 'set', 'A', 'a'], ['envprog', 'both', 'B', '<${A}>'], ['cd', 'cwd', ['d1']],
                  ['envprog', 'act', 'C', 'c'], ['envprog', 'nonact', 'C', 'n'], ['probe', 0]],
        'before_assert': [['timeout', None], ['envprog', 'both', 'D', '${C}${B}'], ['probe', 1]],
        'assert': [['timeout', 52], ['envprog', 'act', 'E', 'e'], ['envprog', 'nonact', 'E', 'e'], ['probe', 0]],
        'cleanup': [['cd', 'tmp', ['t1']], ['envprog', 'both', 'F', 'f'], ['probe', 2]]}},
    # the boundary value timeout = 0 reaches every later process (act included) until the next timeout instruction
    {'default': {}, 'act_probe': 0, 'phases': {
        'setup': [['probe', 0], ['timeout', 0], ['probe', 0], ['envprog', 'both', 'A', 'a'], ['probe', 1]],
        'before_assert': [['probe', 2], ['childcd', 'cwd', ['d1']], ['probe', 0]],
        'assert': [['timeout', None], ['probe', 0], ['timeout', 0], ['probe', 1]],
        'cleanup': [['probe', 0], ['timeout', 45], ['probe', 0]]}},
    # both sets modified independently before any probe; self reference
    {'default': {'A': 'i'}, 'act_probe': 1, 'phases': {
        'setup': [['env', 'act', 'set', 'A', '${A}+act'], ['env', 'nonact', 'set', 'A', '${A}+non'],
                  ['env', 'both', 'set', 'B', '<${A}>'], ['probe', 0]],
        'before_assert': [], 'assert': [], 'cleanup': [['probe', 0]]}},
]


# ---- a python re-computation of the specification, used ONLY to word explanations (never for a verdict) ----
def py_expected(case, initial_timeout):
    st = {'act': dict(case['default']), 'nonact': dict(case['default']), 'timeout': initial_timeout, 'cwd': ['act']}
    exp = {}

    def expand(v, m):
        return re.sub(r'\$\{([a-zA-Z0-9_]+)\}', lambda mo: m.get(mo.group(1), ''), v)

    def step(op):
        if op[0] == 'envprog':
            op = ['env', op[1], 'set', op[2], op[3]]
        if op[0] == 'env':
            for which in (['act', 'nonact'] if op[1] == 'both' else [op[1]]):
                if op[2] == 'set':
                    st[which][op[3]] = expand(op[4], st[which])
                else:
                    st[which].pop(op[3], None)
        elif op[0] == 'cd':
            d = py_walk(st['cwd'] if op[1] == 'cwd' else BASE_DIR[op[1]], op[2])
            if d is None or d not in DIRS:
                return False
            st['cwd'] = d
        elif op[0] == 'timeout':
            st['timeout'] = op[1]
        return True

    def phase(ph):
        for i, op in enumerate(case['phases'][ph]):
            if op[0] in ('probe', 'envprog'):
                exp['%s%d' % (PHASE_TAG[ph], i)] = [dict(st['nonact']), list(st['cwd']), st['timeout']]
            if not step(op):
                return False
        return True

    ok = phase('setup')
    if ok:
        exp['act'] = [dict(st['act']), list(st['cwd']), st['timeout']]
        ok = phase('before_assert') and phase('assert')
    phase('cleanup')
    return exp


def explain(case, observed, initial_timeout):
    exp = py_expected(case, initial_timeout)
    out = []
    for tag, env, cwd, t, role in observed['points']:
        if tag not in exp:
            out.append('%s: observed, but not expected to be reached' % tag)
            continue
        e_env, e_cwd, e_t = exp[tag]
        if role is not None:
            tag = '%s (run %d of the program computing the value)' % (tag, role)
            e_env = env  # its environment is not judged
        for k in sorted(set(env) | set(e_env)):
            if env.get(k) != e_env.get(k):
                out.append('%s: variable %s: process saw %r, instructions before it give %r' % (tag, k, env.get(k), e_env.get(k)))
        if cwd != e_cwd:
            out.append('%s: current directory: process had %s, instructions before it give %s' % (tag, '/'.join(cwd), '/'.join(e_cwd)))
        if t != e_t:
            out.append('%s: timeout handed to the process executor %r, instructions before it give %r' % (tag, t, e_t))
    seen = {p[0] for p in observed['points']}
    value_tags = {'%s%d' % (PHASE_TAG[ph], i) for ph in PHASES for i, o in enumerate(case['phases'][ph]) if o[0] == 'envprog'}
    for tag in exp:
        if tag not in seen and tag not in value_tags:  # a value program legitimately runs 0..2 times
            out.append('%s: expected to be reached, but no process reported from there' % tag)
    return out[:12]


def initial_timeout():
    from exactly_lib.definitions import os_proc_env
    return os_proc_env.TIMEOUT__DEFAULT


def evaluate(ctx, res, cases, tag='cases'):
    """run the cases on the real program and through check_case; -> (observed, corr_bad, prop_bad)"""
    observed = run_cases(ctx, cases)
    t0 = initial_timeout()
    terms = [c_case(c, o, t0) for c, o in zip(cases, observed)]
    cb, pb, errs = common.run_shards(PROP, IMPORTS, 'check_case', terms, shard_size=200, tag=tag, extra_defs=EXTRA_DEFS)
    res.errors += errs
    # the model takes the environment exactly was started with as constant
    cb = sorted(set(cb) | {i for i, o in enumerate(observed) if not o['environ_of_exactly_unchanged']})
    return observed, cb, pb


def describe(case, obs):
    return {'input': case, 'test_case_file': render_case(case, '<OUT>', '<probe.pl>').split('\n'), 'observed': obs,
            'differences (explanation only)': explain(case, obs, initial_timeout())}


def variants(case):
    """the case with one instruction removed / one phase emptied / the initial environment emptied"""
    out = []
    for ph in PHASES:
        ops = case['phases'][ph]
        if len(ops) > 1:
            out.append(dict(case, phases=dict(case['phases'], **{ph: []})))
        for i in range(len(ops)):
            out.append(dict(case, phases=dict(case['phases'], **{ph: ops[:i] + ops[i + 1:]})))
    if case['default']:
        out.append(dict(case, default={}))
    return out


def shrink(ctx, res, case, obs, kind, rounds=8):
    """delta debugging over the structured input: keep removing instructions while the same verdict fails"""
    for r in range(rounds):
        vs = variants(case)
        if not vs:
            break
        observed, cb, pb = evaluate(ctx, res, vs, tag='shrink%d' % r)
        bad = pb if kind == 'property' else cb
        if not bad:
            break
        case, obs = vs[bad[0]], observed[bad[0]]
    return case, obs


PROP_DETAIL = ('a probe process saw an environment / current directory / timeout different from what the instructions '
               'executed before it put in force')


def report(ctx, res, cases, observed, cb, pb, do_shrink=True):
    for n, i in enumerate(pb):
        c, o = (shrink(ctx, res, cases[i], observed[i], 'property') if do_shrink and n < 2 else (cases[i], observed[i]))
        res.prop_failures.append(Failure('property', describe(c, o), PROP_DETAIL))
    for n, i in enumerate(cb):
        c, o = (shrink(ctx, res, cases[i], observed[i], 'correspondence') if do_shrink and n < 1 and not pb
                else (cases[i], observed[i]))
        res.disagreements.append(Failure('correspondence', describe(c, o),
                                         'Model/Settings.v run differs from what the real program did'))


def gen_xvalue(rng):
    """dense random strings over the characters that matter to the reference syntax"""
    alphabet = ['$', '$', '{', '{', '}', '}', 'A', 'B', 'b', '_', '1', '-', ' ', 'é', 'x']
    if rng.chance(0.3):
        return gen_value(rng)
    return ''.join(rng.choice(alphabet) for _ in range(rng.randint(0, 14)))


def run_expand_stream(ctx, res):
    """the real `_expand_vars` function called directly (module-private name: if a refactoring removes it this
    auxiliary stream is skipped - the end-to-end stream through `env` instructions remains)"""
    from exactly_lib.impls.instructions.multi_phase.environ import impl as environ_impl
    fn = getattr(environ_impl, '_expand_vars', None)
    if fn is None:
        res.count('direct _expand_vars cases (function not found: stream skipped)', 0)
        return
    rng = ctx.rng
    n = 4000 if ctx.quick else 60000
    cases = []
    for _ in range(n):
        env = {nm: rng.choice(['v', '', 'a b', '${A}', '$', 'Bval']) for nm in rng.sample(['A', 'B', 'b', '_', '1', 'A1', 'é'], rng.randint(0, 4))}
        v = gen_xvalue(rng)
        try:
            r = fn(v, dict(env))
        except Exception as ex:  # an exception is an observation
            res.prop_failures.append(Failure('property', {'value': v, 'environ': env}, '_expand_vars raised %r' % ex))
            continue
        cases.append((v, env, r))
    terms = ['(XCase %s %s %s)' % (ctext(v), c_env(e), ctext(r)) for v, e, r in cases]
    cb, pb, errs = common.run_shards(PROP, IMPORTS, 'check_xcase', terms, shard_size=400, tag='xcases')
    res.errors += errs
    res.count('direct _expand_vars cases', len(cases))
    res.count('direct _expand_vars cases with >= 1 well-formed reference',
              sum(1 for v, _, _ in cases if re.search(r'\$\{[a-zA-Z0-9_]+\}', v)))
    for i in pb[:5]:
        v, e, r = cases[i]
        res.prop_failures.append(Failure('property', {'value': v, 'environ': e, '_expand_vars returned': r},
                                         'not the left-to-right substitution of ${name} references (unknown names -> empty string)'))
    for i in cb[:5]:
        v, e, r = cases[i]
        res.disagreements.append(Failure('correspondence', {'value': v, 'environ': e, '_expand_vars returned': r},
                                         'Model/Settings.v expand_vars differs from the real _expand_vars'))
    return len(cases)


def run(ctx, res):
    rng = ctx.rng
    n = 1200 if ctx.quick else 12000
    max_ops = 8 if ctx.quick else 12
    cases = list(CORPUS) + [gen_case(rng, max_ops if not rng.chance(0.15) else 3) for _ in range(n)]
    res.rule = ('histories of 1..%d cd / env set / env unset (-of act, -of !act, neither) / timeout / child-cd instructions '
                'distributed over setup, before-assert, assert, cleanup in any way, a probe process after (nearly) every '
                'change and as the act program (3 kinds of probe instruction: shell, program, -stdout-from; 4 kinds of act program: shell command, '
                'program, source interpreter actor, file interpreter actor); values with ${A}, unset '
                'names, $A, ${, nested-looking and adjacent references; 22%% of the env sets take their value from a program '
                '(-stdout-from, every phase, each -of variant) which is observed as one more process per run (timeout, cwd judged); '
                'initial environment of 0..4 variables; in 12%% of '
                'the histories a cd to a missing directory (the phases before cleanup halt there). '
                'non-trivial := settings changed in >= 2 phases, >= 1 well-formed ${} reference, >= 2 different target sets; '
                'distinct := distinct history.  Second stream: the real _expand_vars called directly on dense random strings over '
                '$ { } name characters, -, space, a non-ASCII letter (counted in evaluations, not in non-trivial)' % max_ops)
    observed, cb, pb = evaluate(ctx, res, cases)
    res.evaluations = len(cases)
    for c, o in zip(cases, observed):
        for f in features(c):
            res.count('feature ' + f)
        res.count('probes observed', len(o['points']))
        res.count('processes whose timeout was observed at Popen.wait', o['timeouts_observed_at_wait'])
        res.count('processes whose timeout was observed only at the command executor', o['timeouts_observed_at_command_executor_only'])
        res.count('processes observed under timeout = 0', sum(1 for p in o['points'] if p[3] == 0))
        res.count('run ended with a failure' if o['exit'] != 0 else 'run ended with PASS')
        cwd_by_tag = {p[0]: p[2] for p in o['points']}
        for tag, ccwd in o['child_cwd'].items():
            # the parent's directory as the next probe of the same phase reports it
            nxt = [t for t in cwd_by_tag if t[0] == tag[0] and t != 'act' and int(t[1:]) > int(tag[1:])]
            if nxt and cwd_by_tag[min(nxt, key=lambda t: int(t[1:]))] != ccwd:
                res.count('child process really changed its directory, parent unchanged at the next probe')
        res.count('act program: ' + ['shell command', 'program', 'source interpreter actor', 'file interpreter actor'][c['act_probe']])
        if is_nontrivial(c):
            res.nontrivial.add(json.dumps(c['phases'], sort_keys=True))
    res.samples = [describe(cases[0], observed[0]), describe(cases[len(cases) // 2], observed[len(cases) // 2])]
    report(ctx, res, cases, observed, cb, pb)
    ctx.c11_bad = [cases[i] for i in cb]
    res.evaluations += run_expand_stream(ctx, res) or 0


def search(ctx, res):
    """the proof or the correspondence broke: look for an input on which the PROPERTY fails on the real program -
    the disagreeing inputs and their reductions first, then a larger random sample"""
    rng = ctx.rng
    seeds = list(getattr(ctx, 'c11_bad', []))[:20]
    cases = []
    for c in seeds:
        cases += [c] + variants(c)[:40]
    cases += [gen_case(rng, 12) for _ in range(1500 if ctx.quick else 6000)]
    r2 = common.Result()
    observed, cb, pb = evaluate(ctx, r2, cases, tag='search')
    res.errors += r2.errors
    report(ctx, r2, cases, observed, [], pb)
    return r2.prop_failures


def replay(ctx, payload):
    case = (payload.get('case') or (payload.get('correspondence_disagreements') or [{}])[0].get('case') or {}).get('input')
    if case is None:
        print('nothing to replay in this file')
        return 2
    os.makedirs(ctx.work, exist_ok=True)
    r = Runner(ctx.work)
    try:
        obs = r.run(case)
    finally:
        r.close()
    print(render_case(case, '<OUT>', '<probe.pl>'))
    print(json.dumps(obs, indent=1))
    for line in explain(case, obs, initial_timeout()):
        print('difference:', line)
    term = c_case(case, obs, initial_timeout(), dirs=C_DIRS)
    outs, raw = common.coq_eval_terms(PROP, IMPORTS, ['check_case %s' % term, 'run (k_cfg %s) (k_hist %s)' % (term, term)])
    print('(correspondence, property) =', outs[0] if outs else raw[-800:])
    if outs:
        print('model run =', outs[1][:4000])
    return 0 if outs and outs[0].replace(' ', '') == '(true,true)' else 1


def gen_tables(ctx):
    common.source_tie('C11')
