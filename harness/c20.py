"""C20 — built-in help agrees with what the program accepts; the HTML manual has no dead links.

(T) `gen_tables` regenerates coq/Gen/C20_inventory.v from the LIVE program on every run (fail-closed):
    per test-case phase and suite section the parser dictionary (key, name of the documentation object), the names the
    real parser accepts (driven through the main program and through the section parsers), the names the help lists
    (from the help data structure and, independently, parsed from the rendered `exactly help ...` output); per entity
    type the entities the program accepts / registers and those the help lists; for every enumerated help request the
    exit code and whether stdout is non-empty; the `id`s and internal `href`s of `exactly help htmldoc`.
(D) `run` drives generated help command lines (valid, perturbed, random) and generated instruction names through the real
    program and compares with Model/Help.v (argument_parsing.Parser.apply, value_lookup.lookup, the dictionary parser).
"""
import os
import re
import shutil
import tempfile

import common
from common import Failure, cZ, cbool, clist
import impl

EXPLANATION = ('Generic theorems over the Gallina model of how parser dictionary and help are derived from one '
               'name/setup-constructor list, of value_lookup.lookup and of the help argument parser; FINITE theorems, decided by '
               'the kernel with vm_compute over an inventory regenerated from the live program on this run (the bound is the '
               'inventory and is part of the statements): accepted = documented per phase / suite section / entity type, every '
               'enumerated help request exits 0 with output, every internal href of the HTML manual has exactly one target. '
               'Differential correspondence of the help argument parser and of instruction-name acceptance.')
ASSUMPTIONS = [
    'names are ASCII (Python str.upper/str.lower are modelled on ASCII only; the inventory generator refuses anything else)',
    'a name is "not accepted" when the real program answers it exactly as it answers a freshly invented bogus name '
    '(same exit code and same output after substituting the name), and for instructions additionally when the section '
    'parser raises UnknownInstructionException; both observations must agree',
    'for concepts and syntax elements "the program has it" means: an object of that entity type exists in '
    'exactly_lib.definitions.entity.* (there is nothing to parse); for the other entity types it is observed by '
    'driving the real parsers',
    'instruction-name probes exclude names the section-element parser recognises as a directive (`including`): such a line '
    'never reaches the instruction parser; directives are covered as an entity type',
    'the HTML manual is read with html.parser.HTMLParser and, independently, with two regular expressions; both must agree',
]
TRUSTED_EXTRA = ['harness/c20.py: inventory generator (enumeration of requests, parsing of rendered help tables, HTML attribute '
                 'extraction), cross-checked by two independent extraction paths each']

BOGUS = 'zqxjbogus'
BOGUS2 = 'wvkqother'


# ---------------------------------------------------------------------------------------------
# Coq printing
# ---------------------------------------------------------------------------------------------
def cs(s):
    if not isinstance(s, str) or not all(32 <= ord(c) < 127 for c in s):
        raise ValueError('non-ASCII or non-str name cannot be represented (fail-closed): %r' % (s,))
    return '"%s"' % s.replace('"', '""')


def csl(names):
    names = list(names)
    return '[' + '; '.join(cs(n) for n in names) + ']' if names else '(@nil string)'


# ---------------------------------------------------------------------------------------------
# The live program
# ---------------------------------------------------------------------------------------------
class Live:
    """The main program exactly as default_main_program() builds it, plus the application help exactly as
    MainProgram._parse_and_execute_help builds it (same three arguments)."""

    def __init__(self, root):
        from exactly_lib.cli_default.program_modes import test_suite
        from exactly_lib.cli_default.program_modes.test_case import builtin_symbols, default_instructions_setup
        from exactly_lib.common import instruction_name_and_argument_splitter
        from exactly_lib.help.the_application_help import new_application_help
        from exactly_lib.processing.instruction_setup import TestCaseParsingSetup
        from exactly_lib.processing.parse.act_phase_source_parser import ActPhaseParser
        self.root = root
        self.sandbox = os.path.join(root, 'sandboxes')
        self.scratch = os.path.join(root, 'scratch')
        self.cwd = os.path.join(root, 'cwd')
        for d in (self.sandbox, self.scratch, self.cwd):
            os.makedirs(d, exist_ok=True)
        self.mp = impl.main_program(self.sandbox)
        self.instructions_setup = default_instructions_setup.INSTRUCTIONS_SETUP
        self.suite_def = test_suite.test_suite_definition()
        self.builtin_symbols = builtin_symbols.ALL
        self.parsing_setup = TestCaseParsingSetup(instruction_name_and_argument_splitter.splitter,
                                                  self.instructions_setup, ActPhaseParser())
        self.app_help = new_application_help(self.instructions_setup,
                                             self.suite_def.configuration_section_instructions,
                                             [bs.documentation for bs in self.builtin_symbols])
        self.n_runs = 0

    # --- the program, in process ---
    def main(self, argv):
        self.n_runs += 1
        return impl.run_main(self.mp, argv, self.cwd, self.scratch)

    def help(self, args):
        return self.main(['help'] + list(args))

    def run_case_text(self, text):
        p = os.path.join(self.cwd, 'c20.case')
        with open(p, 'w') as f:
            f.write(text)
        helper = os.path.join(self.cwd, 'existing-source-file.py')
        if not os.path.exists(helper):
            with open(helper, 'w') as f:
                f.write('pass\n')
        r = self.main([p])
        for d in os.listdir(self.sandbox):
            shutil.rmtree(os.path.join(self.sandbox, d), ignore_errors=True)
        return r

    # --- the ways of running ONE test case -------------------------------------------------
    MODES = ('exactly CASE', 'exactly --act CASE', 'exactly --keep CASE', 'exactly --suite SUITE CASE',
             'exactly CASE (exactly.suite in its directory)', 'exactly suite SUITE (SUITE lists CASE)', 'exactly symbol CASE')

    def run_case_text_in_mode(self, mode, text):
        """Run the case `text` in one of the ways a user can have a case processed."""
        k = self.MODES.index(mode)
        if k == 0:
            return self.run_case_text(text)
        d = os.path.join(self.root, 'mode%d' % k)
        os.makedirs(d, exist_ok=True)
        case = os.path.join(d, 'c20.case')
        with open(case, 'w') as f:
            f.write(text)
        helper = os.path.join(d, 'existing-source-file.py')
        if not os.path.exists(helper):
            with open(helper, 'w') as f:
                f.write('pass\n')
        if k == 1:
            argv = ['--act', case]
        elif k == 2:
            argv = ['--keep', case]
        elif k == 3:
            s = os.path.join(d, 'other.suite')
            open(s, 'w').close()
            argv = ['--suite', s, case]
        elif k == 4:
            open(os.path.join(d, 'exactly.suite'), 'w').close()
            argv = [case]
        elif k == 5:
            s = os.path.join(d, 'listing.suite')
            with open(s, 'w') as f:
                f.write('[cases]\nc20.case\n')
            argv = ['suite', s]
        else:
            argv = ['symbol', case]
        old = tempfile.tempdir
        tempfile.tempdir = self.sandbox  # `exactly suite` makes its sandboxes under the default temp dir
        try:
            self.n_runs += 1
            r = impl.run_main(self.mp, argv, d, self.scratch)
        finally:
            tempfile.tempdir = old
        for x in os.listdir(self.sandbox):
            shutil.rmtree(os.path.join(self.sandbox, x), ignore_errors=True)
        return r

    def run_suite_text(self, text, extra_args=()):
        p = os.path.join(self.cwd, 'c20.suite')
        with open(p, 'w') as f:
            f.write(text)
        return self.main(['suite'] + list(extra_args) + [p])

    def close(self):
        shutil.rmtree(self.root, ignore_errors=True)


def new_live(ctx):
    os.makedirs(ctx.work, exist_ok=True)
    return Live(tempfile.mkdtemp(prefix='live-', dir=ctx.work))


_TIMING = re.compile(r'\b\d+\.\d+ ?s\b')


def _obs(r):
    """exit code, stdout, stderr (elapsed-time figures blanked), class of an escaping exception"""
    return (r.exit_code, _TIMING.sub('<T>s', r.out), _TIMING.sub('<T>s', r.err), type(r.exception).__name__)


class BogusAccepted(RuntimeError):
    pass


class BogusOracle:
    """accepted(name) iff the program does NOT answer the probe for `name` exactly as it answers the probe for an invented
    name (same exit code, same stdout and stderr after substituting the invented name by `name`).  The invented names are
    letter-only strings that occur nowhere else, and the answer to them is checked to be independent of the name."""

    def __init__(self, runner, what):
        self.runner, self.what = runner, what
        self.b1 = _obs(runner(BOGUS))
        if self.b1[0] == 0:
            raise BogusAccepted('an invented name is accepted for %s' % what)
        b2 = _obs(runner(BOGUS2))
        if self.expected_for(BOGUS2) != b2:
            raise RuntimeError('bogus-name oracle for %s is not name independent (fail-closed): %r / %r' % (what, self.b1, b2))
        self.cache = {}

    def tokens(self):
        """Word-like tokens of the program's answer to the invented name (error messages often list the alternatives):
        a source of CANDIDATE names only; whether the program accepts them is then observed."""
        toks = []
        text = re.sub(r'\S*/\S*', ' ', self.b1[1] + ' ' + self.b1[2])  # no file paths (temporary directory names)
        for t in re.findall(r"[A-Za-z_][A-Za-z0-9_-]*", text):
            if t != BOGUS and BOGUS not in t and t not in toks:
                toks.append(t)
        return toks

    def expected_for(self, name):
        c, o, e, x = self.b1
        return (c, o.replace(BOGUS, name), e.replace(BOGUS, name), x)

    def accepted(self, name):
        if name not in self.cache:
            if not name or any(c.isspace() for c in name):
                self.cache[name] = None  # not ONE name for the parser
            else:
                self.cache[name] = _obs(self.runner(name)) != self.expected_for(name)
        return self.cache[name]


# ---------------------------------------------------------------------------------------------
# Instruction names: program side and help side
# ---------------------------------------------------------------------------------------------
def case_phase_dicts(live):
    """phase name -> the dictionary test_case_parser.new_parser hands to the dictionary parser (mirrors new_parser)."""
    from exactly_lib.test_case import phase_identifier as pi
    s = live.instructions_setup
    return [(pi.CONFIGURATION.section_name, s.config_instruction_set),
            (pi.SETUP.section_name, s.setup_instruction_set),
            (pi.BEFORE_ASSERT.section_name, s.before_assert_instruction_set),
            (pi.ASSERT.section_name, s.assert_instruction_set),
            (pi.CLEANUP.section_name, s.cleanup_instruction_set)]


def dict_pairs(d):
    return [(k, v.documentation.instruction_name()) for k, v in d.items()]


def parser_level(live, kind, section, name):
    """'ok' | 'unknown-instruction' | 'other-error'.  Does the real document parser answer `[section]\\nNAME` with UnknownInstructionException (found by walking the
    chain of causes/contexts/wrapped exceptions of what it raised)?  kind: 'case' | 'suite'."""
    import pathlib
    from exactly_lib.section_document.element_parsers.instruction_parser_exceptions import UnknownInstructionException
    from exactly_lib.section_document.parse_source import ParseSource
    text = '[%s]\n%s\n' % (section, name)
    try:
        if kind == 'case':
            from exactly_lib.processing.parse import test_case_parser
            from exactly_lib.processing.test_case_processing import test_case_reference_of_source_file
            p = pathlib.Path(live.cwd) / 'p.case'
            test_case_parser.new_parser(live.parsing_setup).apply(test_case_reference_of_source_file(p), ParseSource(text))
        else:
            from exactly_lib.test_suite.file_reading import suite_file_reading
            p = pathlib.Path(live.cwd) / 'p.suite'
            p.write_text(text)
            suite_file_reading.read_suite_document(p, live.suite_def.configuration_section_parser, live.parsing_setup)
    except Exception as ex:
        seen, todo = set(), [ex]
        while todo:
            e = todo.pop()
            if e is None or id(e) in seen:
                continue
            seen.add(id(e))
            if isinstance(e, UnknownInstructionException):
                return 'unknown-instruction'
            todo += [e.__cause__, e.__context__]
            todo += [v for v in getattr(e, '__dict__', {}).values() if isinstance(v, BaseException)]
        return 'other-error'
    return 'ok'


def parser_level_unknown(live, kind, section, name):
    return parser_level(live, kind, section, name) == 'unknown-instruction'




def perturbations(name):
    """Names near a real one that the program is expected to treat as different names (case changed, one character
    more, one less).  Whether the program accepts them is OBSERVED, never assumed."""
    out = [name + 'x']
    if len(name) > 1:
        out.append(name[:-1])
    for v in (name.upper(), name.lower(), name.capitalize()):
        if v != name:
            out.append(v)
    return [p for p in out if p and not any(c.isspace() for c in p)]


def rendered_table_rows(text):
    """First-column cells of the tables in a rendered console help text, with the nearest preceding non-table line
    ('header').  A row is `<indent>NAME<2+ spaces>TEXT`; lines indented to the text column continue the previous row."""
    rows, header, text_col = [], None, None
    for line in text.split('\n'):
        line = line.rstrip()
        if not line:
            continue
        indent = len(line) - len(line.lstrip(' '))
        if text_col is not None and indent >= text_col:
            continue
        body = line[indent:]
        m = re.match(r'(\S(?:.*?\S)?) {2,}(\S.*)$', body)
        if m:
            rows.append((header, m.group(1)))
            text_col = indent + m.start(2)
        else:
            header, text_col = body, None
    return rows


# ---------------------------------------------------------------------------------------------
# The inventory
# ---------------------------------------------------------------------------------------------
class Inventory:
    pass


# Name-agnostic argument forms: tried in order until the case PASSes stand-alone.  A name without a passing form is
# simply not probed in the other ways of running (never an alarm).
ARG_FORMS = ['', '= .', '= PASS', '= null', '= 5', '= "text"', 'true', '.', '% true', 'C20_A = a', 'string C20_A = a',
             'c20-new-file', 'c20.case', '== 0', 'is-empty', '. : ! is-empty', 'c20.case : ! is-empty']
TYPE_VALUE_FORMS = ['a', 'a b', '== 1', 'is-empty', 'type file', 'contents ~ a', '{ }', '% true', '"a"', 'strip', 'f']
ACTOR_FORMS = [('', ''), ('', '% true'), ('% /venv/bin/python', 'pass'), ('% /venv/bin/python', 'existing-source-file.py')]


# The optional instruction description (back ticks) in front of an instruction, as documented: on the same line, tight, and
# on earlier lines followed by blank and comment lines.
DESCRIPTION_FORMS = [('`description` NAME on one line', '`c20 d` %s'),
                     ('`description`NAME without space', '`c20 d`%s'),
                     ('`description` over two lines, blank line, comment line, indented NAME', '   `c20\nd`  \n\n# c\n   %s')]


def described_modes(live, kind, section, names):
    """For each description form: which of `names` the section accepts when the name is preceded by a description
    (invented-name oracle with the same description).  ([(label, probed, accepted)], {(label, name): file text})"""
    out, files = [], {}
    run = live.run_case_text if kind == 'case' else live.run_suite_text
    for label, form in DESCRIPTION_FORMS:
        label = '%s [%s], %s' % ('case' if kind == 'case' else 'suite', section, label)
        text = '[%s]\n%s\n' % (section, form)
        try:
            orc = BogusOracle(lambda n: run(text % n), label)
        except BogusAccepted:
            continue
        probed = [n for n in names if orc.accepted(n) is not None and not directive_recognised(live, n)]
        out.append((label, probed, [n for n in probed if orc.accepted(n)]))
        for n in probed:
            files[(label, n)] = text % n
    return out, files


def _names_and_some_perturbed(accepted, documented):
    names = list(accepted) + [n for n in documented if n not in accepted]
    return names + [n + 'x' for n in names[:3]]


def _passes(r):
    return r.exception is None and r.exit_code == 0


def complete_use(live, texts):
    """The first of the candidate case texts that PASSes stand-alone (exit 0), or None."""
    for t in texts:
        if _passes(live.run_case_text(t)):
            return t
    return None


def modes_of_complete_uses(live, uses):
    """uses: name -> complete case text that passes stand-alone.  For every OTHER way of running a case: the names whose
    case also exits 0.  [(mode, probed names, accepted names)]"""
    out = []
    for mode in Live.MODES[1:]:
        acc = [n for n, t in uses.items() if _passes(live.run_case_text_in_mode(mode, t))]
        out.append((mode, list(uses.keys()), acc))
    return out


def entity_registry():
    """(entity type id) -> names of the objects in exactly_lib.definitions.entity.* that carry a cross-reference target
    of that entity type (module level, or inside module-level tuples/lists/dicts)."""
    import importlib
    import pkgutil
    from types import MappingProxyType
    import exactly_lib.definitions.entity as pkg
    from exactly_lib.definitions.cross_ref.concrete_cross_refs import EntityCrossReferenceId
    reg = {}

    def visit(o, depth):
        t = getattr(o, 'cross_reference_target', None)
        if isinstance(t, EntityCrossReferenceId):
            lst = reg.setdefault(t.entity_type_identifier, [])
            if t.entity_name not in lst:
                lst.append(t.entity_name)
        elif depth < 2 and isinstance(o, (tuple, list)):
            for x in o:
                visit(x, depth + 1)
        elif depth < 2 and isinstance(o, (dict, MappingProxyType)):
            for x in list(o.values()):
                visit(x, depth + 1)

    for mi in pkgutil.iter_modules(pkg.__path__):
        mod = importlib.import_module(pkg.__name__ + '.' + mi.name)
        for k, v in sorted(vars(mod).items()):
            if not k.startswith('__'):
                visit(v, 0)
    return reg


def build_inventory(live):
    from exactly_lib.cli.definitions import exit_codes
    from exactly_lib.cli.definitions.program_modes.help import command_line_options as cl_opts
    from exactly_lib.definitions.cross_ref.concrete_cross_refs import TestCasePhaseCrossReference
    from exactly_lib.definitions.entity import all_entity_types
    inv = Inventory()
    app = live.app_help
    inv.keywords = dict(help=cl_opts.HELP, htmldoc=cl_opts.HTML_DOCUMENTATION, case=cl_opts.TEST_CASE,
                        suite=cl_opts.TEST_SUITE, symbol=cl_opts.SYMBOL, spec=cl_opts.SPECIFICATION,
                        instructions=cl_opts.INSTRUCTIONS)
    inv.exit_ok, inv.exit_invalid_usage = exit_codes.EXIT_OK, exit_codes.EXIT_INVALID_USAGE

    # ---- test-case phases -------------------------------------------------------------------
    prog_dicts = dict(case_phase_dicts(live))
    phase_helps = list(app.test_case_help.phase_helps_in_order_of_execution)
    phase_names = [ph.name.plain for ph in phase_helps]
    # a phase the parser knows but the help does not (or vice versa) is an OBSERVATION: it gets its own entry (in_help /
    # has_dict) and the property predicate reports its instructions and help requests with concrete inputs
    program_only = [pn for pn in prog_dicts if pn not in phase_names]
    all_names = []
    for d in list(prog_dicts.values()) + [live.suite_def.configuration_section_instructions]:
        for k, dn in dict_pairs(d):
            all_names += [k, dn]
    for ph in phase_helps:
        if ph.has_instructions:
            all_names += [x.instruction_name() for x in ph.instruction_set.instruction_documentations]
    for sh in app.test_suite_help.section_helps:
        if sh.has_instructions:
            all_names += [x.instruction_name() for x in sh.instruction_set.instruction_documentations]
    base = sorted(set(all_names))
    cands = list(base)
    for n in base:
        for p in perturbations(n):
            if p not in cands:
                cands.append(p)
    inv.candidates = cands

    listing_all_text = _ok(live.help([inv.keywords['instructions']]), 'help instructions').out

    def drive(kind, section):
        if kind == 'case':
            orc = BogusOracle(lambda n: live.run_case_text('[%s]\n%s\n' % (section, n)), '[%s] of a case' % section)
        else:
            try:
                orc = BogusOracle(lambda n: live.run_suite_text('[%s]\n%s\n' % (section, n)), '[%s] of a suite' % section)
            except BogusAccepted:
                return None  # the section takes arbitrary text (no instruction names)
        acc = []
        for n in cands:
            if directive_recognised(live, n):
                continue  # a directive never reaches the instruction parser: not an instruction-name probe
            a1 = orc.accepted(n)
            if a1 is None:
                continue
            a2 = parser_level(live, kind, section, n)
            if (a1 and a2 == 'unknown-instruction') or (not a1 and a2 == 'ok'):
                raise RuntimeError('acceptance observations disagree for %r in %s [%s]: main program %r, section parser %r '
                                   '(fail-closed)' % (n, kind, section, a1, a2))
            if a1:
                acc.append(n)
        return acc

    inv.phases = []
    for ph in phase_helps + program_only:
        in_help = not isinstance(ph, str)
        pn = ph.name.plain if in_help else ph
        has_instr = bool(ph.has_instructions) if in_help else False
        e = dict(name=pn, in_help=in_help, has_dict=pn in prog_dicts, has_help_instr=has_instr,
                 dict=[], accepted=[], help_struct=[], help_keys=[], help_rendered=[], help_rendered_all=[])
        if pn in prog_dicts:
            e['dict'] = dict_pairs(prog_dicts[pn])
        if pn in prog_dicts or has_instr:
            e['accepted'] = drive('case', pn)
        if has_instr:
            e['help_struct'] = [x.instruction_name() for x in ph.instruction_set.instruction_documentations]
            e['help_keys'] = list(ph.instruction_set.name_2_description.keys())
            out = _ok(live.help([pn, inv.keywords['instructions']]), 'help %s instructions' % pn).out
            e['help_rendered'] = [n for _, n in rendered_table_rows(out)]
            e['help_rendered_all'] = _rows_under_section_header(listing_all_text, '[%s]' % pn)
        uses = {}
        for n in e['accepted']:
            t = complete_use(live, ['[%s]\n%s %s\n' % (pn, n, a) for a in ARG_FORMS])
            if t is not None:
                uses[n] = t
        e['uses'] = uses
        e['modes'] = modes_of_complete_uses(live, uses)
        e['mode_files'] = {}
        if pn in prog_dicts or has_instr:
            dm, e['mode_files'] = described_modes(live, 'case', pn, _names_and_some_perturbed(e['accepted'], e['help_struct']))
            e['modes'] += dm
        inv.phases.append(e)

    # ---- suite sections ---------------------------------------------------------------------
    inv.suite_sections = []
    conf_own = live.suite_def.configuration_section_instructions
    from exactly_lib.definitions.test_suite import section_names_plain as snp
    for sh in app.test_suite_help.section_helps:
        sn = sh.name.plain
        corr = [t.phase_name for t in sh.see_also_targets if isinstance(t, TestCasePhaseCrossReference)]
        own = dict_pairs(conf_own) if sn == snp.SECTION_NAME__CONF else []
        e = dict(name=sn, own_dict=own, corresponds=corr, has_help_instr=bool(sh.has_instructions),
                 help_struct=[], help_keys=[], accepted=[], is_file_list=sn in (snp.SECTION_NAME__CASES, snp.SECTION_NAME__SUITS))
        if sh.has_instructions:
            e['help_struct'] = [x.instruction_name() for x in sh.instruction_set.instruction_documentations]
            e['help_keys'] = list(sh.instruction_set.name_2_description.keys())
        acc = None if e['is_file_list'] else drive('suite', sn)
        e['takes_names'] = acc is not None
        e['accepted'] = acc or []
        e['modes'], e['mode_files'] = [], {}
        if acc is not None:
            documented = list(e['help_struct'])
            for p in inv.phases:
                if p['name'] in corr:
                    documented += [n for n in p['help_struct'] if n not in documented]
            e['modes'], e['mode_files'] = described_modes(live, 'suite', sn, _names_and_some_perturbed(e['accepted'], documented))
        inv.suite_sections.append(e)

    # ---- entities ---------------------------------------------------------------------------
    inv.entity_types_program = [t.identifier for t in all_entity_types.ALL_ENTITY_TYPES_IN_DISPLAY_ORDER]
    inv.entity_types_help = list(app.entity_type_id_2_entity_type_conf.keys())
    reg = entity_registry()
    inv.entities = []
    for tid in inv.entity_types_help:
        conf = app.entity_type_id_2_entity_type_conf[tid]
        struct = [d.singular_name() for d in conf.entities_help.all_entities]
        rendered = [n for _, n in rendered_table_rows(_ok(live.help([tid]), 'help ' + tid).out)]
        registered = list(reg.get(tid, []))
        accepted, how = accepted_entities(live, tid, struct, registered)
        modes, uses = entity_modes(live, tid, accepted, struct)
        inv.entities.append(dict(type=tid, accepted=accepted, how=how, registered=registered, help_struct=struct,
                                 modes=modes, uses=uses,
                                 help_rendered=rendered))

    # ---- help requests ----------------------------------------------------------------------
    inv.requests = enumerate_requests(live, inv)

    # ---- HTML manual ------------------------------------------------------------------------
    inv.html_ids, inv.html_hrefs, inv.html_external = html_inventory(live, inv)
    return inv


class _NoOutput:
    out = ''


def _ok(r, what):
    """The run if it succeeded, else an empty output: a failing help request is a PROPERTY failure which run() reports
    with the concrete command line (it is among the enumerated requests); the inventory then simply lacks the list."""
    if r.exception is not None or r.exit_code != 0 or not r.out.strip():
        return _NoOutput
    return r


def _rows_under_section_header(text, hdr):
    """rows of `help instructions` that stand under the line `[phase]` (up to the next `[...]` line)."""
    out, on, text_col = [], False, None
    for line in text.split('\n'):
        line = line.rstrip()
        if not line:
            continue
        if re.match(r'^\[[^\]]+\]$', line):
            on, text_col = (line == hdr), None
            continue
        if not on:
            continue
        indent = len(line) - len(line.lstrip(' '))
        if text_col is not None and indent >= text_col:
            continue
        m = re.match(r'(\S(?:.*?\S)?) {2,}(\S.*)$', line[indent:])
        if m:
            out.append(m.group(1))
            text_col = indent + m.start(2)
        else:
            text_col = None
    return out


def accepted_entities(live, tid, documented, registered):
    """The entities of one type that the PROGRAM accepts, observed by driving it (see ASSUMPTIONS)."""
    from exactly_lib.definitions.entity import all_entity_types as aet
    base = []
    for n in list(documented) + list(registered):
        if n not in base:
            base.append(n)
    cands = list(base)
    for n in base:
        for p in perturbations(n):
            if p not in cands:
                cands.append(p)

    def by_oracle(orc):
        return [n for n in cands + [t for t in orc.tokens() if t not in cands] if orc.accepted(n)]

    if tid == aet.ACTOR_ENTITY_TYPE_NAMES.identifier:
        return accepted_actors(live, base), 'name of the actor selected by each keyword accepted after `actor =`'
    if tid == aet.TYPE_ENTITY_TYPE_NAMES.identifier:
        return by_oracle(BogusOracle(lambda n: live.run_case_text('[setup]\ndef %s\n' % n), 'def TYPE')), \
            'type names `def` does not answer like an invented type name'
    if tid == aet.SUITE_REPORTER_ENTITY_TYPE_NAMES.identifier:
        return by_oracle(BogusOracle(lambda n: live.run_suite_text('', ['--reporter', n]), '--reporter')), \
            'names `exactly suite --reporter` does not answer like an invented name'
    if tid == aet.DIRECTIVE_ENTITY_TYPE_NAMES.identifier:
        orc = BogusOracle(lambda n: live.run_case_text('[setup]\n%s\n' % n), 'directive in [setup]')
        return [n for n in cands + [t for t in orc.tokens() if t not in cands]
                if orc.accepted(n) and directive_recognised(live, n)], \
            'names recognised by the section-element parser built with an EMPTY instruction set, and by a case'
    if tid == aet.CONF_PARAM_ENTITY_TYPE_NAMES.identifier:
        return by_oracle(BogusOracle(lambda n: live.run_case_text('[conf]\n%s\n' % n), 'conf parameter in [conf]')), \
            'names [conf] does not answer like an invented instruction name'
    if tid == aet.BUILTIN_SYMBOL_ENTITY_TYPE_NAMES.identifier:
        orc = BogusOracle(lambda n: live.run_case_text('[setup]\ndef string C20_PROBE = @[%s]@\n' % n), 'reference to a builtin symbol')
        extra = [bs.name for bs in live.builtin_symbols] + orc.tokens()
        extra = [x for i, x in enumerate(extra) if x not in cands and x not in extra[:i]]
        from exactly_lib.symbol import symbol_syntax
        # only a syntactically valid symbol name makes `@[NAME]@` a symbol reference at all
        return [n for n in cands + extra if symbol_syntax.is_symbol_name(n) and orc.accepted(n)], \
            'symbol names a case may reference without defining them'
    if tid in (aet.CONCEPT_ENTITY_TYPE_NAMES.identifier, aet.SYNTAX_ELEMENT_ENTITY_TYPE_NAMES.identifier):
        if not registered:
            raise RuntimeError('no registered entities of type %s found (fail-closed)' % tid)
        return list(registered), 'objects of this entity type in exactly_lib.definitions.entity.* (nothing to parse)'
    raise RuntimeError('entity type %r is new: no way to observe what the program accepts is known (fail-closed)' % tid)


def entity_modes(live, tid, accepted, documented):
    """Per way of running a case (other than stand-alone): which entities are accepted.  Builtin symbols: by the
    invented-name oracle over all candidates, in each way.  Types, actors, configuration parameters: a complete use that
    passes stand-alone must exit 0 in each way.  ([(mode, probed, accepted)], {name: case text})"""
    from exactly_lib.definitions.entity import all_entity_types as aet
    from exactly_lib.definitions import conf_params
    if tid == aet.BUILTIN_SYMBOL_ENTITY_TYPE_NAMES.identifier:
        from exactly_lib.symbol import symbol_syntax
        cands = []
        for n in list(documented) + list(accepted):
            for c in [n] + perturbations(n):
                if c not in cands and symbol_syntax.is_symbol_name(c):
                    cands.append(c)
        text = '[setup]\ndef string C20_PROBE = @[%s]@\n'
        out = []
        for mode in Live.MODES[1:]:
            orc = BogusOracle(lambda n, mode=mode: live.run_case_text_in_mode(mode, text % n), 'builtin symbol, ' + mode)
            out.append((mode, list(cands), [n for n in cands if orc.accepted(n)]))
        return out, {n: text % n for n in cands}
    uses = {}
    if tid == aet.TYPE_ENTITY_TYPE_NAMES.identifier:
        for n in accepted:
            t = complete_use(live, ['[setup]\ndef %s C20_X = %s\n' % (n, v) for v in TYPE_VALUE_FORMS])
            if t is not None:
                uses[n] = t
    elif tid == aet.CONF_PARAM_ENTITY_TYPE_NAMES.identifier:
        for n in accepted:
            t = complete_use(live, ['[conf]\n%s %s\n' % (n, a) for a in ARG_FORMS])
            if t is not None:
                uses[n] = t
    elif tid == aet.ACTOR_ENTITY_TYPE_NAMES.identifier:
        for kw, name in actor_keywords(live, documented):
            if name in uses:
                continue
            t = complete_use(live, ['[conf]\n%s = %s %s\n[act]\n%s\n' % (conf_params.ACTOR, kw, a, act)
                                    for a, act in ACTOR_FORMS])
            if t is not None:
                uses[name] = t
    else:
        return [], {}
    return modes_of_complete_uses(live, uses), uses


def directive_recognised(live, name):
    from exactly_lib.processing.parse import instruction_section_element_parser as isep
    from exactly_lib.section_document.element_parsers.instruction_parser_exceptions import UnknownInstructionException
    from exactly_lib.section_document.parse_source import ParseSource
    from exactly_lib.section_document.source_location import FileSystemLocationInfo, FileLocationInfo
    import pathlib
    parser = isep.section_element_parser(live.parsing_setup.instruction_name_extractor_function, {})
    loc = FileSystemLocationInfo(FileLocationInfo(pathlib.Path(live.cwd)))
    try:
        parser.parse(loc, ParseSource(name + ' some-file\n'))
    except UnknownInstructionException:
        return False
    except Exception:
        return True
    return True


def accepted_actors(live, documented):
    names = []
    for _, n in actor_keywords(live, documented):
        if n not in names:
            names.append(n)
    return names


def actor_keywords(live, documented):
    """[(keyword, name of the actor it selects)] for the keywords `actor = KEYWORD ...` accepts.
    Names of the actors `actor = KEYWORD ...` can select.  Keywords tried: the words of the documented actor names, the
    keywords the help of the `actor` instruction shows after `=`, and the keys of the parser table if it can be found."""
    from exactly_lib.impls.instructions.configuration.utils import actor_utils
    from exactly_lib.section_document.parse_source import ParseSource
    from exactly_lib.definitions import conf_params
    if getattr(live, '_actor_kw', None) is not None:
        return live._actor_kw
    kws = []
    for n in documented:
        kws += n.split() + [n.replace(' ', '-'), n.replace(' ', '_')]
    r = live.help(['conf', conf_params.ACTOR])
    kws += re.findall(r'^\s*%s\s*=\s*(\S+)' % re.escape(conf_params.ACTOR), r.out, re.M)
    try:
        kws += list(actor_utils._actor_parsers_setup().keys())
    except Exception:
        pass
    orc = BogusOracle(lambda k: live.run_case_text('[conf]\n%s = %s\n' % (conf_params.ACTOR, k)), 'actor = KEYWORD')
    kws += orc.tokens()
    kws = [k for i, k in enumerate(kws) if k not in kws[:i] and re.match(r'^[\w-]+$', k)]
    names = []
    for k in kws + [p for k in kws for p in perturbations(k)]:
        if not orc.accepted(k):
            continue
        got = None
        for args in ('', ' python3', ' python3 -c'):
            try:
                got = actor_utils.parse(ParseSource('= %s%s\n' % (k, args))).name
                break
            except Exception:
                continue
        if got is None:
            raise RuntimeError('keyword %r is accepted by `actor =` but no argument form parsed (fail-closed)' % k)
        names.append((k, got))
    live._actor_kw = names
    return names


def enumerate_requests(live, inv):
    """[(argv, expected_valid, exit_code, stdout_non_empty, escaped_exception)] for every enumerated help request."""
    kw = inv.keywords
    reqs = [([], True), ([kw['help']], True), ([kw['htmldoc']], True), ([kw['case']], True), ([kw['case'], kw['spec']], True),
            ([kw['suite']], True), ([kw['suite'], kw['spec']], True), ([kw['symbol']], True), ([kw['instructions']], True),
            ([BOGUS], False), ([kw['htmldoc'], BOGUS], False), ([kw['symbol'], BOGUS], False), ([kw['case'], BOGUS], False),
            ([kw['suite'], BOGUS], False)]
    seen_names = []
    for p in inv.phases:
        reqs.append(([p['name']], True))
        reqs.append(([p['name'], BOGUS], False))
        if p['has_help_instr'] or p['has_dict']:
            reqs.append(([p['name'], kw['instructions']], True))
            for n in p['help_struct'] + [a for a in p['accepted'] if a not in p['help_struct']]:
                reqs.append(([p['name'], n], True))
                if n not in seen_names:
                    seen_names.append(n)
    for n in seen_names:
        reqs.append(([n], True))
    for s in inv.suite_sections:
        reqs.append(([kw['suite'], s['name']], True))
        reqs.append(([kw['suite'], s['name'], BOGUS], False))
        for n in s['help_struct']:
            reqs.append(([kw['suite'], s['name'], n], True))
    for e in inv.entities:
        reqs.append(([e['type']], True))
        reqs.append(([e['type'], BOGUS], False))
        for n in e['help_struct'] + [a for a in e['accepted'] + e['help_rendered'] if a not in e['help_struct']]:
            reqs.append(([e['type']] + n.split(' '), True))
            if ' ' in n:
                reqs.append(([e['type'], n], True))
    out, seen = [], set()
    for argv, valid in reqs:
        if tuple(argv) in seen:
            continue
        seen.add(tuple(argv))
        r = live.help(argv)
        out.append((argv, valid, r.exit_code, bool(r.out.strip()), None if r.exception is None else type(r.exception).__name__))
    return out


def html_inventory(live, inv):
    from html.parser import HTMLParser
    r = live.help([inv.keywords['htmldoc']])
    if r.exception is not None or r.exit_code != 0:
        # `help htmldoc` is among the enumerated requests: run() reports it as a property failure with the command
        # line; the empty lists make the non-vacuity obligation of Props/C20.v fail as well
        return [], [], []
    ids, hrefs = [], []

    class P(HTMLParser):
        def handle_starttag(self, tag, attrs):
            for k, v in attrs:
                if k == 'id' or (k == 'name' and tag == 'a'):
                    ids.append(v)
                elif k == 'href':
                    hrefs.append(v)

        handle_startendtag = handle_starttag

    p = P(convert_charrefs=True)
    p.feed(r.out)
    p.close()
    import html as htmlmod
    ids2 = [htmlmod.unescape(m) for m in re.findall(r'<[^<>]*?\sid="([^"]*)"', r.out)]
    hrefs2 = [htmlmod.unescape(m) for m in re.findall(r'<[^<>]*?\shref="([^"]*)"', r.out)]
    if ids != ids2 or hrefs != hrefs2:
        raise RuntimeError('the two HTML attribute extractions disagree: %d/%d ids, %d/%d hrefs (fail-closed)'
                           % (len(ids), len(ids2), len(hrefs), len(hrefs2)))
    if not ids or not hrefs:
        raise RuntimeError('HTML manual without ids or hrefs (fail-closed)')
    internal = [h[1:] for h in hrefs if h.startswith('#')]
    external = [h for h in hrefs if not h.startswith('#')]
    for h in external:
        if not re.match(r'^[a-z][a-z0-9+.-]*://', h):
            raise RuntimeError('href %r is neither internal (#...) nor an absolute URL (fail-closed)' % h)
    return ids, internal, external


# ---------------------------------------------------------------------------------------------
# (T) Gen/C20_inventory.v
# ---------------------------------------------------------------------------------------------
def cpairs(pairs):
    pairs = list(pairs)
    return '[' + '; '.join('(%s, %s)' % (cs(a), cs(b)) for a, b in pairs) + ']' if pairs else '(@nil (string * string))'


def cmodes(modes):
    if not modes:
        return '(@nil mode_obs)'
    return '[' + ';\n       '.join('{| mo_mode := %s; mo_probed := %s; mo_accepted := %s |}' % (cs(m), csl(pr), csl(ac))
                                   for m, pr, ac in modes) + ']'


def inventory_to_coq(inv):
    kw = inv.keywords
    L = ['(* GENERATED on every run by harness/c20.py from the running program under /repo/src. Do not edit. *)',
         'From Coq Require Import List String ZArith.', 'From Exactly Require Import Model.Help.',
         'Import ListNotations.', 'Local Open Scope string_scope.', '']
    L.append('Definition live_kw : keywords := {| kw_help := %s; kw_htmldoc := %s; kw_case := %s; kw_suite := %s; '
             'kw_symbol := %s; kw_spec := %s; kw_instructions := %s |}.'
             % tuple(cs(kw[k]) for k in ('help', 'htmldoc', 'case', 'suite', 'symbol', 'spec', 'instructions')))
    ph = []
    for p in inv.phases:
        ph.append('  {| pi_name := %s; pi_in_help := %s; pi_has_dict := %s; pi_dict := %s;\n     pi_accepted := %s; pi_has_help_instr := %s;\n'
                  '     pi_help_struct := %s;\n     pi_help_keys := %s;\n     pi_help_rendered := %s;\n'
                  '     pi_help_rendered_all := %s;\n     pi_modes := %s |}'
                  % (cs(p['name']), cbool(p['in_help']), cbool(p['has_dict']), cpairs(p['dict']), csl(p['accepted']), cbool(p['has_help_instr']),
                     csl(p['help_struct']), csl(p['help_keys']), csl(p['help_rendered']), csl(p['help_rendered_all']),
                     cmodes(p['modes'])))
    L.append('Definition live_phases : list phase_inv := [\n%s\n].' % ';\n'.join(ph))
    ss = []
    for s in inv.suite_sections:
        ss.append('  {| si_name := %s; si_takes_names := %s; si_own_dict := %s; si_corresponds := %s;\n     si_accepted := %s;\n'
                  '     si_has_help_instr := %s; si_help_struct := %s; si_help_keys := %s;\n     si_modes := %s |}'
                  % (cs(s['name']), cbool(s['takes_names']), cpairs(s['own_dict']), csl(s['corresponds']), csl(s['accepted']),
                     cbool(s['has_help_instr']), csl(s['help_struct']), csl(s['help_keys']), cmodes(s['modes'])))
    L.append('Definition live_suite_sections : list suite_inv := [\n%s\n].' % ';\n'.join(ss))
    es = []
    for e in inv.entities:
        es.append('  (* accepted: %s *)\n  {| ei_type := %s;\n     ei_accepted := %s;\n     ei_help_struct := %s;\n'
                  '     ei_help_rendered := %s;\n     ei_modes := %s |}'
                  % (e['how'].replace('*', ''), cs(e['type']), csl(e['accepted']), csl(e['help_struct']), csl(e['help_rendered']),
                     cmodes(e['modes'])))
    L.append('Definition live_entities : list entity_inv := [\n%s\n].' % ';\n'.join(es))
    rs = []
    for argv, valid, code, nonempty, exc in inv.requests:
        if code is None and exc is None:
            raise RuntimeError('help run without exit code and without exception (fail-closed): %r' % (argv,))
        rs.append('  {| hr_argv := %s; hr_expected_valid := %s; hr_exit := %s; hr_nonempty := %s; hr_exception := %s |}'
                  % (csl(argv), cbool(valid), cZ(-1 if code is None else code), cbool(nonempty), cbool(exc is not None)))
    L.append('Definition live_requests : list help_run := [\n%s\n].' % ';\n'.join(rs))
    L.append('Definition live_html_ids : list string :=\n  %s.' % csl(inv.html_ids))
    L.append('Definition live_html_hrefs : list string :=\n  %s.' % csl(inv.html_hrefs))
    L.append('Definition live : inventory := {|\n  inv_kw := live_kw; inv_exit_ok := %s; inv_exit_invalid_usage := %s;\n'
             '  inv_candidates := %s;\n  inv_phases := live_phases; inv_suite_sections := live_suite_sections;\n'
             '  inv_entity_types_program := %s;\n  inv_entities := live_entities; inv_requests := live_requests;\n'
             '  inv_html_ids := live_html_ids; inv_html_hrefs := live_html_hrefs |}.'
             % (cZ(inv.exit_ok), cZ(inv.exit_invalid_usage), csl(inv.candidates), csl(inv.entity_types_program)))
    return '\n'.join(L) + '\n'


_INV_CACHE = {}


def gen_tables(ctx):
    live = new_live(ctx)
    try:
        inv = build_inventory(live)
        txt = inventory_to_coq(inv)
        if len(txt) > 1000000:
            raise RuntimeError('generated inventory unexpectedly large: %d bytes (fail-closed)' % len(txt))
        common.write_if_changed(os.path.join(common.COQ, 'Gen', 'C20_inventory.v'), txt)
        _INV_CACHE['inv'] = inv
    finally:
        live.close()


# ---------------------------------------------------------------------------------------------
# (D) correspondence and property on the implementation
# ---------------------------------------------------------------------------------------------
def c_request(req):
    """A help_request object of the implementation as a Coq [request]."""
    from exactly_lib.cli.program_modes.help.entities_requests import EntityHelpRequest, EntityHelpItem
    from exactly_lib.cli.program_modes.help.html_doc.help_request import HtmlDocHelpRequest
    from exactly_lib.cli.program_modes.help.program_modes.main_program.help_request import MainProgramHelpRequest, \
        MainProgramHelpItem
    from exactly_lib.cli.program_modes.help.program_modes.symbol.help_request import SymbolHelpRequest
    from exactly_lib.cli.program_modes.help.program_modes.test_case.help_request import TestCaseHelpRequest, TestCaseHelpItem
    from exactly_lib.cli.program_modes.help.program_modes.test_suite.help_request import TestSuiteHelpRequest, \
        TestSuiteHelpItem
    if isinstance(req, MainProgramHelpRequest):
        return {MainProgramHelpItem.PROGRAM: 'RProgram', MainProgramHelpItem.HELP: 'RHelpHelp'}[req.item]
    if isinstance(req, HtmlDocHelpRequest):
        return 'RHtmlDoc'
    if isinstance(req, SymbolHelpRequest):
        return 'RSymbol'
    if isinstance(req, EntityHelpRequest):
        if req.item is EntityHelpItem.ALL_ENTITIES_LIST:
            return '(REntityList %s)' % cs(req.entity_type)
        return '(REntity %s %s %s)' % (cs(req.entity_type), cs(req.individual_entity.singular_name()),
                                       cbool(req.do_include_name_in_output))
    if isinstance(req, TestCaseHelpRequest):
        it = req.item
        if it is TestCaseHelpItem.CLI_SYNTAX:
            return 'RCaseCli'
        if it is TestCaseHelpItem.SPECIFICATION:
            return 'RCaseSpec'
        if it is TestCaseHelpItem.INSTRUCTION_SET:
            return 'RInstructionSet'
        if it is TestCaseHelpItem.PHASE:
            return '(RPhase %s)' % cs(req.name)
        if it is TestCaseHelpItem.PHASE_INSTRUCTION_LIST:
            return '(RPhaseInstructionList %s)' % cs(req.name)
        if it is TestCaseHelpItem.INSTRUCTION:
            return '(RInstruction %s %s)' % (cs(req.name), cbool(req.do_include_name_in_output))
        if it is TestCaseHelpItem.INSTRUCTION_SEARCH:
            return '(RInstructionSearch %s %s)' % (cs(req.name), csl([sn.plain for sn, _ in req.data]))
    if isinstance(req, TestSuiteHelpRequest):
        it = req.item
        if it is TestSuiteHelpItem.CLI_SYNTAX:
            return 'RSuiteCli'
        if it is TestSuiteHelpItem.SPECIFICATION:
            return 'RSuiteSpec'
        if it is TestSuiteHelpItem.SECTION:
            return '(RSuiteSection %s)' % cs(req.name)
        if it is TestSuiteHelpItem.INSTRUCTION:
            return '(RSuiteInstruction %s)' % cs(req.name)
    raise RuntimeError('help request of unknown kind (fail-closed): %r' % (req,))


def observe_help(live, argv, cache):
    key = tuple(argv)
    if key not in cache:
        from exactly_lib.cli.program_modes.help import argument_parsing
        from exactly_lib.cli.program_modes.help.error import HelpError
        try:
            parsed = '(POk %s)' % c_request(argument_parsing.parse(live.app_help, list(argv)))
        except HelpError:
            parsed = 'PHelpError'
        r = live.help(argv)
        cache[key] = (parsed, r.exit_code, bool(r.out.strip()), None if r.exception is None else repr(r.exception)[:300])
    return cache[key]


def help_case(argv, obs):
    parsed, code, nonempty, exc = obs
    term = '(CHelp %s %s %s %s %s)' % (csl(argv), parsed, cZ(-1 if code is None else code), cbool(nonempty), cbool(exc is not None))
    js = {'kind': 'help', 'argv': list(argv), 'parsed_as': parsed, 'exit_code': code, 'stdout_non_empty': nonempty,
          'escaped_exception': exc, 'command': 'exactly help ' + ' '.join("'%s'" % a for a in argv)}
    return term, js


def gen_help_argvs(rng, inv, n_random):
    kw = inv.keywords
    vocab = list(kw.values())
    vocab += [p['name'] for p in inv.phases] + [s['name'] for s in inv.suite_sections] + [e['type'] for e in inv.entities]
    names = []
    for p in inv.phases:
        names += p['help_struct']
    for s in inv.suite_sections:
        names += s['help_struct']
    ent_names = []
    for e in inv.entities:
        ent_names += e['help_struct']
    words = sorted(set(w for n in ent_names for w in n.split(' ')))
    names = sorted(set(names))
    vocab = sorted(set(vocab))

    def mutate(w):
        k = rng.below(9)
        if k == 0:
            return w.upper()
        if k == 1:
            return w.capitalize()
        if k == 2 and len(w) > 1:
            i = rng.below(len(w))
            j = rng.randint(i + 1, len(w))
            return w[i:j]
        if k == 3:
            return w + rng.choice(['x', '-', 's', ' '])
        if k == 4 and len(w) > 1:
            return w[:-1]
        if k == 5:
            return rng.choice(['e', 'i', 't', '-', 'a', ''])
        if k == 6:
            return w.swapcase()
        if k == 7 and len(w) > 2:
            return w[1:]
        return w

    out = []
    base = [r[0] for r in inv.requests]
    for argv in base:
        out.append(list(argv))
    for argv in base:
        if not argv:
            continue
        for _ in range(2):
            a = list(argv)
            k = rng.below(6)
            i = rng.below(len(a))
            if k <= 2:
                a[i] = mutate(a[i])
            elif k == 3:
                a.insert(rng.below(len(a) + 1), rng.choice(vocab + names))
            elif k == 4 and len(a) > 1:
                del a[i]
            else:
                a = [mutate(x) for x in a]
            out.append(a)
    pools = [vocab, names, words, ent_names, [BOGUS, '', 'x', 'e']]
    for _ in range(n_random):
        ln = rng.weighted([(1, 3), (2, 5), (3, 4), (4, 1)])
        a = []
        for i in range(ln):
            w = rng.choice(rng.weighted([(pools[0], 5), (pools[1], 4), (pools[2], 2), (pools[3], 2), (pools[4], 1)]))
            if rng.chance(0.3):
                w = mutate(w)
            a.append(w)
        out.append(a)
    return out


def gen_probe_names(rng, inv, n):
    base = list(inv.candidates)
    real = sorted(set(x for p in inv.phases for x, _ in p['dict']))
    alphabet = sorted(set(''.join(real))) + ['x', 'Q', '_', '1']
    out = []
    for _ in range(n):
        k = rng.below(7)
        w = rng.choice(real)
        if k == 0:
            w = w + rng.choice(real)
        elif k == 1:
            i = rng.below(len(w) + 1)
            w = w[:i] + rng.choice(alphabet) + w[i:]
        elif k == 2 and len(w) > 1:
            i = rng.below(len(w))
            w = w[:i] + w[i + 1:]
        elif k == 3:
            w = ''.join(rng.choice(alphabet) for _ in range(rng.randint(1, 6)))
        elif k == 4:
            w = w.swapcase()
        elif k == 5:
            w = rng.choice(real) + '-' + w
        if w and not any(c.isspace() for c in w) and w not in (BOGUS, BOGUS2):
            out.append(w)
    return base + out


def gen_targets(rng, inv, n_random):
    from exactly_lib.definitions.cross_ref import concrete_cross_refs as ccr
    from exactly_lib.definitions.entity import all_entity_types
    from exactly_lib.help.html_doc.cross_ref_target_renderer import HtmlTargetRenderer
    renderer = HtmlTargetRenderer()
    etn = {t.identifier: t for t in all_entity_types.ALL_ENTITY_TYPES_IN_DISPLAY_ORDER}
    out = []

    def emit(obj, term):
        anchor = renderer.apply(obj)
        out.append((term, anchor, {'kind': 'target', 'cross_reference': term, 'anchor': anchor}))

    def word():
        return ''.join(rng.choice(['a', 'b', ' ', '-', '.', 'C']) for _ in range(rng.randint(0, 5)))

    for e in inv.entities:
        if e['type'] in etn:
            for n in e['help_struct']:
                emit(ccr.EntityCrossReferenceId(etn[e['type']], n), '(XEntity %s %s)' % (cs(e['type']), cs(n)))
    for p in inv.phases:
        emit(ccr.TestCasePhaseCrossReference(p['name']), '(XPhase %s)' % cs(p['name']))
        for n in p['help_struct']:
            emit(ccr.TestCasePhaseInstructionCrossReference(p['name'], n), '(XPhaseInstruction %s %s)' % (cs(p['name']), cs(n)))
    for s in inv.suite_sections:
        emit(ccr.TestSuiteSectionCrossReference(s['name']), '(XSuiteSection %s)' % cs(s['name']))
        for n in s['help_struct']:
            emit(ccr.TestSuiteSectionInstructionCrossReference(s['name'], n),
                 '(XSuiteSectionInstruction %s %s)' % (cs(s['name']), cs(n)))
    for part in ccr.HelpPredefinedContentsPart:
        emit(ccr.PredefinedHelpContentsPartReference(part), '(XPredefinedPart %s)' % cs(part.name))
    types = list(etn.values())
    for _ in range(n_random):
        k = rng.below(6)
        a, b = word(), word()
        if k == 0:
            t = rng.choice(types)
            emit(ccr.EntityCrossReferenceId(t, a), '(XEntity %s %s)' % (cs(t.identifier), cs(a)))
        elif k == 1:
            emit(ccr.TestCasePhaseCrossReference(a), '(XPhase %s)' % cs(a))
        elif k == 2:
            emit(ccr.TestCasePhaseInstructionCrossReference(a, b), '(XPhaseInstruction %s %s)' % (cs(a), cs(b)))
        elif k == 3:
            emit(ccr.TestSuiteSectionCrossReference(a), '(XSuiteSection %s)' % cs(a))
        elif k == 4:
            emit(ccr.TestSuiteSectionInstructionCrossReference(a, b), '(XSuiteSectionInstruction %s %s)' % (cs(a), cs(b)))
        else:
            emit(ccr.CustomCrossReferenceId(a), '(XCustom %s)' % cs(a))
    return out


def observe_lookup(pattern, keys):
    from exactly_lib.util import value_lookup
    try:
        m = value_lookup.lookup(pattern, [(k, i) for i, k in enumerate(keys)])
        return '(Found %s %s)' % (cs(m.key), cbool(m.is_exact_match))
    except value_lookup.NoMatchError:
        return 'NoMatch'
    except value_lookup.MultipleMatchesError as ex:
        return '(MultipleMatches %s)' % csl([kv[0] for kv in ex.matching_key_values])


def run(ctx, res):
    live = new_live(ctx)
    try:
        _run(ctx, res, live)
    finally:
        live.close()


def _run(ctx, res, live, sizes=None):
    rng = ctx.rng
    inv = _INV_CACHE.get('inv') or build_inventory(live)
    quick = ctx.quick
    n_help, n_names, n_lookup = sizes or ((1500, 150, 1500) if quick else (12000, 900, 12000))
    terms, meta = [], []

    def add(term, js, nontrivial_key):
        terms.append(term)
        meta.append(js)
        res.count(js['kind'])
        if nontrivial_key is not None:
            res.nontrivial.add(nontrivial_key)

    # 1. help command lines: every enumerated request, perturbed ones, random ones
    cache = {}
    for argv in gen_help_argvs(rng, inv, n_help):
        try:
            for a in argv:
                cs(a)
        except ValueError:
            continue
        obs = observe_help(live, argv, cache)
        term, js = help_case(argv, obs)
        add(term, js, ('help', tuple(argv)) if argv and BOGUS not in argv else None)
        res.count('help: ' + ('parsed' if obs[0] != 'PHelpError' else 'rejected'))
        res.count('help argc=%d' % len(argv))

    # 2. instruction names through the real parsers of every phase / suite section
    listed = {}
    for p in inv.phases:
        listed[('case', p['name'])] = {n: {'help data structure': n in p['help_struct'],
                                           '`exactly help %s instructions`' % p['name']: n in p['help_rendered'],
                                           '`exactly help instructions` under [%s]' % p['name']: n in p['help_rendered_all']}
                                       for n in set(p['accepted'] + p['help_struct'] + p['help_rendered'] + p['help_rendered_all'])}
    for kind, sections in (('case', [p['name'] for p in inv.phases if p['has_dict'] or p['has_help_instr']]),
                           ('suite', [s['name'] for s in inv.suite_sections if s['takes_names']])):
        for sec in sections:
            if kind == 'case':
                orc = BogusOracle(lambda n, sec=sec: live.run_case_text('[%s]\n%s\n' % (sec, n)), '[%s] of a case' % sec)
            else:
                orc = BogusOracle(lambda n, sec=sec: live.run_suite_text('[%s]\n%s\n' % (sec, n)), '[%s] of a suite' % sec)
            seen = set()
            for name in gen_probe_names(rng, inv, n_names):
                if name in seen:
                    continue
                seen.add(name)
                if directive_recognised(live, name):
                    continue
                a1 = orc.accepted(name)
                if a1 is None:
                    continue
                a2 = parser_level(live, kind, sec, name)
                if (a1 and a2 == 'unknown-instruction') or (not a1 and a2 == 'ok'):
                    res.errors.append('acceptance observations disagree for %r in %s [%s]: main program %r, section parser %r'
                                      % (name, kind, sec, a1, a2))
                    continue
                ctor = 'CAcceptCase' if kind == 'case' else 'CAcceptSuite'
                add('(%s %s %s %s)' % (ctor, cs(sec), cs(name), cbool(a1)),
                    {'kind': 'accept-' + kind, 'section': sec, 'name': name, 'accepted_by_program': a1,
                     'file': '[%s]\n%s\n' % (sec, name), 'listed': listed.get((kind, sec), {}).get(name)},
                    (kind, sec, name))
                res.count('accept: ' + ('accepted' if a1 else 'unknown instruction'))

    # 3. value_lookup.lookup on its own, on small alphabets (exact / unique substring / multiple / none)
    alpha = ['a', 'b', 'A', 'B', '-', ' ']
    for _ in range(n_lookup):
        keys = [''.join(rng.choice(alpha) for _ in range(rng.randint(0, 4))) for _ in range(rng.randint(0, 5))]
        pattern = rng.choice(keys) if keys and rng.chance(0.3) else ''.join(rng.choice(alpha) for _ in range(rng.randint(0, 3)))
        if rng.chance(0.2):
            pattern = pattern.swapcase()
        obs = observe_lookup(pattern, keys)
        add('(CLookup %s %s %s)' % (cs(pattern), csl(keys), obs),
            {'kind': 'lookup', 'pattern': pattern, 'keys': keys, 'observed': obs},
            ('lookup', pattern, tuple(keys)) if len(keys) >= 2 else None)
        res.count('lookup: ' + obs.strip('(').split(' ')[0])

    # 4. entities and hrefs of the inventory, as cases, so that a violation is reported with its concrete input
    for e in inv.entities:
        names = list(e['help_struct'])
        names += [n for i, n in enumerate(e['accepted'] + e['help_rendered'])
                  if n not in names and n not in (e['accepted'] + e['help_rendered'])[:i]]
        for n in names:
            add('(CEntity %s %s %s)' % (cs(e['type']), cs(n), cbool(n in e['accepted'])),
                {'kind': 'entity', 'type': e['type'], 'name': n, 'accepted_by_program': n in e['accepted'],
                 'listed_by_help': n in e['help_struct'], 'displayed_by_exactly_help_TYPE': n in e['help_rendered'],
                 'command': 'exactly help %s' % e['type'], 'how_accepted_is_observed': e['how']},
                ('entity', e['type'], n))
    ids = inv.html_ids
    for h in sorted(set(inv.html_hrefs)):
        add('(CHref %s %d)' % (cs(h), ids.count(h)),
            {'kind': 'href', 'href': '#' + h, 'elements_with_that_id': ids.count(h)}, ('href', h))

    # 4b. every way of running a case: the names probed there, so that a violation is reported with the case file
    for p in inv.phases:
        for mode, probed, acc in p['modes']:
            for n in probed:
                add('(CModeInstr %s %s %s %s)' % (cs(mode), cs(p['name']), cs(n), cbool(n in acc)),
                    {'kind': 'mode-instruction', 'way_of_running': mode, 'section': p['name'], 'name': n,
                     'accepted_by_program': n in acc, 'listed_by_help': n in p['help_struct'],
                     'case_file': p['mode_files'].get((mode, n)) or p['uses'].get(n)},
                    ('mode', mode, p['name'], n))
    for s in inv.suite_sections:
        documented = list(s['help_struct'])
        for p in inv.phases:
            if p['name'] in s['corresponds']:
                documented += p['help_struct']
        for mode, probed, acc in s['modes']:
            for n in probed:
                add('(CModeSuite %s %s %s %s)' % (cs(mode), cs(s['name']), cs(n), cbool(n in acc)),
                    {'kind': 'mode-suite', 'way_of_running': mode, 'section': s['name'], 'name': n,
                     'accepted_by_program': n in acc, 'listed_by_help': n in documented,
                     'suite_file': s['mode_files'].get((mode, n)), 'command': 'exactly suite FILE'},
                    ('mode-suite', mode, s['name'], n))
    for e in inv.entities:
        for mode, probed, acc in e['modes']:
            for n in probed:
                add('(CModeEntity %s %s %s %s)' % (cs(mode), cs(e['type']), cs(n), cbool(n in acc)),
                    {'kind': 'mode-entity', 'way_of_running': mode, 'type': e['type'], 'name': n,
                     'accepted_by_program': n in acc, 'listed_by_help': n in e['help_struct'], 'case_file': e['uses'].get(n)},
                    ('mode', mode, e['type'], n))

    # 5. HtmlTargetRenderer against its model: the real targets of the inventory and synthetic ones
    for x_term, anchor, js in gen_targets(rng, inv, 60 if quick else 600):
        add('(CTarget %s %s)' % (x_term, cs(anchor)), js, ('target', x_term))

    res.evaluations = len(terms)
    res.rule = ('distinct cases other than probes with an invented name: help command lines with >= 1 argument '
                '(enumerated, perturbed, random); (section, instruction name) probes through the real parsers; lookups '
                'with >= 2 keys; every (entity type, entity) pair; every (way of running a case, probed name) pair; every distinct internal href; every cross-reference target')
    res.samples = [meta[i] for i in range(0, len(meta), max(1, len(meta) // 6))][:6]
    res.extra['inventory'] = {
        'phases': {p['name']: len(p['accepted']) for p in inv.phases},
        'suite_sections': {s['name']: len(s['accepted']) for s in inv.suite_sections},
        'entities': {e['type']: len(e['accepted']) for e in inv.entities},
        'help_requests_enumerated': len(inv.requests), 'html_ids': len(inv.html_ids),
        'html_internal_hrefs': len(inv.html_hrefs), 'html_distinct_internal_hrefs': len(set(inv.html_hrefs)),
        'candidate_names_per_section': len(inv.candidates), 'program_runs': live.n_runs,
    }
    corr_bad, prop_bad, errors = common.run_shards('C20', ['Model.Help', 'Spec.C20', 'Gen.C20_inventory'],
                                                   '(check_case live)', terms,
                                                   extra_defs='Local Open Scope string_scope.')
    res.errors += errors
    for i in corr_bad:
        res.disagreements.append(Failure('correspondence', meta[i], 'Model/Help.v disagrees with the observed behaviour'))
    for i in prop_bad:
        res.prop_failures.append(Failure('property', meta[i], _explain(meta[i])))


def _explain(js):
    k = js['kind']
    if k == 'help':
        return ('`%s` asks for something the help lists or the program accepts; expected exit 0 with output, observed: not displayed successfully (exit %r, output %s, exception %r)'
                % (js['command'], js['exit_code'], 'non-empty' if js['stdout_non_empty'] else 'EMPTY', js['escaped_exception']))
    if k.startswith('accept'):
        return ('in section [%s] the program %s the instruction name %r but the help %s it%s'
                % (js['section'], 'accepts' if js['accepted_by_program'] else 'does not accept', js['name'],
                   'does not list' if js['accepted_by_program'] else 'lists',
                   '' if not js.get('listed') else ' everywhere: %r' % js['listed']))
    if k == 'entity':
        return ('%s %r: accepted by the program = %r; in the help data structure = %r; displayed by `exactly help %s` = %r '
                '(expected: all three equal)'
                % (js['type'], js['name'], js['accepted_by_program'], js['listed_by_help'], js['type'],
                   js['displayed_by_exactly_help_TYPE']))
    if k == 'mode-suite':
        return ('suite section [%s], instruction %r: the help documents it for this section = %r, but written as in %r '
                '(`exactly suite FILE`) the program accepts it = %r; the bare name is judged separately'
                % (js['section'], js['name'], js['listed_by_help'], js['suite_file'], js['accepted_by_program']))
    if k in ('mode-instruction', 'mode-entity'):
        return ('%s %r: `exactly help` lists it = %r, but run as `%s` the program accepts it = %r (stand-alone `exactly CASE` '
                'accepts the same case file: %r)'
                % (js.get('type') or 'instruction of [%s]' % js.get('section'), js['name'], js['listed_by_help'],
                   js['way_of_running'], js['accepted_by_program'], js['case_file']))
    if k == 'href':
        return 'internal link %s of `exactly help htmldoc` has %d target elements' % (js['href'], js['elements_with_that_id'])
    return 'value_lookup.lookup does not find a key by its own name'


def search(ctx, res):
    """Failing-input search after a broken proof / tie: the thorough generator."""
    live = new_live(ctx)
    try:
        r2 = common.Result()
        _run(ctx, r2, live, sizes=(12000, 900, 4000))
        return r2.prop_failures
    finally:
        live.close()


def replay(ctx, payload):
    import json
    case = payload.get('case') or {}
    live = new_live(ctx)
    try:
        print(json.dumps(case, indent=1))
        k = case.get('kind')
        if k == 'help':
            r = live.help(case['argv'])
            print('implementation now: exit %r, stdout %d chars, stderr %r, exception %r'
                  % (r.exit_code, len(r.out), r.err[:300], r.exception))
            vals, raw = common.coq_eval_terms('C20', ['Model.Help', 'Spec.C20', 'Gen.C20_inventory'],
                                              ['parse_help (inv_kw live) (app_of live) (%s)%%string' % csl(case['argv']),
                                               'asks_for_listed live (%s)%%string' % csl(case['argv'])], tag='replay')
            print('model (on the inventory of the last run): parse_help = %s ; asks for something the help lists = %s'
                  % tuple(vals or ['?', raw[-300:]]))
        elif k in ('accept-case', 'accept-suite'):
            kind = k.split('-')[1]
            r = live.run_case_text(case['file']) if kind == 'case' else live.run_suite_text(case['file'])
            print('implementation now: exit %r\n%s\n%s' % (r.exit_code, r.out[:600], r.err[:600]))
            print('section parser raises UnknownInstructionException: %r'
                  % parser_level_unknown(live, kind, case['section'], case['name']))
        elif k == 'lookup':
            print('implementation now:', observe_lookup(case['pattern'], case['keys']))
            vals, raw = common.coq_eval_terms('C20', ['Model.Help'], ['lookup (%s)%%string (%s)%%string'
                                                                      % (cs(case['pattern']), csl(case['keys']))], tag='replay')
            print('model: %s' % (vals or raw[-300:]))
        elif k == 'mode-suite':
            r = live.run_suite_text(case['suite_file'])
            print('exactly suite FILE: exit %r  %s' % (r.exit_code, ' '.join((r.out + ' ' + r.err).split())[-200:]))
        elif k in ('mode-instruction', 'mode-entity'):
            for mode in Live.MODES:
                r = live.run_case_text_in_mode(mode, case['case_file'])
                print('%-50s exit %r  %s' % (mode, r.exit_code, ' '.join((r.out + ' ' + r.err).split())[:160]))
        elif k in ('entity', 'href'):
            inv = build_inventory(live)
            if k == 'entity':
                for e in inv.entities:
                    if e['type'] == case['type']:
                        print('accepted now: %r\nlisted by help now: %r' % (e['accepted'], e['help_struct']))
            else:
                print('elements with id %r now: %d' % (case['href'][1:], inv.html_ids.count(case['href'][1:])))
        print('model: see coq/Model/Help.v; evaluate with  ./check C20 --tier quick')
    finally:
        live.close()
    return 0
