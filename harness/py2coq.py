"""py2coq: a fail-closed translator of small pure Python functions of exactly_lib to Gallina.

The output (coq/Gen/Src_<Target>.v, regenerated on every check) is what the source says NOW; hand-written
proofs (coq/Proofs/SrcTie<Target>.v) show it equal, for all inputs, to the hand-written model functions, so that
the theorems about the model are re-checked against the current source text.  See notes/py2coq.md.

Untyped: a Python expression becomes a term of type [pyval] (coq/Lib/PyVal.v), a Python operation becomes the
function of PyVal.v implementing its dynamic semantics (exception / unimplemented operand = VErr).  Control:
  x = e ; REST           py_let E (fun v => REST)                     (locals are renamed v1, v2, ... in binding order,
                                                                       parameters a0, a1, ...: alpha-normal form)
  return e               py_ret E                                      raise ...    VErr
  if c: A else: B; REST  py_seq (match py_truthy C with Some true => A | Some false => B | None => VErr end)
                                (fun st => match st with VTuple [joined variables] => REST | _ => VErr end)
  for x in e: A; REST    py_seq (py_for E (fun x st => match st with VTuple [state] => A ...) (VTuple [state])) (...)
  l.append(e) / l.insert(0, e) / del l[0]    rebinding of l -- only for a list this function uniquely owns (a list
                         display / sorted() / list() / the fresh result of a translated function, never captured since),
                         or for a parameter ("out parameter": the function then returns (result, final lists...)).
Everything not listed in the `tr_*` methods raises Unsupported.  Nothing is guessed.
"""
import ast
import hashlib
import os

import common

SRC_ROOT = 'exactly_lib'
EXTERNAL_BASES = {'ABC', 'Generic', 'object', 'Enum', 'IntEnum', 'tuple'}
ALLOWED_DUNDERS = {'__init__', '__new__', '__str__', '__repr__', '__eq__', '__hash__'}  # == on objects is always refused (PyVal.py_eqb)
BUILTINS = {'len', 'min', 'max', 'sorted', 'filter', 'reversed', 'list', 'tuple', 'abs', 'map', 'set', 'frozenset'}
LAZY = {'filter', 'reversed', 'map'}  # iterators: only where they are consumed at once


class Unsupported(Exception):
    pass


def cstr(s):
    if not all(32 <= ord(c) < 127 for c in s):
        raise Unsupported('non-ASCII string literal %r' % s)
    return '"%s"' % s.replace('"', '""')


class Mod:
    def __init__(self, src, dotted):
        self.dotted, self.short = dotted, dotted.rsplit('.', 1)[-1]
        base = os.path.join(src, *dotted.split('.'))
        self.path = base + '.py' if os.path.exists(base + '.py') else os.path.join(base, '__init__.py')
        self.text = open(self.path).read()
        self.lines = self.text.split('\n')
        self.tree = ast.parse(self.text)
        self.binds = {}  # top-level name -> list of binders
        for n in self.tree.body:
            if isinstance(n, (ast.FunctionDef, ast.ClassDef)):
                self.binds.setdefault(n.name, []).append(n)
            elif isinstance(n, ast.Assign) and all(isinstance(t, ast.Name) for t in n.targets):
                for t in n.targets:
                    self.binds.setdefault(t.id, []).append(n)
            elif isinstance(n, ast.AnnAssign) and isinstance(n.target, ast.Name) and n.value is not None:
                self.binds.setdefault(n.target.id, []).append(n)
            elif isinstance(n, ast.ImportFrom):
                pkg = dotted.split('.')[:-n.level] if n.level else []
                m = '.'.join(pkg + ([n.module] if n.module else []))
                for a in n.names:
                    if a.name == '*':
                        raise Unsupported('%s: star import (any name of the module may be rebound by it)' % dotted)
                    self.binds.setdefault(a.asname or a.name, []).append(('from', m, a.name))
            elif isinstance(n, ast.Import):
                for a in n.names:
                    self.binds.setdefault(a.asname or a.name.split('.')[0], []).append(('module', a.name if a.asname else a.name.split('.')[0]))
            else:  # anything else that binds a name makes that name opaque
                for x in ast.walk(n):
                    if isinstance(x, ast.Name) and isinstance(x.ctx, ast.Store):
                        self.binds.setdefault(x.id, []).append(('opaque',))

    def span(self, node):
        a = min([node.lineno] + [d.lineno for d in getattr(node, 'decorator_list', [])])
        txt = '\n'.join(self.lines[a - 1:node.end_lineno])
        return '%s lines %d-%d sha256:%s' % (self.path[self.path.index(SRC_ROOT):], a, node.end_lineno,
                                             hashlib.sha256(txt.encode()).hexdigest()[:16])


class Var:
    def __init__(self, coq, owned=False):
        self.coq, self.owned = coq, owned


def stores(stmts):
    """(names rebound, or mutated as the receiver of a method call / del, by the statements; names passed as plain
    arguments of a call statement, which a callee with out parameters rebinds) -- in order of first occurrence"""
    st, args = [], []
    for s in stmts:
        for x in ast.walk(s):
            if isinstance(x, ast.Name) and isinstance(x.ctx, (ast.Store, ast.Del)):
                st.append(x.id)
            elif isinstance(x, ast.Delete):
                st += [t.value.id for t in x.targets if isinstance(t, ast.Subscript) and isinstance(t.value, ast.Name)]
            elif isinstance(x, (ast.Expr, ast.Assign)) and isinstance(x.value, ast.Call):
                args += [a.id for a in x.value.args if isinstance(a, ast.Name)]
                f = x.value.func
                if isinstance(x, ast.Expr) and isinstance(f, ast.Attribute) and isinstance(f.value, ast.Name):
                    st.append(f.value.id)
    return list(dict.fromkeys(st)), list(dict.fromkeys(args))


def assigned(stmts, env):
    """canonical order: variables defined before, in order of first definition; then the new ones"""
    st, args = stores(stmts)
    names = st + [a for a in args if a in env and a not in st]
    return [n for n in env if n in names] + [n for n in names if n not in env]


def reads(stmts):
    return {x.id for s in stmts for x in ast.walk(s) if isinstance(x, ast.Name)}


class Translator:
    def __init__(self, src, world, opaque=()):
        self.src, self.opaque = src, set(opaque)  # opaque modules: a call into them is RECORDED, not translated
        self.mods = {}
        self.world = [self.mod(m) for m in world]  # the classes of these modules are the closed world of dispatch
        self.out, self.done, self.busy, self.summary, self.refused, self.recursive = [], {}, set(), {}, [], set()

    # ---------------------------------------------------------------- modules, names
    def mod(self, dotted):
        if dotted not in self.mods:
            self.mods[dotted] = Mod(self.src, dotted)
        return self.mods[dotted]

    def resolve(self, mod, name):
        """('func'|'class'|'const', Mod, node) | ('module', Mod) for a top-level name of mod"""
        b = mod.binds.get(name)
        if not b:
            return None
        if len(b) != 1:
            raise Unsupported('%s: %s is bound %d times at module level' % (mod.short, name, len(b)))
        b = b[0]
        if isinstance(b, tuple):
            if b[0] == 'from':
                base = os.path.join(self.src, *b[1].split('.'))
                if os.path.exists(base + '.py') or os.path.isdir(base):
                    r = self.resolve(self.mod(b[1]), b[2]) if not b[1].startswith(('typing', 'abc', 'enum')) else None
                    if r:
                        return r
                    sub = os.path.join(base, b[2])
                    if os.path.exists(sub + '.py') or os.path.isdir(sub):
                        return ('module', self.mod(b[1] + '.' + b[2]))
                return ('external', b[1], b[2])
            if b[0] == 'module' and b[1].startswith(SRC_ROOT):
                return ('module', self.mod(b[1]))
            return ('external',) + b
        kind = 'func' if isinstance(b, ast.FunctionDef) else 'class' if isinstance(b, ast.ClassDef) else 'const'
        return (kind, mod, b)

    def static(self, mod, e, env):
        """resolve an expression that statically denotes a module-level entity (Name or module.attr chain)"""
        if isinstance(e, ast.Name) and e.id not in env:
            return self.resolve(mod, e.id)
        if isinstance(e, ast.Attribute):
            r = self.static(mod, e.value, env)
            if r and r[0] == 'module':
                return self.resolve(r[1], e.attr)
        return None

    def emit(self, key, name, hdr, nparams, body, typ='pyval', onames=None):
        self.out.append(dict(name=name, hdr=hdr, params=onames or ['a%d' % i for i in range(nparams)], body=body, typ=typ))
        self.done[key] = name
        return name

    def guarded(self, key, name, f):
        """translate once; a reference to something whose translation is in progress is recursion: the name is
        returned and the strongly connected group is emitted as a fuelled Fixpoint (see text())"""
        if key in self.done or key in self.busy:
            return name
        self.busy.add(key)
        try:
            r = f()
            assert r == name, (r, name)
            return r
        finally:
            self.busy.discard(key)

    # ---------------------------------------------------------------- classes
    def bases(self, mod, cls):
        out = []
        for b in cls.bases:
            b = b.value if isinstance(b, ast.Subscript) else b  # Generic[T]
            r = self.static(mod, b, {})
            if r and r[0] == 'class':
                out.append((r[1], r[2]))
            elif not (isinstance(b, ast.Name) and b.id in EXTERNAL_BASES) and not self.is_enum(mod, cls):
                raise Unsupported('class %s.%s: base class outside the translated world: %s' % (mod.short, cls.name, ast.dump(b)))
        if cls.keywords:
            raise Unsupported('class %s: metaclass/keywords' % cls.name)
        return out

    def mro(self, mod, cls):
        """the real C3 linearisation, computed by Python on a skeleton of the hierarchy"""
        made = {}

        def mk(m, c):
            k = (m.dotted, c.name)
            if k not in made:
                bs = tuple(mk(*b) for b in self.bases(m, c))
                made[k] = type(c.name, bs, {'_src': (m, c)})
            return made[k]
        return [k._src for k in mk(mod, cls).__mro__ if k is not object]

    def is_enum(self, mod, cls):
        return any((isinstance(b, ast.Name) and b.id in ('Enum', 'IntEnum') and self.resolve(mod, b.id) == ('external', 'enum', b.id))
                   or (isinstance(b, ast.Attribute) and b.attr in ('Enum', 'IntEnum') and isinstance(b.value, ast.Name)
                       and self.resolve(mod, b.value.id) == ('external', 'module', 'enum'))
                   for b in cls.bases)

    def member(self, mod, cls, name):
        """the definition of attribute `name` that an instance of cls sees: ('prop'|'meth'|'static', Mod, ClassDef, FunctionDef) | None"""
        for (m, c) in self.mro(mod, cls):
            for n in c.body:
                if isinstance(n, ast.FunctionDef):
                    if n.name.startswith('__') and n.name.endswith('__') and n.name not in ALLOWED_DUNDERS:
                        raise Unsupported('class %s defines %s' % (c.name, n.name))
                    if n.name == name:
                        decs = [d.id if isinstance(d, ast.Name) else '?' for d in n.decorator_list]
                        decs = [d for d in decs if d != 'abstractmethod']
                        if decs not in ([], ['property'], ['staticmethod']):
                            raise Unsupported('%s.%s: decorators %s' % (c.name, name, decs))
                        return ({'property': 'prop', 'staticmethod': 'static'}.get(decs[0] if decs else '', 'meth'), m, c, n)
                elif isinstance(n, (ast.Assign, ast.AnnAssign)):
                    ts = n.targets if isinstance(n, ast.Assign) else [n.target]
                    if any(isinstance(t, ast.Name) and t.id == name for t in ts):
                        raise Unsupported('class attribute %s.%s' % (c.name, name))
        return None

    def is_tuple_record(self, mod, cls):
        return any(isinstance(b, ast.Name) and b.id == 'tuple' and self.resolve(mod, 'tuple') is None for b in cls.bases)

    def fields(self, mod, cls):
        """(parameter names of the constructor, [(field, expr)], (Mod, FunctionDef) defining it) of a record-like class:
        __init__ consisting of `self.f = e`, or `class C(tuple)` with __new__ = `return tuple.__new__(cls, (e0, e1, ...))`
        (fields named 0, 1, ...: read as self[i] in the methods of C)"""
        init, new = self.member(mod, cls, '__init__'), self.member(mod, cls, '__new__')
        if self.is_tuple_record(mod, cls) or new:
            body = [s for s in (new[3].body if new else [])
                    if not (isinstance(s, ast.Expr) and isinstance(s.value, ast.Constant) and isinstance(s.value.value, str))]
            r = body[0].value if len(body) == 1 and isinstance(body[0], ast.Return) else None
            if init or not new or new[2] is not cls or not self.is_tuple_record(mod, cls) or not (
                    isinstance(r, ast.Call) and isinstance(r.func, ast.Attribute) and r.func.attr == '__new__'
                    and isinstance(r.func.value, ast.Name) and r.func.value.id == 'tuple' and len(r.args) == 2 and not r.keywords
                    and isinstance(r.args[0], ast.Name) and r.args[0].id == new[3].args.args[0].arg and isinstance(r.args[1], ast.Tuple)):
                raise Unsupported('%s: a tuple subclass must have exactly __new__ = `return tuple.__new__(cls, (...))`' % cls.name)
            self.check_args(new[3])
            return [a.arg for a in new[3].args.args[1:]], [(str(i), e) for i, e in enumerate(r.args[1].elts)], (new[1], new[3])
        if init is None:
            return [], [], (mod, cls)
        fn = init[3]
        self.check_args(fn)
        fs = []
        for k, s in enumerate(fn.body):
            if isinstance(s, ast.Expr) and isinstance(s.value, ast.Constant) and isinstance(s.value.value, str):
                continue
            c = s.value if isinstance(s, ast.Expr) else None
            if not fs and isinstance(c, ast.Call) and isinstance(c.func, ast.Attribute) and c.func.attr == '__init__' \
                    and isinstance(c.func.value, ast.Call) and isinstance(c.func.value.func, ast.Name) and c.func.value.func.id == 'super' \
                    and not c.func.value.args and not c.keywords and not any(isinstance(a, ast.Starred) for a in c.args):
                # super().__init__(e...): the fields of the next class of the MRO that has an __init__, each of which must be
                # one of its parameters (or a constant); they come first
                mro = self.mro(mod, cls)
                rest = mro[[x[1] for x in mro].index(init[2]) + 1:]
                base = [x for x in rest if any(isinstance(n, ast.FunctionDef) and n.name == '__init__' for n in x[1].body)]
                if base:
                    bparams, bfs, _ = self.fields(*base[0])
                    if len(bparams) != len(c.args):
                        raise Unsupported('%s.__init__: arity of super().__init__' % cls.name)
                    for f, e in bfs:
                        if isinstance(e, ast.Name) and e.id in bparams:
                            fs.append((f, c.args[bparams.index(e.id)]))
                        elif isinstance(e, ast.Constant):
                            fs.append((f, e))
                        else:
                            raise Unsupported('%s.__init__: field %s of the base class is not a plain parameter' % (cls.name, f))
                elif c.args:
                    raise Unsupported('%s.__init__: super().__init__ with arguments but no base __init__' % cls.name)
                continue
            ok = (isinstance(s, ast.Assign) and len(s.targets) == 1 and isinstance(s.targets[0], ast.Attribute)
                  and isinstance(s.targets[0].value, ast.Name) and s.targets[0].value.id == fn.args.args[0].arg)
            if not ok or s.targets[0].attr.startswith('__') or s.targets[0].attr in [f for f, _ in fs]:
                raise Unsupported('%s.__init__: only `self.f = e` statements: line %d' % (cls.name, s.lineno))
            fs.append((s.targets[0].attr, s.value))
        return [a.arg for a in fn.args.args[1:]], fs, (init[1], fn)

    def tag(self, mod, cls):
        return cstr(mod.short + '.' + cls.name)

    def ctor(self, mod, cls):
        key = ('ctor', mod.dotted, cls.name)

        def go():
            self.member(mod, cls, '__bool__')  # scans the MRO for forbidden dunders
            params, fs, (dmod, dnode) = self.fields(mod, cls)
            env = {p: Var('a%d' % i) for i, p in enumerate(params)}
            f = Fn(self, dmod, env)
            vals = [f.expr(e) for _, e in fs]
            hdr = '(* class %s: fields [%s]; %s *)' % (cls.name, '; '.join(x for x, _ in fs), dmod.span(dnode))
            return self.emit(key, name, hdr, len(params), '%spy_obj %s [%s]%s' % (
                ''.join('py_strict a%d (' % i for i in range(len(params))), self.tag(mod, cls), '; '.join(vals), ')' * len(params)))
        name = 'py_%s_%s' % (mod.short, cls.name)
        return self.guarded(key, name, go), len(self.fields(mod, cls)[0])

    def enum_members(self, mod, cls):
        ms = []
        for n in cls.body:
            if isinstance(n, ast.Assign) and len(n.targets) == 1 and isinstance(n.targets[0], ast.Name):
                if not (isinstance(n.value, ast.Constant) and type(n.value.value) in (int, str)):
                    raise Unsupported('enum %s: member value not an int/str literal' % cls.name)
                ms.append((n.targets[0].id, n.value.value))
            elif not (isinstance(n, ast.Expr) and isinstance(n.value, ast.Constant)):
                raise Unsupported('enum %s: body contains more than members (line %d)' % (cls.name, n.lineno))
        if len({v for _, v in ms}) != len(ms):
            raise Unsupported('enum %s: aliases' % cls.name)
        return ms

    def enum_term(self, mod, cls, name):
        for (n, v) in self.enum_members(mod, cls):
            if n == name:
                return '(VEnum %s %s %s)' % (self.tag(mod, cls), cstr(n), '(VInt (%d))' % v if isinstance(v, int) else '(VStr %s)' % cstr(v))
        raise Unsupported('enum %s has no member %s' % (cls.name, name))

    def enum_table(self, mod, cls):
        key = ('enum', mod.dotted, cls.name)
        name = 'py_%s_%s_members' % (mod.short, cls.name)
        return self.guarded(key, name, lambda: self.emit(
            key, name, '(* enum %s: %s *)' % (cls.name, mod.span(cls)), 0,
            '[%s]' % ';\n   '.join(self.enum_term(mod, cls, n) for n, _ in self.enum_members(mod, cls)), typ='list pyval'))

    def dispatcher(self, attr, call_arity=None):
        """py_attr_<attr> / py_meth_<attr>: by the class of the object, over the classes of the world modules"""
        kind = 'attr' if call_arity is None else 'meth'
        key = (kind, attr, call_arity)
        name = 'py_%s_%s' % (kind, attr)
        args = ''.join(' x%d' % i for i in range(call_arity or 0))

        def go():
            rows, notes = [], []
            for mod in self.world:
                for cls in mod.tree.body:
                    if not isinstance(cls, ast.ClassDef):
                        continue
                    try:
                        if self.is_enum(mod, cls):
                            continue
                        m = self.member(mod, cls, attr)
                        fnames = [f for f, _ in self.fields(mod, cls)[1]]
                        if m and m[0] == ('prop' if kind == 'attr' else 'meth'):
                            if kind == 'meth' and len(m[3].args.args) != call_arity + 1:
                                raise Unsupported('arity')
                            body = '%s o%s' % (self.function(m[1], m[3], m[2]), args)
                            if self.summary.get(body.split()[0], {}).get('mutator'):
                                raise Unsupported('a mutator is never called from translated code')
                        elif m is None and kind == 'attr' and attr in fnames:
                            body = 'nth_opt fs %d' % fnames.index(attr)
                        elif m is None and attr not in fnames:
                            continue
                        else:
                            raise Unsupported('%s is a %s of the class' % (attr, m[0] if m else 'field'))
                        rows.append('if String.eqb c %s then %s' % (self.tag(mod, cls), body))
                    except Unsupported as ex:
                        notes.append('%s.%s.%s: %s' % (mod.short, cls.name, attr, ex))
                        rows.append('if String.eqb c %s then VErr (* REFUSED *)' % self.tag(mod, cls))
            self.refused += notes
            if not rows and attr not in ('name', 'value'):
                raise Unsupported('no class of the world has attribute/method %s' % attr)
            enum = {'name': '  | VEnum _ n _ => VStr n\n', 'value': '  | VEnum _ _ x => x\n'}.get(attr, '') if kind == 'attr' else ''
            hdr = '(* dispatch of .%s on the class of the object *)' % attr + ''.join(
                '\n(* REFUSED (objects of this class give VErr): %s *)' % n for n in notes)
            return self.emit(key, name, hdr, 0, 'match o with\n  | VObj c fs =>\n      %s\n%s  | _ => VErr\n  end' % (
                '\n      else '.join(rows + ['VErr']), enum), onames=['o'] + args.split())
        return self.guarded(key, name, go)

    # ---------------------------------------------------------------- functions, constants
    def check_args(self, fn):
        a = fn.args
        # defaults are tolerated in a definition: every translated call must pass ALL arguments (arity checks), so a
        # default value is never used by translated code
        if a.vararg or a.kwarg or a.kwonlyargs or a.posonlyargs or a.kw_defaults:
            raise Unsupported('%s: only plain positional parameters' % fn.name)

    def function(self, mod, fn, cls=None):
        qual = (cls.name + '_' if cls else '') + fn.name
        key = ('fn', mod.dotted, qual)

        def go():
            self.check_args(fn)
            for d in fn.decorator_list:
                if not (isinstance(d, ast.Name) and d.id in ('staticmethod', 'property', 'abstractmethod')):
                    raise Unsupported('%s: decorator' % qual)
            if len(mod.binds.get(fn.name, [])) > 1 and not cls:
                raise Unsupported('%s defined more than once' % qual)
            params = [a.arg for a in fn.args.args]
            self.summary[name] = {'outs': [], 'fresh': False, 'n': len(params)}  # provisional: seen by recursive references
            stmts = [x for x in fn.body if not (isinstance(x, ast.Expr) and isinstance(x.value, ast.Constant) and isinstance(x.value.value, str))]
            if cls is not None and params and stmts and not fn.decorator_list and all(
                    isinstance(x, ast.Assign) and len(x.targets) == 1 and isinstance(x.targets[0], ast.Attribute)
                    and isinstance(x.targets[0].value, ast.Name) and x.targets[0].value.id == params[0] for x in stmts):
                # a setter: only `self.f = e` statements.  Translated as the function (self, args) |-> the UPDATED self
                # (exact for objects of exactly this class; never called from translated code)
                fnames = [f for f, _ in self.fields(mod, cls)[1]]
                env = {p: Var('a%d' % i) for i, p in enumerate(params)}
                f = Fn(self, mod, env)
                f.locals = set(params)
                new = {}
                for x in stmts:
                    if x.targets[0].attr not in fnames or any(isinstance(t, ast.Attribute) and isinstance(t.value, ast.Name) and t.value.id == params[0]
                                                              for t in ast.walk(x.value)):
                        raise Unsupported('%s: setter of an unknown field, or reading self' % qual)
                    new[x.targets[0].attr] = f.expr(x.value)
                self.summary[name] = {'outs': [], 'fresh': False, 'n': len(params), 'mutator': True}
                return self.emit(key, name, '(* %s.%s: %s; MUTATOR: returns the updated self *)' % (cls.name, fn.name, mod.span(fn)), len(params),
                                 '%smatch a0 with\n  | VObj c fs => if String.eqb c %s then py_obj c [%s] else VErr\n  | _ => VErr\n  end%s' % (
                                     ''.join('py_strict a%d (' % i for i in range(len(params))), self.tag(mod, cls),
                                     '; '.join(new.get(fld, 'nth_opt fs %d' % i) for i, fld in enumerate(fnames)), ')' * len(params)))
            outs = Fn(self, mod, {}).out_params(fn, params)
            env = {p: Var('a%d' % i, owned=(i in outs)) for i, p in enumerate(params)}
            f = Fn(self, mod, env, outs=[params[i] for i in outs])
            f.locals = set(params) | {x.id for x in ast.walk(fn) if isinstance(x, ast.Name) and isinstance(x.ctx, (ast.Store, ast.Del))}
            if cls is not None and params and self.is_tuple_record(mod, cls) and 'staticmethod' not in [getattr(d, 'id', '') for d in fn.decorator_list]:
                self.fields(mod, cls)  # checks the shape of the class
                f.self_tuple = (params[0], self.tag(mod, cls))
            body = f.block(fn.body, env, [params[i] for i in outs], 2)[0]
            if outs and name in self.recursive:
                raise Unsupported('%s: recursive function with out parameters' % qual)
            self.summary[name] = {'outs': outs, 'fresh': bool(f.returns) and all(f.returns), 'n': len(params)}
            hdr = '(* %s%s: %s%s *)' % (cls.name + '.' if cls else '', fn.name, mod.span(fn),
                                        '; returns (result, final value of %s)' % ', '.join(params[i] for i in outs) if outs else '')
            return self.emit(key, name, hdr, len(params), '%s%s (\n%s)%s' % (
                ''.join('py_strict a%d (' % i for i in range(len(params))),
                'py_fun_result_out' if outs else 'py_fun_result', body, ')' * len(params)))
        name = 'py_%s_%s' % (mod.short, qual)
        if key in self.busy:
            self.recursive.add(name)
        return self.guarded(key, name, go)

    def constant(self, mod, name, node):
        key = ('const', mod.dotted, name)
        cname = 'py_%s_%s' % (mod.short, name)
        return self.guarded(key, cname, lambda: self.emit(key, cname, '(* %s: %s *)' % (name, mod.span(node)), 0,
                                                          Fn(self, mod, {}).expr(node.value)))

    def root(self, dotted, qual):
        """translate a module-level function / constant / Class / Class.method by name"""
        mod = self.mod(dotted)
        if qual.startswith('.'):  # the dispatcher of an attribute over the classes of the world
            return self.dispatcher(qual[1:])
        parts = qual.split('.')
        r = self.resolve(mod, parts[0])
        if r is None or r[0] not in ('func', 'class', 'const'):
            raise Unsupported('%s.%s: not a function, class or constant of the module' % (dotted, qual))
        if r[0] == 'func':
            return self.function(r[1], r[2])
        if r[0] == 'const':
            return self.constant(r[1], parts[0], r[2])
        if len(parts) == 1:
            return self.enum_table(r[1], r[2]) if self.is_enum(r[1], r[2]) else self.ctor(r[1], r[2])[0]
        m = self.member(r[1], r[2], parts[1])
        if m is None:
            raise Unsupported('%s: no such method' % qual)
        return self.function(m[1], m[3], m[2])

    def text(self, title):
        """the Coq file: definitions in dependency order; a recursive group becomes one Fixpoint on explicit fuel
        (out of fuel = VErr; the entry points start with fuel  |group| * S (sum of the depths of the arguments))"""
        import re
        names = [d['name'] for d in self.out]
        pos = {n: i for i, n in enumerate(names)}
        ref = lambda n: re.compile(r"(?<![A-Za-z0-9_'])%s(?![A-Za-z0-9_'])" % re.escape(n))
        deps = {d['name']: [n for n in names if ref(n).search(d['body'])] for d in self.out}
        reach = {}
        for n in names:  # transitive closure (the graphs are tiny)
            seen, todo = set(), list(deps[n])
            while todo:
                x = todo.pop()
                if x not in seen:
                    seen.add(x)
                    todo += deps[x]
            reach[n] = seen
        chunks, emitted = [], set()
        for d in self.out:
            n = d['name']
            if n in emitted:
                continue
            group = [m for m in names if m == n or (n in reach[m] and m in reach[n])]
            if len(group) == 1 and n not in reach[n]:
                group, txt = [n], '%s\nDefinition %s %s: %s :=\n  %s.' % (
                    d['hdr'], n, ''.join('(%s : pyval) ' % p for p in d['params']), d['typ'], d['body'])
            else:
                if pos[n] != max(pos[m] for m in group):
                    continue  # emitted at the position of its last member
                ms = [self.out[pos[m]] for m in group]
                parts, wrappers = [], []
                for m in ms:
                    body = m['body']
                    for g in group:
                        body = ref(g).sub('(%s_F fuel)' % g, body)
                    parts.append('%s\n%s_F (fuel : nat) %s{struct fuel} : pyval :=\n  match fuel with O => VErr | S fuel =>\n  %s\n  end' % (
                        m['hdr'], m['name'], ''.join('(%s : pyval) ' % p for p in m['params']), body))
                    wrappers.append('Definition %s %s: pyval :=\n  %s_F (%d * S (%s)) %s.' % (
                        m['name'], ''.join('(%s : pyval) ' % p for p in m['params']), m['name'], len(group),
                        ' + '.join('py_depth %s' % p for p in m['params']) or '0', ' '.join(m['params'])))
                txt = '(* recursive group *)\nFixpoint ' + '\nwith '.join(parts) + '.\n' + '\n'.join(wrappers)
            for m in group:
                for x in deps[m]:
                    if x not in emitted and x not in group:
                        raise Unsupported('internal: %s refers to %s, which is not defined before it' % (m, x))
            emitted |= set(group)
            chunks.append(txt)
        return ('(* GENERATED by harness/py2coq.py from the Python source on every check -- do not edit.\n   %s *)\n'
                'From Coq Require Import ZArith List Bool String.\nFrom Exactly Require Import Lib.PyVal.\n'
                'Import ListNotations.\nLocal Open Scope Z_scope.\nLocal Open Scope string_scope.\n\n' % title
                + '\n\n'.join(chunks) + '\n')


class Fn:
    """translation of one function body (or one constant expression)"""

    def __init__(self, tr, mod, env, outs=()):
        self.tr, self.mod, self.env, self.outs = tr, mod, env, list(outs)
        self.n, self.returns, self.locked, self.self_tuple = 0, [], set(), None
        self.locals = set()  # every name the function binds somewhere: never resolved at module level

    def scope(self):
        return set(self.env) | self.locals

    def fresh_var(self):
        self.n += 1
        return 'v%d' % self.n

    def bad(self, node, why):
        raise Unsupported('%s:%d: %s' % (self.mod.path[self.mod.path.index(SRC_ROOT):], getattr(node, 'lineno', 0), why))

    # ---------------------------------------------------------------- out parameters
    def mutation(self, s):
        """(list name, kind, argument expression) if the statement mutates a list held by a plain name"""
        if isinstance(s, ast.Expr) and isinstance(s.value, ast.Call) and isinstance(s.value.func, ast.Attribute) \
                and isinstance(s.value.func.value, ast.Name) and not s.value.keywords:
            c, x = s.value, s.value.func.value.id
            if c.func.attr == 'append' and len(c.args) == 1:
                return x, 'py_append', c.args[0]
            if c.func.attr == 'insert' and len(c.args) == 2 and isinstance(c.args[0], ast.Constant) and c.args[0].value == 0 \
                    and type(c.args[0].value) is int:
                return x, 'py_insert0', c.args[1]
        if isinstance(s, ast.Delete) and len(s.targets) == 1 and isinstance(s.targets[0], ast.Subscript) \
                and isinstance(s.targets[0].value, ast.Name) and isinstance(s.targets[0].slice, ast.Constant) \
                and s.targets[0].slice.value == 0 and type(s.targets[0].slice.value) is int:
            return s.targets[0].value.id, 'py_del0', None
        return None

    def out_call(self, s):
        """(target name or None, Call, callee coq name, out positions) if the statement is  [x =] f(...)  with f having out parameters"""
        call = s.value if isinstance(s, (ast.Expr, ast.Assign)) and isinstance(s.value, ast.Call) else None
        if call is None:
            return None
        r = self.tr.static(self.mod, call.func, self.scope())
        if not r or r[0] != 'func' or r[1].dotted in self.tr.opaque:
            return None
        name = self.tr.function(r[1], r[2])
        if not self.tr.summary[name]['outs']:
            return None
        tgt = None
        if isinstance(s, ast.Assign):
            if len(s.targets) != 1 or not isinstance(s.targets[0], ast.Name):
                self.bad(s, 'call of a function with out parameters: target must be one name')
            tgt = s.targets[0].id
        return tgt, call, name, self.tr.summary[name]['outs']

    def out_params(self, fn, params):
        outs = set()
        for s in ast.walk(fn):
            m = self.mutation(s) if isinstance(s, ast.stmt) else None
            if m and m[0] in params:
                outs.add(params.index(m[0]))
            oc = self.out_call(s) if isinstance(s, ast.stmt) else None
            if oc:
                for i in oc[3]:
                    if i < len(oc[1].args) and isinstance(oc[1].args[i], ast.Name) and oc[1].args[i].id in params:
                        outs.add(params.index(oc[1].args[i].id))
        for i in outs:
            if any(isinstance(t, ast.Name) and isinstance(t.ctx, ast.Store) and t.id == params[i] for t in ast.walk(fn)):
                raise Unsupported('%s: parameter %s is both mutated and rebound' % (fn.name, params[i]))
        return sorted(outs)

    # ---------------------------------------------------------------- statements
    def state(self, env, names, node=None):
        for n in names:
            if n not in env:
                self.bad(node, 'variable %s may be unbound (or was moved from) where it is needed' % n)
        return 'VTuple [%s]' % '; '.join(env[n].coq for n in names)

    def block(self, stmts, env, live, ind):
        """(Coq term, falls_through).  The term evaluates to VRet v | VErr | VTuple [values of `live`]."""
        self.env = env
        pad = ' ' * ind
        if not stmts:
            return pad + self.state(env, live), True
        s, rest = stmts[0], stmts[1:]

        def cont(ind2=ind):
            return self.block(rest, env, live, ind2)

        def bind(name, term, owned):
            v = self.fresh_var()
            env[name] = Var(v, owned)
            r, ft = cont()
            return '%spy_let %s (fun %s =>\n%s)' % (pad, term, v, r), ft

        if isinstance(s, ast.Pass) or (isinstance(s, ast.Expr) and isinstance(s.value, ast.Constant) and isinstance(s.value.value, str)):
            return cont()
        if isinstance(s, ast.Return):
            if s.value is None:
                e, fresh = 'VNone', True
            else:
                fresh = self.is_fresh(s.value, env, ret=True)
                e = self.expr(s.value)
            self.returns.append(fresh)
            for o in self.outs:
                if o not in env or not env[o].owned:
                    self.bad(s, 'out parameter %s was captured or moved' % o)
            if self.outs:
                return '%spy_let %s (fun r => VRet (VTuple [r; %s]))' % (pad, e, '; '.join(env[o].coq for o in self.outs)), False
            return '%spy_ret %s' % (pad, e), False
        if isinstance(s, ast.Raise):
            return pad + 'VErr', False
        m = self.mutation(s)
        if m:
            x, op, arg = m
            if x not in env or not env[x].owned or x in self.locked:
                self.bad(s, 'mutation of %s, which is not a list uniquely owned by this function here' % x)
            return bind(x, '(%s %s%s)' % (op, env[x].coq, ' ' + self.expr(arg) if arg is not None else ''), True)
        oc = self.out_call(s)
        if oc:
            tgt, call, name, outs = oc
            if call.keywords or len(call.args) != self.tr.summary[name]['n']:
                self.bad(s, 'call arity / keywords')
            for i in outs:
                a = call.args[i]
                if not isinstance(a, ast.Name) or a.id not in env or not env[a.id].owned or a.id in self.locked \
                        or sum(1 for x in ast.walk(call) if isinstance(x, ast.Name) and x.id == a.id) != 1:
                    self.bad(s, 'argument for an out parameter must be a list uniquely owned here, mentioned once')
            args = [env[a.id].coq if i in outs else self.expr(a) for i, a in enumerate(call.args)]
            vs = [self.fresh_var() for _ in range(len(outs) + 1)]
            for i, v in zip(outs, vs[1:]):
                env[call.args[i].id] = Var(v, True)
            if tgt:
                env[tgt] = Var(vs[0], False)
            r, ft = cont()
            return '%spy_let (%s %s) (fun t => match t with VTuple [%s] =>\n%s\n%s| _ => VErr end)' % (
                pad, name, ' '.join(args), '; '.join(vs), r, pad), ft
        if isinstance(s, (ast.Assign, ast.AnnAssign)):
            tgts = s.targets if isinstance(s, ast.Assign) else [s.target]
            if len(tgts) != 1 or s.value is None:
                self.bad(s, 'assignment form')
            t = tgts[0]
            if isinstance(t, ast.Name):
                if isinstance(s.value, ast.Name) and s.value.id in env and env[s.value.id].owned:  # move
                    if s.value.id in self.outs or s.value.id in self.locked:
                        self.bad(s, 'out parameter / iterated list moved')
                    v = env.pop(s.value.id)
                    return bind(t.id, v.coq, True)
                fresh = self.is_fresh(s.value, env)
                return bind(t.id, self.expr(s.value), fresh)
            if isinstance(t, ast.Tuple) and all(isinstance(x, ast.Name) for x in t.elts):
                e = self.expr(s.value)
                vs = [self.fresh_var() for _ in t.elts]
                for x, v in zip(t.elts, vs):
                    env[x.id] = Var(v)
                r, ft = cont()
                return '%spy_let %s (fun t => match seq_items t with Some [%s] =>\n%s\n%s| _ => VErr end)' % (pad, e, '; '.join(vs), r, pad), ft
            self.bad(s, 'assignment target')
        if isinstance(s, ast.AugAssign):
            op = {ast.Add: 'Z.add', ast.Sub: 'Z.sub', ast.Mult: 'Z.mul'}.get(type(s.op))
            if not isinstance(s.target, ast.Name) or op is None or s.target.id not in env:
                self.bad(s, 'augmented assignment form')
            return bind(s.target.id, '(py_int2 %s %s %s)' % (op, env[s.target.id].coq, self.expr(s.value)), False)
        if isinstance(s, ast.If):
            c = self.cond(s.test)
            if not rest:
                ea, eb = self.copy(env), self.copy(env)
                a, fa = self.block(s.body, ea, live, ind + 2)
                b, fb = self.block(s.orelse, eb, live, ind + 2)
                return self.ite(pad, c, a, b), fa or fb
            later = reads(rest) | set(live)
            join = [n for n in assigned(s.body + s.orelse, env) if n in later]
            ea, eb = self.copy(env), self.copy(env)
            a, fa = self.block(s.body, ea, join, ind + 4)
            b, fb = self.block(s.orelse, eb, join, ind + 4)
            if not (fa or fb):
                return self.ite(pad, c, a, b), False
            alive = [e for e, f in ((ea, fa), (eb, fb)) if f]
            for n in list(env):
                if not all(n in e for e in alive):
                    del env[n]  # moved from in a branch
                else:
                    env[n].owned = all(e[n].owned for e in alive)
            vs = []
            for n in join:
                vs.append(self.fresh_var())
                env[n] = Var(vs[-1], all(e[n].owned for e in alive))
            r, ft = cont(ind + 2)
            return '%spy_seq (\n%s)\n%s(fun st => match st with VTuple [%s] =>\n%s\n%s| _ => VErr end)' % (
                pad, self.ite(pad + '  ', c, a, b), pad, '; '.join(vs), r, pad), ft
        if isinstance(s, ast.For):
            if s.orelse or not isinstance(s.target, ast.Name):
                self.bad(s, 'for: only `for name in ...` without else')
            it = self.expr(s.iter, cap=False, lazy=True)
            st = [n for n in assigned(s.body, env) if n in env and n != s.target.id]
            if s.target.id in env:
                del env[s.target.id]
            for attempt in (0, 1):
                eb = self.copy(env)
                n0 = self.n
                x = self.fresh_var()
                eb[s.target.id] = Var(x)
                vs = [self.fresh_var() for _ in st]
                for n, v in zip(st, vs):
                    eb[n] = Var(v, env[n].owned)
                locked, self.locked = self.locked, self.locked | {t.id for t in ast.walk(s.iter) if isinstance(t, ast.Name)}
                for t in ast.walk(ast.Module(body=s.body, type_ignores=[])):
                    if isinstance(t, (ast.Break, ast.Continue)):
                        self.bad(t, 'break/continue')
                body, _ = self.block(s.body, eb, st, ind + 6)
                self.locked = locked
                changed = False
                for n in env:
                    if n not in eb:
                        self.bad(s, 'variable %s is moved from inside the loop' % n)
                    if env[n].owned and not eb[n].owned:
                        env[n].owned, changed = False, True
                if not changed:
                    break
                self.n = n0
            init = self.state(env, st, s)
            vs2 = []
            for n in st:
                vs2.append(self.fresh_var())
                env[n] = Var(vs2[-1], env[n].owned)
            self.env = env
            r, ft = cont(ind + 2)
            return ('%spy_seq (py_for %s\n%s    (fun %s st => match st with VTuple [%s] =>\n%s\n%s      | _ => VErr end)\n%s    (%s))\n'
                    '%s(fun st => match st with VTuple [%s] =>\n%s\n%s| _ => VErr end)') % (
                pad, it, pad, x, '; '.join(vs), body, pad, pad, init, pad, '; '.join(vs2), r, pad), ft
        self.bad(s, 'statement outside the subset: %s' % type(s).__name__)

    def copy(self, env):
        return {k: Var(v.coq, v.owned) for k, v in env.items()}

    def ite(self, pad, c, a, b):
        return '%smatch %s with\n%s| Some true =>\n%s\n%s| Some false =>\n%s\n%s| None => VErr end' % (pad, c, pad, a, pad, b, pad)

    def is_fresh(self, e, env, ret=False):
        """the value is a list nobody else refers to (for a returned value also: an immutable constant)"""
        if isinstance(e, (ast.List, ast.ListComp)) or (ret and isinstance(e, ast.Constant)):
            return True
        if isinstance(e, ast.Name):
            return e.id in env and env[e.id].owned
        if isinstance(e, ast.IfExp):
            return self.is_fresh(e.body, env, ret) and self.is_fresh(e.orelse, env, ret)
        if isinstance(e, ast.Call) and isinstance(e.func, ast.Name) and e.func.id in ('sorted', 'list') and e.func.id not in self.scope() \
                and self.tr.resolve(self.mod, e.func.id) is None:
            return True
        if isinstance(e, ast.Call):
            r = self.tr.static(self.mod, e.func, self.scope())
            if r and r[0] == 'func' and r[1].dotted not in self.tr.opaque:
                return self.tr.summary[self.tr.function(r[1], r[2])]['fresh']
        return False

    # ---------------------------------------------------------------- expressions
    def cond(self, e):
        """a test: only the truth value is used, nothing is captured"""
        return 'py_truthy %s' % self.expr(e, cap=False)

    def expr(self, e, cap=True, lazy=False):
        env = self.env
        X = lambda x, **kw: self.expr(x, **kw)
        if isinstance(e, ast.Constant):
            v = e.value
            if v is None:
                return 'VNone'
            if isinstance(v, bool):
                return '(VBool %s)' % ('true' if v else 'false')
            if isinstance(v, int):
                return '(VInt (%d))' % v
            if isinstance(v, str):
                return '(VStr %s)' % cstr(v)
            self.bad(e, 'constant %r' % (v,))
        if isinstance(e, ast.Name):
            if e.id in env:
                if cap and env[e.id].owned:
                    env[e.id].owned = False  # captured: no longer uniquely owned
                return env[e.id].coq
            if e.id in self.locals:
                self.bad(e, 'local variable %s read where it may be unbound (or was moved from)' % e.id)
            return self.static_value(e, self.tr.resolve(self.mod, e.id))
        if isinstance(e, ast.BinOp):
            op = {ast.Add: 'py_add', ast.Sub: 'py_sub', ast.Mult: 'py_mul'}.get(type(e.op))
            if op is None:
                self.bad(e, 'operator %s' % type(e.op).__name__)
            return '(%s %s %s)' % (op, X(e.left), X(e.right))
        if isinstance(e, ast.UnaryOp):
            if isinstance(e.op, ast.Not):
                return '(py_not %s)' % X(e.operand, cap=False)
            if isinstance(e.op, ast.USub):
                return '(py_neg %s)' % X(e.operand)
            self.bad(e, 'unary operator')
        if isinstance(e, ast.BoolOp):
            op = 'py_and' if isinstance(e.op, ast.And) else 'py_or'
            t = X(e.values[-1], cap=cap)
            for v in reversed(e.values[:-1]):
                t = '(%s %s (fun _ => %s))' % (op, X(v, cap=cap), t)
            return t
        if isinstance(e, ast.Compare):
            if len(e.ops) != 1:
                self.bad(e, 'chained comparison')
            op, l, r = e.ops[0], e.left, e.comparators[0]
            if isinstance(op, (ast.Is, ast.IsNot)):
                neg = isinstance(op, ast.IsNot)
                if isinstance(r, ast.Constant) and r.value is None:
                    return '(%s %s)' % ('py_is_not_none' if neg else 'py_is_none', X(l, cap=False))
                if isinstance(r, ast.Constant) and isinstance(r.value, bool):
                    t = '(py_is_bool %s %s)' % ('true' if r.value else 'false', X(l, cap=False))
                    return '(py_not %s)' % t if neg else t
                rs = self.tr.static(self.mod, r.value, self.scope()) if isinstance(r, ast.Attribute) else None
                if rs and rs[0] == 'class' and self.tr.is_enum(rs[1], rs[2]):
                    return '(%s %s %s)' % ('py_is_not' if neg else 'py_is', X(l, cap=False), X(r))
                self.bad(e, '`is` with something else than None, True, False or an enum member')
            f = {ast.Lt: 'py_lt', ast.LtE: 'py_le', ast.Gt: 'py_gt', ast.GtE: 'py_ge', ast.Eq: 'py_eq', ast.NotEq: 'py_ne',
                 ast.In: 'py_in', ast.NotIn: 'py_not_in'}.get(type(op))
            if f is None:
                self.bad(e, 'comparison operator')
            return '(%s %s %s)' % (f, X(l, cap=False), X(r, cap=False))
        if isinstance(e, ast.IfExp):
            return '(match %s with Some true => %s | Some false => %s | None => VErr end)' % (self.cond(e.test), X(e.body, cap=cap), X(e.orelse, cap=cap))
        if isinstance(e, (ast.Tuple, ast.List, ast.Set)):
            if any(isinstance(x, ast.Starred) for x in e.elts):
                self.bad(e, 'starred')
            return '(%s [%s])' % ({ast.Tuple: 'py_tuple', ast.List: 'py_list', ast.Set: 'py_set'}[type(e)], '; '.join(X(x) for x in e.elts))
        if isinstance(e, ast.Dict):
            if any(k is None for k in e.keys):
                self.bad(e, '** in dict display')
            return '(py_dict [%s])' % '; '.join('(%s, %s)' % (X(k), X(v)) for k, v in zip(e.keys, e.values))
        if isinstance(e, ast.Subscript):
            if isinstance(e.slice, ast.Slice):
                lo = e.slice.lower
                if e.slice.upper is None and e.slice.step is None and isinstance(lo, ast.Constant) and type(lo.value) is int and lo.value >= 0:
                    return '(py_slice_from %s %d)' % (X(e.value, cap=False), lo.value)
                up = e.slice.upper
                if lo is None and e.slice.step is None and isinstance(up, ast.Constant) and type(up.value) is int and up.value >= 0:
                    return '(py_slice_to %s %d)' % (X(e.value, cap=False), up.value)
                self.bad(e, 'slice other than [k:] / [:k] with a literal k >= 0')
            if isinstance(e.slice, ast.Constant) and type(e.slice.value) is int and e.slice.value >= 0:
                if self.self_tuple and isinstance(e.value, ast.Name) and e.value.id == self.self_tuple[0] \
                        and env.get(e.value.id) and env[e.value.id].coq == 'a0':  # self[i] in a method of a tuple subclass
                    return '(py_field a0 %s %d)' % (self.self_tuple[1], e.slice.value)
                return '(py_item %s %d)' % (X(e.value, cap=False), e.slice.value)
            return '(py_index %s %s)' % (X(e.value, cap=False), X(e.slice))
        if isinstance(e, ast.Attribute):
            r = self.tr.static(self.mod, e, self.scope())
            if r:
                return self.static_value(e, r)
            r = self.tr.static(self.mod, e.value, self.scope())
            if r and r[0] == 'class':
                if self.tr.is_enum(r[1], r[2]):
                    return self.tr.enum_term(r[1], r[2], e.attr)
                self.bad(e, 'class attribute')
            if r and r[0] != 'const':
                self.bad(e, 'attribute of %s' % (r[0],))
            return '(%s %s)' % (self.tr.dispatcher(e.attr), X(e.value, cap=False))
        if isinstance(e, ast.Call):
            return self.call(e, cap, lazy)
        self.bad(e, 'expression outside the subset: %s' % type(e).__name__)

    def static_value(self, e, r):
        if r is None:
            self.bad(e, 'unknown name')
        if r[0] == 'const':
            return self.tr.constant(r[1], [k for k, v in r[1].binds.items() if v == [r[2]]][0], r[2])
        self.bad(e, 'a %s used as a value' % r[0])

    def call(self, e, cap, lazy):
        env, X = self.env, self.expr
        if e.keywords or any(isinstance(a, ast.Starred) for a in e.args):
            self.bad(e, 'keyword / starred arguments')
        f, n = e.func, len(e.args)
        if isinstance(f, ast.Name) and f.id in BUILTINS and f.id not in self.scope() and self.tr.resolve(self.mod, f.id) is None:
            b = f.id
            if b in LAZY and not lazy:
                self.bad(e, '%s(...) (an iterator) where it is not consumed at once' % b)
            if b in ('len', 'sorted', 'reversed', 'list', 'tuple', 'abs', 'set', 'frozenset') and n == 1:
                return '(%s %s)' % ({'len': 'py_len', 'sorted': 'py_sorted', 'reversed': 'py_reversed', 'list': 'py_list_of',
                                     'tuple': 'py_tuple_of', 'abs': 'py_abs', 'set': 'py_set_of', 'frozenset': 'py_set_of'}[b], X(e.args[0], cap=False, lazy=b in ('sorted', 'list', 'tuple')))
            if b in ('min', 'max') and n == 1:
                return '(py_%s1 %s)' % (b, X(e.args[0], cap=False, lazy=True))
            if b in ('min', 'max') and n == 2:
                return '(py_%s2 %s %s)' % (b, X(e.args[0]), X(e.args[1]))
            if b in ('filter', 'map') and n == 2:
                r = self.tr.static(self.mod, e.args[0], self.scope())
                if not r or r[0] != 'func':
                    self.bad(e, '%s with something else than a module-level function' % b)
                name = self.tr.function(r[1], r[2])
                if self.tr.summary[name]['outs'] or self.tr.summary[name]['n'] != 1:
                    self.bad(e, '%s: function shape' % b)
                return '(py_%s %s %s)' % (b, name, X(e.args[1], cap=False, lazy=True))
            self.bad(e, 'builtin %s with %d arguments' % (b, n))
        if isinstance(f, ast.Name) and f.id == 'isinstance' and f.id not in self.scope() and self.tr.resolve(self.mod, f.id) is None and n == 2:
            rc = self.tr.static(self.mod, e.args[1], self.scope())
            if not rc or rc[0] != 'class' or self.tr.is_enum(rc[1], rc[2]):
                self.bad(e, 'isinstance with something else than a user-defined class')
            yes, no = [], []
            for m in self.tr.world:  # closed world: exact for the classes of the world modules, VErr for any other object
                for c in m.tree.body:
                    if isinstance(c, ast.ClassDef):
                        try:
                            sub = any(x is rc[2] for _, x in self.tr.mro(m, c))
                        except Unsupported:
                            continue
                        (yes if sub else no).append(self.tr.tag(m, c))
            return '(py_isinstance %s [%s] [%s])' % (X(e.args[0], cap=False), '; '.join(yes), '; '.join(no))
        r = self.tr.static(self.mod, f, self.scope())
        if r and r[0] in ('func', 'class') and r[1].dotted in self.tr.opaque:
            # the call itself as a value: VObj "call:<module>.<name>" [arguments] (what the callee does is not translated)
            return '(py_obj %s [%s])' % (cstr('call:%s.%s' % (r[1].short, r[2].name)), '; '.join(X(a) for a in e.args))
        if r and r[0] == 'func':
            name = self.tr.function(r[1], r[2])
            if self.tr.summary[name]['outs']:
                self.bad(e, 'a function with out parameters may only be called as a statement `[x =] f(...)`')
            if self.tr.summary[name]['n'] != n:
                self.bad(e, 'arity')
            return '(%s%s)' % (name, ''.join(' ' + X(a) for a in e.args))
        if r and r[0] == 'class':
            if self.tr.is_enum(r[1], r[2]):
                if n != 1:
                    self.bad(e, 'enum lookup arity')
                return '(py_enum_of_value %s %s)' % (self.tr.enum_table(r[1], r[2]), X(e.args[0]))
            name, arity = self.tr.ctor(r[1], r[2])
            if arity != n:
                self.bad(e, 'constructor arity')
            return '(%s%s)' % (name, ''.join(' ' + X(a) for a in e.args))
        if r:
            self.bad(e, 'call of %s' % (r[0],))
        if isinstance(f, ast.Attribute):
            rc = self.tr.static(self.mod, f.value, self.scope())
            if rc and rc[0] == 'class':
                m = self.tr.member(rc[1], rc[2], f.attr)
                if not m or m[0] != 'static':
                    self.bad(e, 'Class.%s is not a static method' % f.attr)
                name = self.tr.function(m[1], m[3], m[2])
                if self.tr.summary[name]['outs'] or self.tr.summary[name]['n'] != n:
                    self.bad(e, 'static method shape')
                return '(%s%s)' % (name, ''.join(' ' + X(a) for a in e.args))
            if rc:
                self.bad(e, 'call through %s' % (rc[0],))
            if f.attr == 'values' and n == 0:
                return '(py_dict_values %s)' % X(f.value, cap=False)
            return '(%s %s%s)' % (self.tr.dispatcher(f.attr, n), X(f.value), ''.join(' ' + X(a) for a in e.args))
        self.bad(e, 'call form')


# ------------------------------------------------------------------------------------------------------------
# targets
# ------------------------------------------------------------------------------------------------------------
_LN = 'exactly_lib.impls.types.string_transformer.impl.filter.line_nums.'
_IV = 'exactly_lib.util.interval.'
_EN = 'exactly_lib.impls.instructions.multi_phase.environ.'
_IP = 'exactly_lib.impls.instructions.multi_phase.utils.'
_TR = 'exactly_lib.test_case.result.'
_PS = 'exactly_lib.type_val_deps.types.program.sdv.'
TARGETS = {
    'LineNums': dict(prop='C13 C05', world=[_LN + 'range_expr', _LN + 'range_merge', _LN + 'transformers'], opaque=[_LN + 'sources'], roots=[
        (_LN + 'range_merge', q) for q in ('_is_valid_segment', '_can_be_one', '_merge_segments', '_merge_head_to',
                                           '_merge_tail_from', 'Partitioning', 'MergedRanges', 'MergedRanges.empty',
                                           'MergedRanges.everything', 'MergedRanges.is_everything', 'merge',
                                           '_NegValuesTranslator', '_NegValuesTranslator._tr', 'translate_neg_to_non_neg')] + [
        (_LN + 'transformers', '_SingleRangeSourceConstructor'), (_LN + 'transformers', 'MultipleLineRangesTransformer'),
        (_LN + 'transformers', 'MultipleLineRangesTransformer._model_for_non_negatives')]),
    'Interval': dict(prop='C13 C06', world=[_IV + 'int_interval', _IV + 'w_inversion.interval', _IV + 'w_inversion.intervals'], roots=[
        (_IV + 'int_interval', q) for q in ('Empty', 'NonEmpty', 'unlimited', 'lower_limit', 'upper_limit', 'finite', 'point')] + [
        (_IV + 'w_inversion.intervals', q) for q in ('Empty', 'UpperLimit', 'LowerLimit', 'Finite', 'Unlimited', 'WithCustomInversion',
                                                      'point', 'unlimited_with_unlimited_inversion', 'unlimited_with_finite_inversion')] + [
        (_IV + 'w_inversion.combinations', q) for q in ('_not_nones', '_of', 'union', 'intersection')] + [
        (_IV + 'w_inversion.intervals', '.inversion')]),
    'Outcome': dict(prop='C02', world=['exactly_lib.common.exit_value'], roots=[
        ('exactly_lib.test_case.test_case_status', 'TestCaseStatus'), ('exactly_lib.execution.result', 'ExecutionFailureStatus'),
        ('exactly_lib.execution.full_execution.result', 'FullExeResultStatus'),
        ('exactly_lib.execution.full_execution.result', 'translate_status'),
        ('exactly_lib.processing.test_case_processing', 'AccessErrorType'),
        ('exactly_lib.common.exit_value', 'ExitValue'), ('exactly_lib.common.exit_value', '.exit_code'),
        ('exactly_lib.common.exit_value', '.exit_identifier')] + [
        ('exactly_lib.processing.exit_values', q) for q in ('NO_EXECUTION_EXIT_CODE', 'from_access_error', '_for_full_result',
                                                          '_FOR_FULL_RESULT', 'from_full_result', 'EXECUTION__INTERNAL_ERROR')]),
    'Reporters': dict(prop='C16', world=['exactly_lib.common.exit_value'], roots=[
        ('exactly_lib.test_suite.exit_values', 'ALL_PASS'), ('exactly_lib.test_suite.exit_values', 'INVALID_SUITE'),
        ('exactly_lib.test_suite.exit_values', 'FAILED_TESTS'), ('exactly_lib.common.exit_value', '.exit_code'),
        ('exactly_lib.common.exit_value', '.exit_identifier'),
        ('exactly_lib.execution.full_execution.result', 'FullExeResultStatus'),
        ('exactly_lib.test_suite.reporters.simple_progress_reporter', 'SUCCESS_STATUSES'),
        ('exactly_lib.test_suite.reporters.junit', 'FAIL_STATUSES'), ('exactly_lib.test_suite.reporters.junit', 'ERROR_STATUSES')]),
    'ProgVerdict': dict(prop='C10', world=[_IP + 'instruction_from_parts_for_executing_program', _IP + 'instruction_part_utils',
                                          _TR + 'sh', _TR + 'pfh'],
                        opaque=['exactly_lib.impls.types.program.top_lvl_error_msg_rendering'], roots=[
        (_IP + 'instruction_from_parts_for_executing_program', q) for q in ('ExecutionResultAndStderr', 'result_to_sh', 'result_to_pfh',
                                                                            'ResultTranslator.translate_for_non_assertion',
                                                                            'ResultTranslator.translate_for_assertion')] + [
        (_IP + 'instruction_part_utils', 'MainStepResultTranslatorForUnconditionalSuccess.translate_for_non_assertion'),
        (_IP + 'instruction_part_utils', 'MainStepResultTranslatorForUnconditionalSuccess.translate_for_assertion'),
        (_TR + 'sh', '.is_success'), (_TR + 'sh', '.is_hard_error'), (_TR + 'pfh', '.status'), (_TR + 'pfh', '.is_error'),
        (_TR + 'pfh', 'PassOrFailOrHardErrorEnum')]),
    'Accumulate': dict(prop='C10', world=[_PS + 'accumulated_components', _PS + 'arguments'],
                       opaque=['exactly_lib.type_val_deps.types.list_.list_sdvs'], roots=[
        (_PS + 'accumulated_components', q) for q in ('AccumulatedComponents', 'AccumulatedComponents.empty', 'AccumulatedComponents.of_arguments',
                                                      'AccumulatedComponents.of_stdin', 'AccumulatedComponents.of_transformations',
                                                      'AccumulatedComponents.of_transformation', 'AccumulatedComponents.new_accumulated')]),
    'Relativity': dict(prop='C12', world=['exactly_lib.tcfs.path_relativity', 'exactly_lib.type_val_deps.types.path.rel_opts_configuration'], roots=[
        ('exactly_lib.tcfs.path_relativity', q) for q in ('RelOptionType', 'SpecificPathRelativity', 'SPECIFIC_ABSOLUTE_RELATIVITY',
                                                          'specific_relative_relativity', 'PathRelativityVariants',
                                                          'PathRelativityVariants.of_frozen_set')] + [
        ('exactly_lib.tcfs.relativity_validation', 'is_satisfied_by'),
        ('exactly_lib.type_val_deps.types.path.rel_opts_configuration', 'RELATIVITY_VARIANTS_FOR_FILE_CREATION'),
        ('exactly_lib.type_val_deps.types.path.rel_opts_configuration', 'REL_OPTIONS_FOR_FILE_CREATION'),
        ('exactly_lib.type_val_deps.types.path.rel_opts_configuration', '.accepted_relativity_variants'),
        ('exactly_lib.type_val_deps.types.path.rel_opts_configuration', '.default_option')] + [('exactly_lib.tcfs.sds', q) for q in ('SUB_DIRECTORY__ACT', 'SUB_DIRECTORY__TMP_USER', 'SUB_DIRECTORY__RESULT')]),
    'ExecSteps': dict(prop='C01', world=[_TR + 'svh', _TR + 'sh', _TR + 'pfh', 'exactly_lib.execution.impl.single_instruction_executor'], roots=[
        ('exactly_lib.execution.impl.phase_step_executors', q) for q in ('_from_success_or_validation_error_or_hard_error',
                                                                        '_from_success_or_hard_error', '_from_pass_or_fail_or_hard_error')] + [
        (_TR + 'svh', q) for q in ('new_svh_success', 'new_svh_validation_error', 'new_svh_hard_error')] + [
        (_TR + 'sh', q) for q in ('new_sh_success', 'new_sh_hard_error')] + [
        (_TR + 'pfh', q) for q in ('new_pfh_pass', 'new_pfh_fail', 'new_pfh_hard_error')] + [
        ('exactly_lib.execution.impl.single_instruction_executor', 'PartialControlledFailureEnum'),
        ('exactly_lib.execution.impl.single_instruction_executor', '.error_message')]),
    'SymbolSyntax': dict(prop='C09', world=[], roots=[('exactly_lib.symbol.symbol_syntax', 'SYMBOL_REFERENCE_BEGIN'),
                                                      ('exactly_lib.symbol.symbol_syntax', 'SYMBOL_REFERENCE_END')]),
    'FilesDepth': dict(prop='C15', world=['exactly_lib.impls.types.files_matcher.models'], roots=[
        ('exactly_lib.impls.types.files_matcher.models', q) for q in (
            '_FilesGeneratorForRecursive', '_FilesGeneratorForRecursive._is_within_min_depth_limit',
            '_FilesGeneratorForRecursive._is_within_max_depth_limit', '_FilesGeneratorForRecursive._is_at_max_depth_limit')]),
    'Settings': dict(prop='C11', world=[_EN + 'impl', 'exactly_lib.test_case.phases.instruction_settings',
                                        'exactly_lib.test_case.phases.setup.settings_builder'], roots=[
        ('exactly_lib.test_case.phases.instruction_settings', q) for q in (
            'InstructionSettings', 'InstructionSettings.timeout_in_seconds', 'InstructionSettings.set_timeout',
            'InstructionSettings.environ', 'InstructionSettings.set_environ', '.default_environ_getter')] + [
        ('exactly_lib.test_case.phases.setup.settings_builder', 'SetupSettingsBuilder'),
        ('exactly_lib.test_case.phases.setup.settings_builder', 'SetupSettingsBuilder.new_empty'),
        ('exactly_lib.test_case.phases.setup.settings_builder', '.environ'),
        (_EN + 'impl', 'Phase'), (_EN + 'impl', 'TheInstructionEmbryo'), (_EN + 'impl', 'TheInstructionEmbryo._resolve_applier'),
        (_EN + 'impl', 'TheInstructionEmbryo._resolve_applier_factory')] + [('exactly_lib.tcfs.sds', q) for q in ('SUB_DIRECTORY__ACT', 'SUB_DIRECTORY__TMP_USER', 'SUB_DIRECTORY__RESULT')]),
    'ActSource': dict(prop='C07', world=[], roots=[('exactly_lib.processing.parse.act_phase_source_parser', '_un_escape_at_beginning_of_line')]),
    'SuiteConf': dict(prop='C17', world=['exactly_lib.section_document.model',
                                         'exactly_lib.test_suite.instruction_set.sections.configuration.instruction_definition',
                                         'exactly_lib.test_suite.instruction_set.sections.configuration.preprocessor',
                                         'exactly_lib.test_case.phases.configuration',
                                         'exactly_lib.impls.instructions.configuration.actor',
                                         'exactly_lib.impls.instructions.configuration.test_case_status'], roots=[
        ('exactly_lib.section_document.model', 'ElementType'), ('exactly_lib.section_document.model', 'SectionContents'),
        ('exactly_lib.section_document.model', 'SectionContentElement'), ('exactly_lib.section_document.model', 'InstructionInfo'),
        ('exactly_lib.test_suite.file_reading.suite_file_reading', '_separate_configuration_elements')]),
    'Timeout': dict(prop='C19', world=[], roots=[('exactly_lib.definitions.os_proc_env', 'TIMEOUT__DEFAULT')]),
}


def translate(target, src=None):
    cfg = TARGETS[target]
    tr = Translator(src or os.path.join(common.REPO, 'src'), cfg['world'], cfg.get('opaque', ()))
    for (m, q) in cfg['roots']:
        tr.root(m, q)
    return tr


def gen(target, src=None, out_dir=None):
    tr = translate(target, src)
    path = os.path.join(out_dir or os.path.join(common.COQ, 'Gen'), 'Src_%s.v' % target)
    common.write_if_changed(path, tr.text('target %s; roots: %s' % (target, ', '.join(q for _, q in TARGETS[target]['roots']))))
    return path, tr


def gen_for(prop, src=None, out_dir=None):
    """regenerate the translated definitions of every target tied to property `prop` (fail-closed: raises)"""
    return [gen(t, src, out_dir)[0] for t in sorted(TARGETS) if prop in TARGETS[t]['prop'].split()]


def gen_all(src=None, out_dir=None):
    return [gen(t, src, out_dir)[0] for t in sorted(TARGETS)]


gen_src_tables = gen_all


def tie_status(prop):
    """For a harness that wants the source tie as ADVISORY evidence (res.extra) instead of an obligation of the check:
    regenerate, build Props/SrcTie_<prop>.v and its cone, return {'status': 'ok'|'refused'|'proof-broken', ...}."""
    try:
        files = gen_for(prop)
    except Unsupported as ex:
        return {'status': 'refused', 'detail': str(ex)}
    name = 'SrcTie_%s' % prop
    b = common.coq_build(targets=[f[:-2] + '.vo' for f in common.deps_of(name)])
    if not b.ok:
        return {'status': 'proof-broken', 'detail': [{'file': f, 'line': l, 'statement': n, 'message': m[:300]} for f, l, n, m in b.broken]}
    ok, assumptions, raw = common.print_assumptions(name)
    closed = ok and all(t.startswith('Closed under') for t in assumptions.values())
    return {'status': 'ok' if closed else 'proof-broken', 'generated': [os.path.relpath(f, common.VERIF) for f in files],
            'theorems': sorted(assumptions), 'detail': None if closed else raw[-500:]}

if __name__ == '__main__':
    import sys
    for p in (gen_all() if len(sys.argv) < 2 else [gen(t)[0] for t in sys.argv[1:]]):
        print(p)
