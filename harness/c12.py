"""C12 — paths resolve under their relativity root; home directories are write-protected.

(T) `gen_tables` tabulates, from the live configuration objects and through the real instruction parsers, the accepted
relativity set / absolute flag / default / suffix-required of every destination and source PATH argument, the option names,
and the root directory of every relativity (`REL_OPTIONS_MAP[..].root_resolver`, `REL_SDS_RESOLVERS`) -> coq/Gen/C12_tables.v.

(D) three kinds of generated cases:
  * parser level (`pcase`): definitions (`def string|path|list|line-matcher`, chains of path symbols of depth <= 3) are parsed
    by the real `def` instruction parser and validated by the real `symbol_validation`; the PATH argument is parsed by the
    real `PathParser` with the live configuration object of an argument of file / dir / copy / a reading instruction,
    validated, resolved, and evaluated against a TCDS under two different current directories;
  * instruction level (`icase`): the same argument inside a complete instruction line, parsed by the instruction parser of
    every phase that has the instruction, and validated;
  * program level (`ecase`): complete test cases through `MainProgram.execute` with snapshots of both home directories
    before and after, and of where the created file appeared.
Model side: Model/Paths.v through Spec/C12.v (`check_case`, `check_icase`, `check_ecase`), evaluated by vm_compute.
"""
import json
import os
import pathlib
import shutil
import sys
import tempfile

import common
from common import Failure, cN, cnat, cbool, clist, copt, ctext
import impl  # noqa: F401  (sets sys.path)

EXPLANATION = ('Theorems over the Gallina model of parse_path / parse_relativity / path_ddvs / path sdvs / reference restrictions / '
               'symbol_validation / relativity_root with pathlib join semantics (Props/C12.v); accepted-relativity tables and '
               'root resolvers regenerated from the running code; differential correspondence at parser, instruction and '
               'program level.')
ASSUMPTIONS = ['tokenisation (shlex) and the splitting of a token into symbol references are outside this model: arguments '
               'are generated as abstract syntax, rendered, and the rendering is checked with the real symbol_syntax.split',
               'pathlib.PurePosixPath (parse, str, /, is_absolute) is modelled and tested differentially on every case',
               'symbol names are unique per table (the real validation rejects a second definition; modelled)']
TRUSTED_EXTRA = ['harness/c12.py: generator, renderer of arguments, canonicaliser, independent known-finding predicate']

KF = 'KF-C12-1'

REL = ['RCwd', 'RHdsCase', 'RHdsAct', 'RAct', 'RTmp', 'RResult']
OPT_NAME = {'RCwd': 'rel-cd', 'RHdsCase': 'rel-home', 'RHdsAct': 'rel-act-home', 'RAct': 'rel-act', 'RTmp': 'rel-tmp',
            'RResult': 'rel-result'}
HERE = '/SRC/suite/dir'
HDS_CASE, HDS_ACT, SDS = '/H/case-home', '/H/act-home', '/S/sandbox'


def rel_of_enum(x):
    """RelOptionType -> constructor name; fail-closed on an unknown member"""
    m = {'REL_CWD': 'RCwd', 'REL_HDS_CASE': 'RHdsCase', 'REL_HDS_ACT': 'RHdsAct', 'REL_ACT': 'RAct', 'REL_TMP': 'RTmp',
         'REL_RESULT': 'RResult'}
    return m[x.name]


def conf_of(obj):
    """RelOptionArgumentConfiguration -> (sorted rels, abs, default, suffix_required)"""
    opts = obj.options
    var = opts.accepted_relativity_variants
    rels = sorted((rel_of_enum(x) for x in var.rel_option_types), key=REL.index)
    accepted_options = sorted((rel_of_enum(x) for x in opts.accepted_options), key=REL.index)
    assert rels == accepted_options
    assert isinstance(var.absolute, bool) and isinstance(obj.path_suffix_is_required, bool)
    return rels, var.absolute, rel_of_enum(opts.default_option), obj.path_suffix_is_required


def c_variants(rels, ab):
    return '(Variants %s %s)' % (clist(rels) if rels else '(@nil relopt)', cbool(ab))


def c_conf(cf, here=None):
    rels, ab, dflt, req = cf
    return '(Conf %s %s %s %s)' % (c_variants(rels, ab), dflt, cbool(req), copt(here, ctext))


def live_confs():
    """(label, creates, phase_is_after_act or None, configuration object)"""
    from exactly_lib.impls.instructions.multi_phase import new_file, new_dir, copy, change_dir
    from exactly_lib.impls.instructions.multi_phase.define_symbol import type_parser
    from exactly_lib.impls.instructions.assert_ import existence_of_file, contents_of_file
    from exactly_lib.impls.types.files_matcher import config as fm_config
    from exactly_lib.impls.types.string_source import defs as ss_defs
    return [
        ('file:destination', True, new_file.REL_OPT_ARG_CONF),
        ('dir:destination', True, new_dir.RELATIVITY_VARIANTS),
        ('copy:destination', True, copy.REL_OPTION_ARG_CONF_FOR_DESTINATION),
        ('copy:source:before-act', False, copy.src_rel_opt_arg_conf_for_phase(False)),
        ('copy:source:after-act', False, copy.src_rel_opt_arg_conf_for_phase(True)),
        ('contents-of:source:before-act', False, ss_defs.src_rel_opt_arg_conf_for_phase(False)),
        ('contents-of:source:after-act', False, ss_defs.src_rel_opt_arg_conf_for_phase(True)),
        ('contents:actual', False, contents_of_file.ACTUAL_RELATIVITY_CONFIGURATION),
        ('exists:path', False, existence_of_file._REL_OPTION_CONFIG),
        ('dir-contents:actual', False, fm_config.ACTUAL_RELATIVITY_CONFIGURATION),
        ('cd:before-act', False, change_dir.relativity_options(False)),
        ('cd:after-act', False, change_dir.relativity_options(True)),
        ('def:path', False, type_parser.REL_OPTION_ARGUMENT_CONFIGURATION),
    ]


# ---------------------------------------------------------------------------------------------
# abstract syntax of arguments and definitions
#   frag  = ('c', str) | ('s', name)
#   tok   = (quote in 'plain'|'soft'|'hard', [frag])        hard: [('c', whole)]
#   arg   = (rel, tok|None)   rel = ('none',) | ('opt', R) | ('sym', name) | ('here',) | ('unknown', text)
#   def   = (name, 'string', tok) | (name, 'path', arg) | (name, 'list') | (name, 'other')
# symbol names: a letter + number; the number is the model's identifier
# ---------------------------------------------------------------------------------------------
def sym_id(name):
    return int(name[1:]) * 8 + 'SPLMU'.index(name[0])


def render_frags(frags):
    return ''.join(v if k == 'c' else '@[%s]@' % v for k, v in frags)


def render_tok(tok):
    q, frags = tok
    s = render_frags(frags)
    if q == 'plain':
        assert s and not any(ch in s for ch in ' \t\'"#\n') and s[0] != '-', s
        return s
    if q == 'soft':
        assert '"' not in s
        return '"%s"' % s
    assert "'" not in s
    return "'%s'" % s


def render_arg(arg):
    rel, tok = arg
    parts = []
    if rel[0] == 'opt':
        parts.append('-' + OPT_NAME[rel[1]])
    elif rel[0] == 'sym':
        parts.append('-rel ' + rel[1])
    elif rel[0] == 'here':
        parts.append('-rel-here')
    elif rel[0] == 'unknown':
        parts.append(rel[1])
    if tok is not None:
        parts.append(render_tok(tok))
    return ' '.join(parts)


def check_rendering(tok):
    """tie of the abstract syntax to the real splitter"""
    from exactly_lib.symbol import symbol_syntax
    q, frags = tok
    if q == 'hard':
        assert len(frags) == 1 and frags[0][0] == 'c'
        return
    got = [('s' if f.is_symbol else 'c', f.value) for f in symbol_syntax.split(render_frags(frags))]
    assert got == list(frags), (got, frags)


def c_frag(f):
    return '(FConst %s)' % ctext(f[1]) if f[0] == 'c' else '(FSym %s)' % cN(sym_id(f[1]))


def c_frags(frags):
    return clist([c_frag(f) for f in frags]) if frags else '(@nil frag)'


def c_tok(tok):
    return '(StrTok %s %s)' % ({'plain': 'QPlain', 'soft': 'QSoft', 'hard': 'QHard'}[tok[0]], c_frags(tok[1]))


def c_arg(arg):
    rel, tok = arg
    r = {'none': 'RNone', 'here': 'RHere', 'unknown': 'RUnknownOpt'}.get(rel[0])
    if rel[0] == 'opt':
        r = '(ROpt %s)' % rel[1]
    elif rel[0] == 'sym':
        r = '(RSym %s)' % cN(sym_id(rel[1]))
    return '(PArg %s %s)' % (r, copt(tok, c_tok))


def c_def(d):
    if d[1] == 'string':
        return '(%s, SDString %s)' % (cN(sym_id(d[0])), c_frags(d[2][1]))
    if d[1] == 'path':
        return '(%s, SDPath %s)' % (cN(sym_id(d[0])), c_arg(d[2]))
    return '(%s, %s)' % (cN(sym_id(d[0])), 'SDList' if d[1] == 'list' else 'SDOther')


def render_def(d):
    if d[1] == 'string':
        return 'string %s = %s' % (d[0], render_tok(d[2]))
    if d[1] == 'path':
        return 'path %s = %s' % (d[0], render_arg(d[2]))
    if d[1] == 'list':
        return 'list %s = a b' % d[0]
    return 'line-matcher %s = constant true' % d[0]


def c_env(cwd):
    return '(Env (parse_pp %s) (parse_pp %s) (parse_pp %s) (parse_pp %s))' % (ctext(HDS_CASE), ctext(HDS_ACT), ctext(SDS),
                                                                             ctext(cwd))


# ---------------------------------------------------------------------------------------------
# generator
# ---------------------------------------------------------------------------------------------
COMPONENTS = ['a', 'b', 'sub', 'x.txt', 'd.e', '..', '.', '', 'a', 'f']
# generator mode: parser-level cases use symbolic absolute paths; program-level cases use absolute paths inside the scratch
# directory of the case (home, act-home, a third directory) and few ".."
_GEN = {'components': COMPONENTS, 'abs_prefixes': None}


def gen_const(rng, allow_abs=True, min_parts=0):
    n = rng.weighted([(0, 1), (1, 5), (2, 4), (3, 2)])
    n = max(n, min_parts)
    s = '/'.join(rng.choice(_GEN['components']) for _ in range(n))
    if allow_abs and _GEN['abs_prefixes'] != 'none' and rng.chance(0.10):
        if _GEN['abs_prefixes'] is not None:
            s = rng.choice(_GEN['abs_prefixes']) + '/' + s
        else:
            s = ('//' if rng.chance(0.15) else '///' if rng.chance(0.1) else '/') + s
    if s and rng.chance(0.06):
        s += '/'
    return s


def syms_of(defs, kind):
    return [d[0] for d in defs if d[1] == kind]


def odd_symbol(rng, defs, wrong_kind):
    """a reference that symbol validation must reject: undefined, a list / line-matcher symbol, or a symbol of the wrong kind"""
    pool = ['U99'] + syms_of(defs, 'list') + syms_of(defs, 'other') + syms_of(defs, wrong_kind)
    return rng.choice(pool)


def gen_tok(rng, defs, rel_kind):
    """the PATH-STRING token"""
    strings, paths = syms_of(defs, 'string'), syms_of(defs, 'path')
    shape = rng.weighted([('const', 10), ('lead', 9 if (paths or strings) else 1), ('mid', 4 if strings else 1), ('hardsym', 1)])
    if shape == 'const':
        s = gen_const(rng)
        frags = [('c', s)] if s else []
    elif shape == 'hardsym':
        return ('hard', [('c', '@[%s]@/x' % (rng.choice(paths + strings) if (paths or strings) else 'U99'))])
    elif shape == 'lead':
        pool = []
        if paths:
            pool += [(paths[-1], 7), (rng.choice(paths), 3)]
        if strings:
            pool += [(rng.choice(strings), 3), (strings[-1], 2)]
        name = rng.weighted(pool) if pool and not rng.chance(0.04) else odd_symbol(rng, defs, 'none')
        k = rng.below(20)
        if k < 6:
            frags = [('s', name)]
        elif k < 17:
            frags = [('s', name), ('c', '/' + gen_const(rng, allow_abs=False))]
        elif k < 19:
            frags = [('s', name), ('c', '//' + gen_const(rng, allow_abs=False, min_parts=1))]
        else:
            frags = [('s', name), ('c', rng.choice(['x', '.txt', 'b/c']))]
        if strings and rng.chance(0.15):
            frags += [('s', rng.choice(strings))]
    else:
        name = (strings[-1] if rng.chance(0.4) else rng.choice(strings)) if strings and not rng.chance(0.05) else odd_symbol(rng, defs, 'path')
        pre = gen_const(rng, min_parts=1) or 'a'
        frags = [('c', pre + rng.choice(['/', '', '-'])), ('s', name)]
        if rng.chance(0.5):
            frags += [('c', rng.choice(['/y', '.z', '/']))]
    s = render_frags(frags)
    plain_ok = bool(s) and s[0] != '-' and not any(ch in s for ch in ' \t\'"#\n')
    q = rng.weighted([('plain', 7 if plain_ok else 0), ('soft', 2), ('hard', 1)])
    if q == 'hard':
        frags = [('c', s)]
    return (q, frags)


def gen_arg(rng, defs, in_def):
    paths = syms_of(defs, 'path')
    if in_def:
        kind = rng.weighted([('none', 60), ('opt', 80), ('sym', 90 if paths else 2), ('here', 15), ('unknown', 2)])
    else:
        kind = rng.weighted([('none', 90), ('opt', 90), ('sym', 90 if paths else 4), ('here', 4), ('unknown', 5)])
    if kind == 'none':
        rel = ('none',)
    elif kind == 'opt':
        rel = ('opt', rng.choice(REL))
    elif kind == 'sym':
        if paths and not rng.chance(0.04):
            rel = ('sym', paths[-1] if rng.chance(0.7) else rng.choice(paths))
        else:
            rel = ('sym', odd_symbol(rng, defs, 'string'))
    elif kind == 'here':
        rel = ('here',)
    else:
        rel = ('unknown', rng.choice(['-rel-foo', '-rel-homex', '--rel-act', '-REL-ACT']))
    tok = None if rng.chance(0.015 if in_def else 0.04) else gen_tok(rng, defs, rel[0])
    return (rel, tok)


def ref_form(rng, n):
    """an argument built on path symbol n"""
    k = rng.below(3)
    if k == 0:
        c = gen_const(rng, allow_abs=False, min_parts=1)
        if not c or c[0] == '-' or c.startswith('/'):
            c = 'a'
        return (('sym', n), ('plain', [('c', c)]))
    if k == 1:
        return (('none',), ('plain', [('s', n), ('c', '/' + gen_const(rng, allow_abs=False))]))
    return (('none',), ('plain', [('s', n)]))


def path_symbol_of_arg(defs, arg):
    rel, tok = arg
    tbl = _table(defs)
    n = rel[1] if rel[0] == 'sym' else (tok[1][0][1] if (rel[0] == 'none' and tok is not None and tok[1] and tok[1][0][0] == 's') else None)
    return n if n is not None and tbl.get(n, (0, ''))[1] == 'path' else None


def gen_pair(rng, defs):
    """(source argument, destination argument) of one instruction; 60%: both go through the same path symbol"""
    paths = syms_of(defs, 'path')
    while True:
        src = gen_arg(rng, defs, False)
        if src[1] is not None:
            break
    mode = rng.below(100)
    if paths and mode < 30:
        n = paths[-1] if rng.chance(0.6) else rng.choice(paths)
        return ref_form(rng, n), ref_form(rng, n)
    n = path_symbol_of_arg(defs, src)
    if n is not None and mode < 75:
        return src, ref_form(rng, n)
    return src, gen_arg(rng, defs, False)


def gen_defs(rng):
    """a table of definitions, oldest first: string symbols, a chain of path symbols of depth <= 3, rarely others"""
    defs = []
    n_str = rng.weighted([(0, 3), (1, 4), (2, 3)])
    n_path = rng.weighted([(0, 2), (1, 3), (2, 4), (3, 5)])
    plan = ['string'] * n_str + ['path'] * n_path
    if rng.chance(0.12):
        plan.append('list')
    if rng.chance(0.08):
        plan.append('other')
    # strings mostly first, so that path definitions can use them; then shuffle lightly
    if rng.chance(0.3):
        rng.shuffle(plan)
    if rng.chance(0.3):
        # a string symbol that CONCATENATES several references (a path symbol, if any, never first), after the paths;
        # sometimes wrapped once more by a string with a single reference
        plan.append('concat')
        if rng.chance(0.4):
            plan.append('wrap')
    counter = 0
    for kind in plan:
        counter += 1
        if kind in ('concat', 'wrap'):
            name = 'S%d' % counter
            strings, paths = syms_of(defs, 'string'), syms_of(defs, 'path')
            if kind == 'wrap':
                frags = [('c', rng.choice(['a/', 'x', '']))] if rng.chance(0.5) else []
                frags = [f for f in frags if f[1]] + [('s', strings[-1] if strings else 'U99')]
            else:
                refs = [rng.choice(strings) if strings else 'U99']
                for _ in range(rng.randint(1, 2)):
                    refs.append(rng.choice(paths) if (paths and rng.chance(0.45)) else rng.choice(strings or paths or ['U99']))
                frags = []
                for k, r in enumerate(refs):
                    if k and rng.chance(0.3):
                        frags.append(('c', '/'))
                    frags.append(('s', r))
                if rng.chance(0.7):
                    frags.append(('c', rng.choice(['/new', '/', '.x'])))
            defs.append((name, 'string', ('plain' if rng.chance(0.7) else 'soft', frags)))
        elif kind == 'string':
            name = 'S%d' % counter
            strings, paths = syms_of(defs, 'string'), syms_of(defs, 'path')
            s = gen_const(rng)
            frags = [('c', s)] if s else []
            if strings and rng.chance(0.25):
                frags = frags + [('s', rng.choice(strings))] if rng.chance(0.5) else [('s', rng.choice(strings))] + (
                    [('c', '/' + s)] if s and not s.startswith('/') else [])
            elif paths and rng.chance(0.03):
                frags = [('s', rng.choice(paths))] + ([('c', '/' + s)] if s and not s.startswith('/') else [])
            txt = render_frags(frags)
            plain_ok = bool(txt) and txt[0] != '-' and not any(ch in txt for ch in ' \t\'"#\n')
            defs.append((name, 'string', ('plain' if plain_ok and rng.chance(0.7) else 'soft', frags)))
        elif kind == 'path':
            defs.append(('P%d' % counter, 'path', gen_arg(rng, defs, True)))
        elif kind == 'list':
            defs.append(('L%d' % counter, 'list'))
        else:
            defs.append(('M%d' % counter, 'other'))
    if defs and rng.chance(0.02):
        defs.append((defs[0][0],) + tuple(defs[-1][1:]))  # a second definition of the same name
    return defs


# ---------------------------------------------------------------------------------------------
# the known finding, decided on the INPUT, independently of the model:
# "a path argument whose resolved suffix (after symbol substitution) is absolute, used where a relativity root applies"
# ---------------------------------------------------------------------------------------------
def _table(defs):
    t = {}
    for d in defs:
        t.setdefault(d[0], d)
    return t


def _subst(frags, tbl, depth=0):
    """string value of fragments when every symbol is a string symbol (transitively); else None"""
    out = ''
    for k, v in frags:
        if k == 'c':
            out += v
        else:
            d = tbl.get(v)
            if d is None or d[1] != 'string' or depth > 8:
                return None
            s = _subst(d[2][1], tbl, depth + 1)
            if s is None:
                return None
            out += s
    return out


def kf_applies(defs, arg, creates):
    """K1: somewhere in the argument or in a path definition it refers to, a PATH-STRING that is absolute after
    substitution of string symbols is combined with an explicit relativity (option, -rel SYMBOL, -rel-here);
    K2: the PATH-STRING of a creating argument itself is absolute (after substitution) and has no relativity;
    K3: the same in a path definition reached from the argument, when the PATH-STRING contains a symbol reference and is
    not of the form SYMBOL-REFERENCE[/...]."""
    tbl = _table(defs)
    seen = set()

    def visit(a, is_top):
        rel, tok = a
        frags = list(tok[1]) if tok is not None else []
        lead_path = None
        ref_shape = (bool(frags) and frags[0][0] == 's' and
                     (len(frags) == 1 or (frags[1][0] == 'c' and frags[1][1].startswith('/'))))
        if rel[0] == 'none' and ref_shape and tbl.get(frags[0][1], (0, ''))[1] == 'path':
            # the suffix after a leading path symbol is stripped of its leading slashes: never absolute
            lead_path = frags[0][1]
            s = None
        else:
            s = _subst(frags, tbl)
        is_abs = s is not None and s.startswith('/')
        has_sym = any(k == 's' for k, _ in frags) and not (tok is not None and tok[0] == 'hard')
        hit = False
        if is_abs and rel[0] in ('opt', 'sym', 'here'):
            hit = True
        if is_abs and rel[0] == 'none' and is_top and creates:
            hit = True
        if is_abs and rel[0] == 'none' and not is_top and has_sym and not ref_shape:
            hit = True
        nxt = rel[1] if rel[0] == 'sym' else lead_path
        if nxt is not None and nxt not in seen and tbl.get(nxt, (0, ''))[1] == 'path':
            seen.add(nxt)
            hit = visit(tbl[nxt][2], False) or hit
        return hit

    return visit(arg, True)


# ---------------------------------------------------------------------------------------------
# implementation driver (parser level)
# ---------------------------------------------------------------------------------------------
class Impl:
    def __init__(self, scratch):
        from exactly_lib.cli_default.program_modes.test_case import default_instructions_setup as dis
        from exactly_lib.section_document.source_location import FileSystemLocationInfo, FileLocationInfo
        from exactly_lib.tcfs.hds import HomeDs
        from exactly_lib.tcfs.sds import SandboxDs
        from exactly_lib.tcfs.tcds import TestCaseDs
        self.IS = dis.INSTRUCTIONS_SETUP
        self.fli = FileSystemLocationInfo(FileLocationInfo(pathlib.Path(HERE)))
        assert str(self.fli.current_source_file.abs_path_of_dir_containing_last_file_base_name) == HERE
        self.tcds = TestCaseDs(HomeDs(pathlib.Path(HDS_CASE), pathlib.Path(HDS_ACT)), SandboxDs(pathlib.Path(SDS)))
        self.cwd0 = os.path.join(scratch, 'cwd-at-definition')
        self.cwd1 = os.path.join(scratch, 'cwd-1')
        self.cwd2 = os.path.join(scratch, 'cwd-2', 'deeper')
        for d in (self.cwd0, self.cwd1, self.cwd2):
            os.makedirs(d)
        self.confs = [(label, creates, obj, conf_of(obj)) for label, creates, obj in live_confs()]

    def run_defs(self, defs):
        """-> (SymbolTable, None | (index, 'DKSyntax'|'DKReject'|'DKCrash'))"""
        from exactly_lib.section_document.parse_source import ParseSource
        from exactly_lib.section_document.element_parsers.instruction_parser_exceptions import \
            SingleInstructionInvalidArgumentException
        from exactly_lib.execution.impl import symbol_validation
        from exactly_lib.util.symbol_table import SymbolTable
        table = SymbolTable()
        parser = self.IS.setup_instruction_set['def']
        for i, d in enumerate(defs):
            try:
                instr = parser.parse(self.fli, ParseSource(render_def(d)))
                usages = instr.symbol_usages()
            except SingleInstructionInvalidArgumentException:
                return table, (i, 'DKSyntax')
            try:
                failure = symbol_validation.validate_symbol_usages(usages, table)
            except Exception:
                return table, (i, 'DKCrash')
            if failure is not None:
                return table, (i, 'DKReject')
        return table, None

    def run_arg(self, conf_obj, arg, table, defs_ok):
        from exactly_lib.section_document.parse_source import ParseSource
        from exactly_lib.section_document.element_parsers.instruction_parser_exceptions import \
            SingleInstructionInvalidArgumentException
        from exactly_lib.impls.types.path import parse_path
        from exactly_lib.execution.impl import symbol_validation
        try:
            sdv = parse_path.PathParser(conf_obj).parse(ParseSource(render_arg(arg)))
        except SingleInstructionInvalidArgumentException:
            return ('ASyntaxError',)
        except Exception:
            return ('AParseCrash',)
        if not defs_ok:
            return ('AParsedOnly',)
        try:
            failure = symbol_validation.validate_symbol_usages(list(sdv.references), table)
        except Exception:
            return ('AValidationCrash',)
        if failure is not None:
            return ('ARejected',)
        try:
            vals = []
            meta = None
            for cwd in (self.cwd1, self.cwd2):
                os.chdir(cwd)
                ddv = sdv.resolve(table)  # the USE of the path: resolve + value
                rel = ddv.relativity().relativity_type
                m = (None if rel is None else rel_of_enum(rel), ddv.path_suffix_str())
                assert meta is None or meta == m
                meta = m
                vals.append(str(ddv.value_of_any_dependency(self.tcds)))
            return ('AResolved', meta[0], meta[1], vals[0], vals[1])
        except Exception:
            return ('AResolveCrash',)

    def observe(self, defs, conf_obj, arg):
        old = os.getcwd()
        try:
            os.chdir(self.cwd0)
            table, dfail = self.run_defs(defs)
            a = self.run_arg(conf_obj, arg, table, dfail is None)
        finally:
            os.chdir(old)
        return dfail, a


# instruction forms: (instruction name, label of the argument configuration, creates, text after the instruction name)
#   %s is the PATH argument; labels ending in ':' get the phase suffix before-act / after-act
INSTR_FORMS = [
    ('file', 'file:destination', True, "%s = 'c'"),
    ('dir', 'dir:destination', True, '%s'),
    ('copy', 'copy:destination', True, '-rel-tmp src.txt %s'),
    ('copy', 'copy:source:', False, '%s'),
    ('file', 'contents-of:source:', False, 'out.txt = -contents-of %s'),
    ('contents', 'contents:actual', False, '%s : is-empty'),
    ('exists', 'exists:path', False, '%s'),
    ('dir-contents', 'dir-contents:actual', False, '%s : is-empty'),
    ('cd', 'cd:', False, '%s'),
]
PHASES = [('setup', 'setup_instruction_set', False), ('before-assert', 'before_assert_instruction_set', True),
          ('assert', 'assert_instruction_set', True), ('cleanup', 'cleanup_instruction_set', True)]


def instr_forms(im):
    """every (phase, instruction, label, creates, template) that exists"""
    out = []
    for ph, attr, after in PHASES:
        for name, label, creates, tmpl in INSTR_FORMS:
            if name not in getattr(im.IS, attr):
                assert not creates and name in ('contents', 'exists', 'dir-contents') and ph != 'assert', (ph, name)
                continue
            lab = label + ('after-act' if after else 'before-act') if label.endswith(':') else label
            out.append((ph, attr, name, lab, creates, tmpl))
    return out


def run_instr(im, attr, name, text, table, defs_ok=True):
    """parse one instruction line with the instruction parser of a phase and validate its symbol usages"""
    from exactly_lib.section_document.parse_source import ParseSource
    from exactly_lib.section_document.element_parsers.instruction_parser_exceptions import \
        SingleInstructionInvalidArgumentException
    from exactly_lib.execution.impl import symbol_validation
    try:
        instr = getattr(im.IS, attr)[name].parse(im.fli, ParseSource(text))
        usages = instr.symbol_usages()
    except SingleInstructionInvalidArgumentException:
        return 'ISyntaxError'
    except Exception:
        return 'IParseCrash'
    if not defs_ok:
        return 'IParsedOnly'
    try:
        failure = symbol_validation.validate_symbol_usages(usages, table)
    except Exception:
        return 'IValidationCrash'
    return 'IAccepted' if failure is None else 'IRejected'


def gen_tables(ctx):
    common.source_tie('C12')  # small pure functions translated from the source and proved equal to the model (DESIGN 12.8)
    """(T) fail-closed: any exception aborts the check"""
    from exactly_lib.tcfs import relative_path_options as rpo, relativity_root, path_relativity as pr
    from exactly_lib.tcfs.path_relativity import RelOptionType
    scratch = os.path.join(ctx.work, 'c12-tables')  # fixed name: the generated file is stable between runs
    shutil.rmtree(scratch, ignore_errors=True)
    os.makedirs(scratch)
    old = os.getcwd()
    try:
        im = Impl(scratch)
        os.chdir(im.cwd1)
        # 1. configuration objects
        conf_rows = ['(%s, %s, %s)' % (ctext(label), cbool(creates), c_conf(cf, HERE if label == 'def:path' else None))
                     for label, creates, _, cf in im.confs]
        # 2. roots and option names
        assert len(list(RelOptionType)) == 6 and set(rpo.REL_OPTIONS_MAP) == set(RelOptionType)
        root_rows = []
        for r in RelOptionType:
            info = rpo.REL_OPTIONS_MAP[r]
            res = info.root_resolver
            root = res.from_tcds(im.tcds)
            sds_t = pr.rel_sds_from_rel_any(r)
            if sds_t is not None:  # REL_SDS_RESOLVERS must give the same directory
                assert relativity_root.REL_SDS_RESOLVERS[sds_t].from_sds(im.tcds.sds) == root
                assert rpo.REL_SDS_OPTIONS_MAP[sds_t].root_resolver.from_tcds(im.tcds) == root
            hds_t = pr.rel_hds_from_rel_any(r)
            if hds_t is not None:
                assert rpo.REL_HDS_OPTIONS_MAP[hds_t].root_resolver.from_tcds(im.tcds) == root
            root_rows.append('(%s, (%s, %s, (%s, %s)))' % (rel_of_enum(r), ctext(info.option_name.long), ctext(str(root)),
                                                       rel_of_enum(res.relativity_type), cbool(res.exists_pre_sds)))
        # 3. behaviour of the creating instructions in every phase: which options parse, which symbol relativities validate
        beh_rows = []
        sym_kinds = [('Some ' + r, '-' + OPT_NAME[r] + ' p') for r in REL] + [('None', '/abs/p')]
        for ph, attr, name, lab, creates, tmpl in instr_forms(im):
            if not creates:
                continue
            opts = []
            for r in REL:
                from exactly_lib.util.symbol_table import SymbolTable
                o = run_instr(im, attr, name, tmpl % ('-%s f.txt' % OPT_NAME[r]), SymbolTable())
                assert o in ('ISyntaxError', 'IAccepted'), o
                opts.append('(%s, %s)' % (r, cbool(o == 'IAccepted')))
            syms = []
            for relc, deftext in sym_kinds:
                for depth in (1, 2, 3):
                    for via in ('ViaRelSym', 'ViaLeadRef'):
                        defs = ['path P1 = ' + deftext]
                        for k in range(2, depth + 1):
                            defs.append('path P%d = %s' % (k, ('-rel P%d q%d' % (k - 1, k)) if (k + (via == 'ViaRelSym')) % 2
                                                           else ('@[P%d]@/q%d' % (k - 1, k))))
                        table = SymbolTable()
                        from exactly_lib.section_document.parse_source import ParseSource
                        from exactly_lib.execution.impl import symbol_validation
                        for dtxt in defs:
                            ins = im.IS.setup_instruction_set['def'].parse(im.fli, ParseSource(dtxt))
                            assert symbol_validation.validate_symbol_usages(ins.symbol_usages(), table) is None
                        arg = ('-rel P%d f.txt' % depth) if via == 'ViaRelSym' else ('@[P%d]@/f.txt' % depth)
                        o = run_instr(im, attr, name, tmpl % arg, table)
                        assert o in ('IRejected', 'IAccepted'), o
                        syms.append('((%s, %s, %s), %s)' % (via, cnat(depth), '(%s)' % relc, cbool(o == 'IAccepted')))
            beh_rows.append('(%s, (%s, %s))' % (ctext(ph + ':' + lab), clist(opts), clist(syms)))
        txt = ('(* GENERATED on every run by harness/c12.py from the running code under /repo/src. Do not edit. *)\n'
               'From Coq Require Import NArith List Bool.\nFrom Exactly Require Import Model.Paths Spec.C12.\n'
               'Import ListNotations.\nLocal Open Scope N_scope.\n\n'
               '(* (label of the PATH argument, it names a file or directory to create or modify, its live configuration object) *)\n'
               'Definition gen_arg_confs : list (text * bool * conf) :=\n  %s.\n\n'
               '(* relativity -> (option name, root directory under the probe TCDS, (relativity_type of the resolver, exists_pre_sds)) *)\n'
               'Definition gen_probe_env : env := %s.\n'
               'Definition gen_roots : list (relopt * (text * text * (relopt * bool))) :=\n  %s.\n\n'
               '(* creating instruction in a phase -> (option -> parses?, (via, chain depth, relativity of the first symbol) -> validates?) *)\n'
               'Definition gen_creation_behaviour : list (text * (list (relopt * bool) * list ((via * nat * option relopt) * bool))) :=\n  %s.\n'
               % (clist(conf_rows), c_env(im.cwd1), clist(root_rows), clist(beh_rows)))
        common.write_if_changed(os.path.join(common.COQ, 'Gen', 'C12_tables.v'), txt)
    finally:
        os.chdir(old)
        shutil.rmtree(scratch, ignore_errors=True)


def c_obs(dfail, a):
    d = 'None' if dfail is None else '(Some (%s, %s))' % (cnat(dfail[0]), dfail[1])
    if a[0] == 'AResolved':
        at = '(AResolved %s %s %s %s)' % (copt(a[1], lambda x: x), ctext(a[2]), ctext(a[3]), ctext(a[4]))
    else:
        at = a[0]
    return '(Obs %s %s)' % (d, at)


def pcase_term(im, defs, conf, creates, arg, dfail, a):
    return '(PCase %s %s %s %s %s %s %s %s)' % (
        ctext(HERE), clist([c_def(d) for d in defs]) if defs else '(@nil (sym * sdef))', c_conf(conf), cbool(creates),
        c_arg(arg), c_env(im.cwd1), c_env(im.cwd2), c_obs(dfail, a))


def describe(defs, label, arg, dfail, a):
    return {'level': 'parser', 'input': {'defs': defs, 'label': label, 'arg': arg},
            'definitions': ['def ' + render_def(d) for d in defs], 'argument_of': label, 'argument': render_arg(arg),
            'observed': {'definitions': 'all accepted' if dfail is None else 'definition #%d: %s' % dfail, 'argument': list(a)}}


CORPUS = [
    # (defs, conf label, arg)  -- DESIGN Appendix A6 and the other-violation shapes named in the brief
    ([], 'file:destination', (('opt', 'RAct'), ('plain', [('c', '/ABS/home/escaped.txt')]))),
    ([('S1', 'string', ('plain', [('c', '/ABS/home/e2.txt')]))], 'file:destination', (('opt', 'RAct'), ('plain', [('s', 'S1')]))),
    ([], 'file:destination', (('none',), ('plain', [('c', '/ABS/x')]))),
    ([('P1', 'path', (('opt', 'RHdsCase'), ('plain', [('c', 'home')])))], 'file:destination',
     (('none',), ('plain', [('s', 'P1'), ('c', '/e3.txt')]))),
    ([], 'file:destination', (('opt', 'RHdsCase'), ('plain', [('c', 'x')]))),
    ([('P1', 'path', (('opt', 'RHdsCase'), ('plain', [('c', 'h')]))), ('P2', 'path', (('sym', 'P1'), ('plain', [('c', 'a')]))),
      ('P3', 'path', (('none',), ('plain', [('s', 'P2'), ('c', '/b')])))], 'dir:destination', (('sym', 'P3'), ('plain', [('c', 'c')]))),
    ([('P1', 'path', (('opt', 'RCwd'), ('plain', [('c', 'x')])))], 'copy:destination', (('none',), ('plain', [('s', 'P1')]))),
    ([('P1', 'path', (('none',), ('plain', [('c', '/abs/p')])))], 'file:destination', (('sym', 'P1'), ('plain', [('c', 'x')]))),
    ([('S1', 'string', ('plain', [('c', '/abs')])), ('P1', 'path', (('opt', 'RAct'), ('plain', [('s', 'S1')])))],
     'file:destination', (('none',), ('plain', [('s', 'P1'), ('c', '/x')]))),
    ([], 'file:destination', (('sym', 'U99'), ('plain', [('c', '/abs/x')]))),
    ([], 'file:destination', (('none',), ('soft', []))),  # `file "" = ..`: the empty path (was an IndexError before commit 0d7a12a)
    # a forbidden path symbol second in a string symbol that concatenates references, used as a path component
    ([('S1', 'string', ('soft', [])), ('P2', 'path', (('none',), ('plain', [('c', '/abs/home')]))),
      ('S3', 'string', ('plain', [('s', 'S1'), ('s', 'P2'), ('c', '/new')]))], 'file:destination',
     (('opt', 'RAct'), ('plain', [('s', 'S3')]))),
    ([('S1', 'string', ('plain', [('c', 'e')])), ('P2', 'path', (('opt', 'RHdsCase'), ('plain', [('c', 'h')]))),
      ('S3', 'string', ('plain', [('s', 'S1'), ('c', '/'), ('s', 'P2')])), ('S4', 'string', ('plain', [('c', 'x'), ('s', 'S3')]))],
     'dir:destination', (('none',), ('plain', [('s', 'S4')]))),
    ([], 'copy:destination', (('none',), None)),
    ([], 'copy:destination', (('opt', 'RTmp'), None)),
    ([('P1', 'path', (('here',), ('plain', [('c', 'x')])))], 'contents:actual', (('none',), ('plain', [('s', 'P1'), ('c', '/y')]))),
    ([('P1', 'path', (('opt', 'RResult'), ('plain', [('c', 'x')])))], 'copy:source:before-act', (('sym', 'P1'), ('plain', [('c', 'y')]))),
]


def run_pcases(ctx, res, im):
    rng = ctx.rng
    n = size_of(ctx, 2600, 24000)
    conf_by_label = {c[0]: c for c in im.confs}
    usable = [c for c in im.confs if c[0] != 'def:path']
    cases = []
    for j in range(len(CORPUS) + n):
        if j < len(CORPUS):
            defs, label, arg = CORPUS[j]
            _, creates, obj, conf = conf_by_label[label]
        else:
            seeds = getattr(ctx, 'c12_seed_defs', None)
            defs = rng.choice(seeds) if (seeds and rng.chance(0.7)) else gen_defs(rng)
            label, creates, obj, conf = rng.choice(usable) if rng.chance(0.45) else rng.choice(usable[:3])
            arg = gen_arg(rng, defs, False)
        for d in defs:
            if d[1] == 'string':
                check_rendering(d[2])
            elif d[1] == 'path' and d[2][1] is not None:
                check_rendering(d[2][1])
        if arg[1] is not None:
            check_rendering(arg[1])
        dfail, a = im.observe(defs, obj, arg)
        cases.append((defs, label, creates, conf, arg, dfail, a))
        res.count('pcase argument of ' + label)
        res.count('pcase relativity ' + (arg[0][0] if arg[0][0] != 'opt' else '-' + OPT_NAME[arg[0][1]]))
        res.count('pcase outcome ' + a[0])
        depth = chain_depth(defs, arg)
        res.count('pcase path-symbol chain depth %d' % depth)
        if depth >= 1 or arg[0][0] in ('opt', 'sym'):
            res.nontrivial.add(('p', repr(defs), label, repr(arg)))
    terms = [pcase_term(im, d, cf, cr, ar, df, a) for d, _, cr, cf, ar, df, a in cases]
    cb, pb, errs = common.run_shards('C12', ['Model.Paths', 'Spec.C12'], 'check_case', terms, tag='pcases', shard_size=300)
    res.errors += errs
    for i in pb:
        defs, label, creates, conf, arg, dfail, a = cases[i]
        info = describe(defs, label, arg, dfail, a)
        known = kf_applies(defs, arg, creates)
        info['known_finding_predicate_holds'] = known
        res.prop_failures.append(Failure(
            'property', info,
            'the argument is accepted although its relativity is not one the argument may have, or the resolved path is not '
            'the documented root directory joined with the suffix', finding=KF if known else None))
    model_out = {}
    if cb:
        outs, _ = common.coq_eval_terms('C12', ['Model.Paths', 'Spec.C12'], ['model_run %s' % terms[i] for i in cb[:6]],
                                        tag='pdisagree')
        model_out = dict(zip(cb[:6], outs or []))
    for i in cb:
        defs, label, creates, conf, arg, dfail, a = cases[i]
        info = describe(defs, label, arg, dfail, a)
        info['model'] = decode_texts(model_out.get(i, '(not evaluated)'))
        res.disagreements.append(Failure('correspondence', info,
                                         'model (parse_path / validate / resolve / value) differs from the implementation'))
    res.evaluations += len(cases)
    if cases:
        k = min(len(cases) - 1, len(CORPUS) + 7)
        res.samples.append(describe(cases[k][0], cases[k][1], cases[k][4], cases[k][5], cases[k][6]))
        res.samples.append(describe(cases[0][0], cases[0][1], cases[0][4], cases[0][5], cases[0][6]))
    return cases


def run_icases(ctx, res, im, pcases):
    """the same (definitions, argument) inside complete instruction lines, in every phase that has the instruction"""
    forms = {}
    for ph, attr, name, lab, creates, tmpl in instr_forms(im):
        forms.setdefault(lab, []).append((ph, attr, name, creates, tmpl))
    cases = []
    old = os.getcwd()
    try:
        os.chdir(im.cwd0)
        for defs, label, creates, conf, arg, _, _ in pcases:
            table, dfail = im.run_defs(defs)
            for ph, attr, name, cr, tmpl in forms.get(label, []):
                assert cr == creates
                text = tmpl % render_arg(arg)
                o = run_instr(im, attr, name, text, table, dfail is None)
                cases.append((defs, label, creates, conf, arg, dfail, o, ph, name + ' ' + text))
                res.count('icase %s in %s' % (name, ph))
                res.count('icase outcome ' + o)
                if chain_depth(defs, arg) >= 1 or arg[0][0] in ('opt', 'sym'):
                    res.nontrivial.add(('i', repr(defs), ph, name, repr(arg)))
    finally:
        os.chdir(old)
    terms = ['(ICase %s %s %s %s %s %s %s)' % (
        ctext(HERE), clist([c_def(d) for d in defs]) if defs else '(@nil (sym * sdef))', c_conf(conf), cbool(creates), c_arg(arg),
        'None' if dfail is None else '(Some (%s, %s))' % (cnat(dfail[0]), dfail[1]), o)
        for defs, label, creates, conf, arg, dfail, o, ph, line in cases]
    cb, pb, errs = common.run_shards('C12', ['Model.Paths', 'Spec.C12'], 'check_icase', terms, tag='icases', shard_size=400)
    res.errors += errs

    def info_of(c):
        defs, label, creates, conf, arg, dfail, o, ph, line = c
        return {'level': 'instruction', 'input': {'defs': defs, 'label': label, 'arg': arg},
                'phase': ph, 'definitions': ['def ' + render_def(d) for d in defs], 'instruction': line, 'argument_of': label,
                'observed': {'definitions': 'all accepted' if dfail is None else 'definition #%d: %s' % dfail, 'instruction': o}}
    for i in pb:
        defs, label, creates, conf, arg = cases[i][:5]
        known = kf_applies(defs, arg, creates)
        info = info_of(cases[i])
        info['known_finding_predicate_holds'] = known
        res.prop_failures.append(Failure(
            'property', info, 'the instruction accepts a relativity option outside the accepted set, or accepts (parse + symbol '
            'validation) a destination whose documented relativity is not act, tmp or cd', finding=KF if known else None))
    for i in cb:
        res.disagreements.append(Failure('correspondence', info_of(cases[i]),
                                         'model (parse_path with the live configuration of the argument role / validate) differs '
                                         'from the instruction parser + symbol validation'))
    res.evaluations += len(cases)
    if cases:
        res.samples.append(info_of(cases[min(len(cases) - 1, 40)]))


I2_FORMS = [
    # (instruction, label of the source role (+phase), label of the destination role, destination reported first, template)
    ('copy', 'copy:source:', 'copy:destination', False, '%(src)s %(dst)s'),
    ('file', 'contents-of:source:', 'file:destination', True, '%(dst)s = -contents-of %(src)s'),
]


def run_i2cases(ctx, res, im, seed_defs=None):
    """instructions with two path arguments (a source and a destination), often through the same symbol, in every phase"""
    rng = ctx.rng
    n = size_of(ctx, 900, 9000)
    conf_by_label = {c[0]: c for c in im.confs}
    cases = []
    old = os.getcwd()
    try:
        os.chdir(im.cwd0)
        for j in range(len(I2_CORPUS) + n):
            if j < len(I2_CORPUS):
                defs, src, dst = I2_CORPUS[j]
            else:
                defs = rng.choice(seed_defs) if (seed_defs and rng.chance(0.7)) else gen_defs(rng)
                src, dst = gen_pair(rng, defs)
            for a in (src, dst):
                if a[1] is not None:
                    check_rendering(a[1])
            table, dfail = im.run_defs(defs)
            name, slab, dlab, dst_first, tmpl = I2_FORMS[j % 2] if j < len(I2_CORPUS) else rng.choice(I2_FORMS)
            for ph, attr, after in PHASES:
                sl = slab + ('after-act' if after else 'before-act')
                text = tmpl % {'src': render_arg(src), 'dst': render_arg(dst)}
                o = run_instr(im, attr, name, text, table, dfail is None)
                cases.append((defs, sl, dlab, src, dst, dst_first, dfail, o, ph, name + ' ' + text))
                res.count('i2case %s in %s' % (name, ph))
                res.count('i2case outcome ' + o)
                if path_symbol_of_arg(defs, src) is not None and path_symbol_of_arg(defs, src) == path_symbol_of_arg(defs, dst):
                    res.count('i2case source and destination through the same path symbol')
                res.nontrivial.add(('i2', repr(defs), ph, name, repr(src), repr(dst)))
    finally:
        os.chdir(old)
    terms = ['(I2Case %s %s %s %s %s %s %s %s %s)' % (
        ctext(HERE), clist([c_def(d) for d in defs]) if defs else '(@nil (sym * sdef))', c_conf(conf_by_label[sl][3]), c_arg(src),
        c_conf(conf_by_label[dlab][3]), c_arg(dst), cbool(dst_first),
        'None' if dfail is None else '(Some (%s, %s))' % (cnat(dfail[0]), dfail[1]), o)
        for defs, sl, dlab, src, dst, dst_first, dfail, o, ph, line in cases]
    cb, pb, errs = common.run_shards('C12', ['Model.Paths', 'Spec.C12'], 'check_i2case', terms, tag='i2cases', shard_size=400)
    res.errors += errs

    def info_of(c):
        defs, sl, dlab, src, dst, dst_first, dfail, o, ph, line = c
        return {'level': 'instruction2', 'input': {'defs': defs, 'label': dlab, 'arg': dst, 'src_label': sl, 'src': src},
                'phase': ph, 'definitions': ['def ' + render_def(d) for d in defs], 'instruction': line,
                'observed': {'definitions': 'all accepted' if dfail is None else 'definition #%d: %s' % dfail, 'instruction': o}}
    for i in pb:
        defs, sl, dlab, src, dst = cases[i][:5]
        known = kf_applies(defs, dst, True) or kf_applies(defs, src, False)
        info = info_of(cases[i])
        info['known_finding_predicate_holds'] = known
        res.prop_failures.append(Failure(
            'property', info, 'the instruction is accepted (parse + symbol validation) although the documented relativity of its '
            'destination is not act, tmp or cd, or it accepts a relativity option outside the accepted set', finding=KF if known else None))
    for i in cb:
        res.disagreements.append(Failure('correspondence', info_of(cases[i]),
                                         'model (parse_path of both arguments + validation of their references in the order the '
                                         'instruction reports them) differs from the instruction parser + symbol validation'))
    res.evaluations += len(cases)
    if cases:
        res.samples.append(info_of(cases[min(len(cases) - 1, 4 * len(I2_CORPUS) + 5)]))


_P = lambda rel, s: ('P1', 'path', (rel, ('plain', [('c', s)])))
I2_CORPUS = [
    # one symbol as source and as destination: the destination restriction must still be evaluated
    ([_P(('opt', 'RHdsCase'), 'sub')], (('none',), ('plain', [('s', 'P1'), ('c', '/data.txt')])),
     (('none',), ('plain', [('s', 'P1'), ('c', '/copied.txt')]))),
    ([_P(('opt', 'RHdsCase'), 'sub')], (('sym', 'P1'), ('plain', [('c', 'data.txt')])), (('sym', 'P1'), ('plain', [('c', 'copied.txt')]))),
    ([_P(('here',), 'home/sub')], (('none',), ('plain', [('s', 'P1'), ('c', '/data.txt')])),
     (('sym', 'P1'), ('plain', [('c', 'copied.txt')]))),
    ([_P(('opt', 'RHdsAct'), '.'), ('P2', 'path', (('sym', 'P1'), ('plain', [('c', 'a')]))),
      ('P3', 'path', (('none',), ('plain', [('s', 'P2'), ('c', '/b')])))],
     (('sym', 'P3'), ('plain', [('c', 'data.txt')])), (('none',), ('plain', [('s', 'P3'), ('c', '/copied.txt')]))),
    ([_P(('opt', 'RAct'), 'sub')], (('none',), ('plain', [('s', 'P1'), ('c', '/data.txt')])),
     (('none',), ('plain', [('s', 'P1'), ('c', '/copied.txt')]))),
    ([_P(('opt', 'RTmp'), 'sub')], (('opt', 'RHdsCase'), ('plain', [('c', 'data.txt')])), (('sym', 'P1'), ('plain', [('c', 'copied.txt')]))),
]


# ---------------------------------------------------------------------------------------------
# program level
# ---------------------------------------------------------------------------------------------
E_COMPONENTS = ['a', 'b', 'sub', '.', '', 'a', 'b', 'c', '..']
TAGS = {'HOME': 1, 'ACTHOME': 2, 'ACT': 3, 'TMP': 4, 'CWD': 5, '0': 6}
VERDICTS = {'PASS': 'EPass', 'SYNTAX_ERROR': 'ESyntax', 'VALIDATION_ERROR': 'EValidation', 'HARD_ERROR': 'EHard'}


def with_final(arg, name):
    """make [name] the last component of the PATH-STRING"""
    rel, tok = arg
    if tok is None:
        return (rel, ('plain', [('c', name)]))
    q, frags = tok
    frags = list(frags)
    if frags and frags[-1][0] == 'c':
        s = frags[-1][1]
        frags[-1] = ('c', s + ('' if (s.endswith('/') or s == '') else '/') + name)
    elif frags:
        frags.append(('c', '/' + name))
    else:
        frags = [('c', name)]
    return (rel, (q, frags))


def count_dotdot(defs, arg):
    n = 0
    for d in defs:
        tok = d[2] if d[1] == 'string' else d[2][1] if d[1] == 'path' else None
        if tok is not None:
            n += render_frags(tok[1]).split('/').count('..')
    if arg[1] is not None:
        n += render_frags(arg[1][1]).split('/').count('..')
    return n


def snapshot(*dirs):
    out = []
    for d in dirs:
        for dp, dn, fn in os.walk(d):
            dn.sort()
            for x in dn:
                out.append(('d', os.path.join(dp, x)))
            for x in sorted(fn):
                p = os.path.join(dp, x)
                out.append(('f', p, open(p, 'rb').read()))
    return out


def stays_inside(root, defs, arg):
    """safety of the harness itself: no string of the case may denote an absolute path outside the scratch directory
    (string symbols substituted; any other symbol stands for a relative placeholder)"""
    tbl = _table(defs)

    def text_of(frags, depth=0):
        out = ''
        for k, v in frags:
            d = tbl.get(v) if k == 's' else None
            if k == 'c':
                out += v
            elif d is not None and d[1] == 'string' and depth < 8:
                out += text_of(d[2][1], depth + 1)
            else:
                out += 'X'
        return out
    toks = [d[2] for d in defs if d[1] == 'string'] + [d[2][1] for d in defs if d[1] == 'path'] + [arg[1]]
    for tok in toks:
        if tok is not None:
            s = text_of(tok[1])
            if s.startswith('/') and not (s + '/').startswith(root + '/'):
                return False
    return True


def gen_const_e(rng):
    _GEN['components'], _GEN['abs_prefixes'] = ['a', 'b', 'sub', '.', 'c'], 'none'
    try:
        return gen_const(rng, allow_abs=False) if rng.chance(0.5) else ''
    finally:
        _GEN['components'], _GEN['abs_prefixes'] = COMPONENTS, None


def gen_ecase(rng, i, root, forced=None):
    home, acthome, third = os.path.join(root, 'home'), os.path.join(root, 'acthome'), os.path.join(root, 'ABS')
    kind = rng.weighted([('create', 50), ('read', 20), ('both', 30)])
    ph, attr, after = rng.choice(PHASES)
    _GEN['components'], _GEN['abs_prefixes'] = E_COMPONENTS, [home, acthome, third]
    src = None
    try:
        while True:
            if forced:
                kind, defs, arg = 'create', forced['defs'], forced['arg']
                break
            defs = gen_defs(rng)
            if kind == 'both':
                src, arg = gen_pair(rng, defs)
            else:
                arg = gen_arg(rng, defs, False)
            if any(d[1] == 'path' and d[2][1] is None for d in defs):
                continue  # a PATH-STRING missing at the end of a line is taken from the NEXT line of the file: outside the model
            if count_dotdot(defs, arg) + (count_dotdot([], src) if src else 0) > (2 if kind == 'create' else 0):
                continue  # reading resolves ".." physically (a/.. needs a); creation is kept inside the scratch directory
            if not stays_inside(root, defs, arg) or (src is not None and not stays_inside(root, defs, src)):
                continue
            break
    finally:
        _GEN['components'], _GEN['abs_prefixes'] = COMPONENTS, None
    cd = rng.weighted([(None, 45), ('act-sub', 20), ('tmp', 8), ('tmp-sub', 10), ('symbol', 17)])
    cd_early = rng.chance(0.5)  # the cd stands in [setup]; the instruction may stand in a later phase (the directory persists)
    if forced:
        cd, cd_early = forced['cd'], True
    home_file = None
    marker = 'MARK%d' % i
    src_label, dst_first = None, False
    if kind == 'both':
        instr = rng.choice(['copy', 'file'])
        arg = with_final(arg, marker)
        src = with_final(src, 'exit-code' if (after and rng.chance(0.1)) else 'src.txt')
        label = instr + ':destination'
        src_label = ('copy:source:' if instr == 'copy' else 'contents-of:source:') + ('after-act' if after else 'before-act')
        dst_first = instr == 'file'
        line = ('copy %(src)s %(dst)s' if instr == 'copy' else 'file %(dst)s = -contents-of %(src)s') % {
            'src': render_arg(src), 'dst': render_arg(arg)}
    elif kind == 'create':
        instr = rng.choice(['file', 'dir', 'copy'])
        if cd and not forced and rng.chance(0.4):
            # the forms WITHOUT a relativity option: relative to the directory current when the instruction runs
            c = gen_const_e(rng)
            arg = (('none',), ('plain', [('c', c)]) if c else None)
        label = instr + ':destination'
        if instr == 'copy' and not forced and rng.chance(0.35):
            # `copy SOURCE` without DESTINATION: "SOURCE is copied to the current directory" = destination <basename of SOURCE>
            # with the default relativity; the source is a uniquely named file in the home directory
            home_file = marker
            arg = (('none',), ('plain', [('c', marker)]))
            line = 'copy -rel-home %s' % marker
        else:
            arg = with_final(arg, marker)
            line = {'file': "file %s = 'M'", 'dir': 'dir %s', 'copy': 'copy -rel-home src.txt %s'}[instr] % render_arg(arg)
    else:
        instr = rng.choice(['contents-of', 'copy-source'])
        arg = with_final(arg, 'exit-code' if (after and rng.chance(0.15)) else 'src.txt')
        label = ('contents-of:source:' if instr == 'contents-of' else 'copy:source:') + ('after-act' if after else 'before-act')
        line = ('file -rel-tmp %s = -contents-of %s' if instr == 'contents-of' else 'copy %%s -rel-tmp %s' % marker)
        line = line % ((marker, render_arg(arg)) if instr == 'contents-of' else (render_arg(arg),))
    lines = ['[conf]', 'act-home = ../acthome', '[setup]', "file -rel-act src.txt = 'ACT'", "file -rel-tmp src.txt = 'TMP'"]
    lines += ['def ' + render_def(d) for d in defs]
    lines += ['[act]', '$ true']
    if ph != 'setup':
        lines += ['[%s]' % ph]
    else:
        lines = lines[:-2] + [] if False else lines  # (the act phase must come after setup: keep order below)
    cd_lines, cwd_rel = [], ['act']
    if cd == 'act-sub':
        cd_lines, cwd_rel = ['dir w', 'cd w', "file src.txt = 'CWD'"], ['act', 'w']
    elif cd == 'tmp':
        cd_lines, cwd_rel = ['cd -rel-tmp .'], ['tmp']
    elif cd == 'tmp-sub':
        cd_lines, cwd_rel = ['dir -rel-tmp t', 'cd -rel-tmp t', "file src.txt = 'CWD'"], ['tmp', 't']
    elif cd == 'symbol':
        r = rng.choice(['RAct', 'RTmp'])
        defs = defs + [('P99', 'path', (('opt', r), ('plain', [('c', 'w')])))]
        k = lines.index('[act]')
        lines = lines[:k] + ['def ' + render_def(defs[-1])] + lines[k:]
        # the directory is made without a symbol reference, so that the `cd` is the first path with one
        cd_lines = ['dir -%s w' % OPT_NAME[r], rng.choice(['cd @[P99]@', 'cd -rel P99 .']), "file src.txt = 'CWD'"]
        cwd_rel = ['act' if r == 'RAct' else 'tmp', 'w']
    body = [line]
    if cd_early or ph == 'setup':
        k = lines.index('[act]')
        lines = lines[:k] + cd_lines + (body if ph == 'setup' else []) + lines[k:]
        if ph != 'setup':
            lines += body
    else:
        lines += cd_lines + body
    return {'kind': kind, 'phase': ph, 'after': after, 'defs': defs, 'arg': arg, 'label': label, 'cd': cd, 'marker': marker,
            'cwd_rel': cwd_rel, 'home_file': home_file,
            'src': src, 'src_label': src_label, 'dst_first': dst_first,
            'text': '\n'.join(lines) + '\n', 'instruction': line}


def run_ecases(ctx, res, im, scratch):
    rng = ctx.rng
    n = size_of(ctx, 420, 4000)
    conf_by_label = {c[0]: c for c in im.confs}
    sbx = os.path.join(scratch, 'sandboxes')
    os.makedirs(sbx)
    mp = impl.main_program(sbx)
    keep_in_scratch = set(os.listdir(scratch))
    cases = []

    def finish(ec, root, home, acthome, out, err, exc, before, after, scan_dir, sbx_dir):
        sds = out.strip() or None
        first = ([l for l in err.splitlines() if l in VERDICTS or l.isupper()] or err.splitlines() or [''])[0]
        verdict = VERDICTS.get(first, 'EOther') if exc is None else 'EOther'
        assert sds is None or (os.path.isdir(sds) and os.path.dirname(sds) == sbx_dir), out
        found = []
        for dp, dn, fn in os.walk(scan_dir):  # the case's directory, the sandboxes, and wherever a ".." may have led
            found += [os.path.join(dp, x) for x in dn + fn if x == ec['marker']]
        found = sorted(x for x in found if not (ec.get('home_file') and x == os.path.join(home, ec['home_file'])))
        read = None
        if ec['kind'] in ('read', 'both') and found:
            content = open(found[0]).read() if os.path.isfile(found[0]) else None
            read = TAGS.get(content, 99)
        sds_m = sds or '/NO-SANDBOX'
        cwd = os.path.join(sds_m, *(ec.get('cwd_rel') or (['act', 'w'] if ec['cd'] else ['act'])))
        files = [(os.path.join(home, 'src.txt'), 1), (os.path.join(acthome, 'src.txt'), 2), (os.path.join(sds_m, 'act', 'src.txt'), 3),
                 (os.path.join(sds_m, 'tmp', 'src.txt'), 4)]
        if ec['cd'] and ec['cd'] != 'tmp':
            files.append((os.path.join(cwd, 'src.txt'), 5))
        if ec['after']:
            files.append((os.path.join(sds_m, 'result', 'exit-code'), 6))
        ec.update(verdict=verdict, created=found if ec['kind'] in ('create', 'both') else [], read=read, home_changed=before != after,
                  sds=sds_m, cwd=cwd, files=files, home=home, acthome=acthome,
                  stderr=err[:600].replace(root, '<ROOT>'), exception=repr(exc) if exc else None)
        cases.append(ec)
        res.count('ecase %s in %s' % (ec['label'], ec['phase']))
        res.count('ecase verdict ' + verdict)
        res.count('ecase cd before the instruction: %s' % (ec['cd'] or 'none'))
        if ec.get('home_file'):
            res.count('ecase copy SOURCE without DESTINATION')
        if ec.get('fresh'):
            res.count('ecase run in a fresh process (command line)')
        if chain_depth(ec['defs'], ec['arg']) >= 1 or ec['arg'][0][0] in ('opt', 'sym'):
            res.nontrivial.add(('e', ec['text']))

    for i in range(len(E_CORPUS) + n):
        root = os.path.join(scratch, 'e%d' % i)
        home, acthome, third = os.path.join(root, 'home'), os.path.join(root, 'acthome'), os.path.join(root, 'ABS')
        for d in (home, acthome, third):
            os.makedirs(d)
        for d, c in ((home, 'HOME'), (acthome, 'ACTHOME')):
            with open(os.path.join(d, 'src.txt'), 'w') as f:
                f.write(c)
        ec = E_CORPUS[i](root) if i < len(E_CORPUS) else gen_ecase(rng, i, root)
        if ec.get('home_file'):
            with open(os.path.join(home, ec['home_file']), 'w') as f:
                f.write('HOME')
        # second safety net: resolve in process first (no side effects); run the case only if the path stays in known places
        _, pre = im.observe(ec['defs'], conf_by_label[ec['label']][2], ec['arg'])
        if pre[0] == 'AResolved':
            v = os.path.normpath(pre[3])
            if not any((v + '/').startswith(b + '/') for b in ('/H', '/S', scratch)):
                res.count('ecase skipped: path would leave the scratch directory')
                shutil.rmtree(root, ignore_errors=True)
                continue
        # a SOURCE is looked up by the operating system, which resolves ".." physically: "x/.." needs x to exist as a real
        # directory, which the model's lexical normalisation does not know.  Sources whose resolved path (string symbols
        # substituted by the real resolver; pathlib keeps "..") contains a ".." component are kept out of the judged set.
        # Destinations are not concerned: file, dir and copy create the missing parents first (checked: a/../M, a/b/../../c/M).
        rd = None
        if ec['kind'] == 'read':
            rd = pre
        elif ec['kind'] == 'both':
            _, rd = im.observe(ec['defs'], conf_by_label[ec['src_label']][2], ec['src'])
        if rd is not None and rd[0] == 'AResolved' and '..' in rd[3].split('/'):
            res.count('ecase skipped: source path with a ".." component (resolved physically by the OS)')
            shutil.rmtree(root, ignore_errors=True)
            continue
        with open(os.path.join(home, 'c.case'), 'w') as f:
            f.write(ec['text'])
        before = snapshot(home, acthome)
        pr = impl.run_main(mp, ['--keep', 'c.case'], home, root)
        after = snapshot(home, acthome)
        finish(ec, root, home, acthome, pr.out, pr.err, pr.exception, before, after, scratch, sbx)
        for x in os.listdir(sbx):  # the sandbox, and anything a ".." put next to it
            px = os.path.join(sbx, x)
            shutil.rmtree(px, ignore_errors=True) if os.path.isdir(px) else os.remove(px)
        shutil.rmtree(root, ignore_errors=True)
        for x in os.listdir(scratch):  # strays next to the case directory
            if x not in keep_in_scratch:
                px = os.path.join(scratch, x)
                shutil.rmtree(px, ignore_errors=True) if os.path.isdir(px) else os.remove(px)

    # ---- the same cases the way the tool is really run: ONE FRESH PROCESS per case (command line).  State that lives in the
    # process (module-level caches, shared objects) is then seeded by the case's own first instructions, not by the
    # thousands of cases the harness ran before in this process.
    import subprocess
    from concurrent.futures import ThreadPoolExecutor
    nf = size_of(ctx, 24, 160)
    batch = []
    for i in range(nf):
        root = os.path.join(scratch, 'f%d' % i)
        home, acthome, third = os.path.join(root, 'home'), os.path.join(root, 'acthome'), os.path.join(root, 'ABS')
        for d in (home, acthome, third, os.path.join(root, 'sbx')):
            os.makedirs(d)
        for d, c in ((home, 'HOME'), (acthome, 'ACTHOME')):
            with open(os.path.join(d, 'src.txt'), 'w') as f:
                f.write(c)
        ec = None
        for _attempt in range(50):
            if rng.chance(0.65):
                # a `cd` through a path symbol in [setup] is the first path with a symbol reference that the process parses;
                # the destination goes through a symbol of any of the 6 relativities, of -rel-here, or of an absolute literal
                k = rng.below(8)
                first = (('opt', REL[k]), ('plain', [('c', 'res')])) if k < 6 else (
                    (('here',), ('plain', [('c', 'res')])) if k == 6 else (('none',), ('plain', [('c', third + '/res')])))
                ds = [('P1', 'path', first)]
                cur = 'P1'
                _GEN['components'], _GEN['abs_prefixes'] = ['a', 'b', 'sub', '.', 'c'], 'none'
                try:
                    for t in range(rng.randint(0, 2)):
                        ds.append(('P%d' % (t + 2), 'path', ref_form(rng, cur)))
                        cur = ds[-1][0]
                    cand = gen_ecase(rng, 100000 + i, root, forced={'defs': ds, 'arg': ref_form(rng, cur), 'cd': 'symbol'})
                finally:
                    _GEN['components'], _GEN['abs_prefixes'] = COMPONENTS, None
            else:
                cand = gen_ecase(rng, 100000 + i, root)
            ok = count_dotdot(cand['defs'], cand['arg']) == 0 and (cand['src'] is None or count_dotdot([], cand['src']) == 0)
            for lab, a in ((cand['label'], cand['arg']), (cand['src_label'], cand['src'])):
                if a is not None and ok:
                    _, pre = im.observe(cand['defs'], conf_by_label[lab][2], a)
                    if pre[0] == 'AResolved' and ('..' in pre[3].split('/') or not any(
                            (pre[3] + '/').startswith(b + '/') for b in ('/H', '/S', scratch))):
                        ok = False
            if ok:
                ec = cand
                break
        if ec is None:
            shutil.rmtree(root, ignore_errors=True)
            continue
        ec['fresh'] = True
        if ec.get('home_file'):
            with open(os.path.join(home, ec['home_file']), 'w') as f:
                f.write('HOME')
        with open(os.path.join(home, 'c.case'), 'w') as f:
            f.write(ec['text'])
        batch.append((ec, root, home, acthome, snapshot(home, acthome)))

    def run_fresh(item):
        ec, root, home, acthome, before = item
        env = dict(os.environ, PYTHONPATH=common.REPO + '/src', PYTHONWARNINGS='ignore', TMPDIR=os.path.join(root, 'sbx'))
        try:
            p = subprocess.run([sys.executable, common.REPO + '/src/default-main-program-runner.py', '--keep', 'c.case'], cwd=home,
                               env=env, stdout=subprocess.PIPE, stderr=subprocess.PIPE, text=True, errors='replace', timeout=120)
            return p.stdout, p.stderr, None
        except Exception as ex:  # a time-out is an observation
            return '', '', ex
    with ThreadPoolExecutor(max_workers=8) as pool:
        outs = list(pool.map(run_fresh, batch))
    for (ec, root, home, acthome, before), (out, err, exc) in zip(batch, outs):
        finish(ec, root, home, acthome, out, err, exc, before, snapshot(home, acthome), root, os.path.join(root, 'sbx'))
        shutil.rmtree(root, ignore_errors=True)

    def term(ec):
        _, creates, _, conf = conf_by_label[ec['label']]
        env = '(Env (parse_pp %s) (parse_pp %s) (parse_pp %s) (parse_pp %s))' % (ctext(ec['home']), ctext(ec['acthome']),
                                                                                 ctext(ec['sds']), ctext(ec['cwd']))
        return '(ECase %s %s %s %s %s %s %s %s %s %s %s)' % (
            'EKCreate' if ec['kind'] == 'create' else 'EKRead', ctext(ec['home']),
            clist([c_def(d) for d in ec['defs']]) if ec['defs'] else '(@nil (sym * sdef))', c_conf(conf), c_arg(ec['arg']), env,
            clist(['(%s, %s)' % (ctext(p), cN(t)) for p, t in ec['files']]), ec['verdict'],
            clist([ctext(p) for p in ec['created']]) if ec['created'] else '(@nil text)', copt(ec['read'], cN),
            cbool(ec['home_changed']))

    def info_of(ec):
        root = os.path.dirname(ec['home'])
        return {'level': 'program', 'input': {'defs': ec['defs'], 'label': ec['label'], 'arg': ec['arg'], 'src': ec.get('src'),
                                              'src_label': ec.get('src_label')},
                'test_case_file': ec['text'].replace(root, '<ROOT>'), 'run': 'exactly --keep c.case (in <ROOT>/home; act-home = <ROOT>/acthome)' + (
                    '; a FRESH process (command line) - the result may depend on nothing having been parsed before in the process' if ec.get('fresh') else ''),
                'observed': {'verdict': ec['verdict'], 'stderr': ec['stderr'],
                             'created': [p.replace(root, '<ROOT>').replace(ec['sds'], '<SANDBOX>') for p in ec['created']],
                             'tag_of_contents_read': ec['read'], 'home_directories_changed': ec['home_changed'],
                             'exception': ec['exception']}}
    def term2(ec):
        env = '(Env (parse_pp %s) (parse_pp %s) (parse_pp %s) (parse_pp %s))' % (ctext(ec['home']), ctext(ec['acthome']),
                                                                                 ctext(ec['sds']), ctext(ec['cwd']))
        return '(E2Case %s %s %s %s %s %s %s %s %s %s %s %s %s)' % (
            ctext(ec['home']), clist([c_def(d) for d in ec['defs']]) if ec['defs'] else '(@nil (sym * sdef))',
            c_conf(conf_by_label[ec['src_label']][3]), c_arg(ec['src']), c_conf(conf_by_label[ec['label']][3]), c_arg(ec['arg']),
            cbool(ec['dst_first']), env, clist(['(%s, %s)' % (ctext(p), cN(t)) for p, t in ec['files']]), ec['verdict'],
            clist([ctext(p) for p in ec['created']]) if ec['created'] else '(@nil text)', copt(ec['read'], cN),
            cbool(ec['home_changed']))
    both = [ec for ec in cases if ec['kind'] == 'both']
    cases = [ec for ec in cases if ec['kind'] != 'both']
    terms2 = [term2(ec) for ec in both]
    cb2, pb2, errs = common.run_shards('C12', ['Model.Paths', 'Spec.C12'], 'check_e2case', terms2, tag='e2cases', shard_size=200)
    res.errors += errs
    for i in pb2:
        ec = both[i]
        known = kf_applies(ec['defs'], ec['arg'], True) or kf_applies(ec['defs'], ec['src'], False)
        info = info_of(ec)
        info['known_finding_predicate_holds'] = known
        res.prop_failures.append(Failure(
            'property', info, 'a home directory changed, or a destination with a relativity other than act/tmp/cd was not rejected '
            'before execution (syntax error / VALIDATION_ERROR), or the file was created / read somewhere else than documented',
            finding=KF if known else None))
    model_out = {}
    if cb2:
        outs, _ = common.coq_eval_terms('C12', ['Model.Paths', 'Spec.C12'], ['model_e2run %s' % terms2[i] for i in cb2[:6]],
                                        tag='e2disagree')
        model_out = dict(zip(cb2[:6], outs or []))
    for i in cb2:
        info = info_of(both[i])
        info['model'] = decode_texts(model_out.get(i, '(not evaluated)')).replace(os.path.dirname(both[i]['home']), '<ROOT>')
        res.disagreements.append(Failure('correspondence', info, 'model (verdict / created path / contents read) differs from the '
                                                                 'real program'))
    res.evaluations += len(both)
    if both:
        res.samples.append(info_of(both[min(len(both) - 1, 3)]))
    terms = [term(ec) for ec in cases]
    cb, pb, errs = common.run_shards('C12', ['Model.Paths', 'Spec.C12'], 'check_ecase', terms, tag='ecases', shard_size=200)
    res.errors += errs
    for i in pb:
        ec = cases[i]
        known = kf_applies(ec['defs'], ec['arg'], ec['kind'] == 'create')
        info = info_of(ec)
        info['known_finding_predicate_holds'] = known
        res.prop_failures.append(Failure(
            'property', info, 'a home directory changed, or a destination with a relativity other than act/tmp/cd was not rejected '
            'before execution, or the file was created / read somewhere else than the documented root joined with the suffix',
            finding=KF if known else None))
    model_out = {}
    if cb:
        outs, _ = common.coq_eval_terms('C12', ['Model.Paths', 'Spec.C12'], ['model_erun %s' % terms[i] for i in cb[:6]],
                                        tag='edisagree')
        model_out = dict(zip(cb[:6], outs or []))
    for i in cb:
        info = info_of(cases[i])
        info['model'] = decode_texts(model_out.get(i, '(not evaluated)')).replace(os.path.dirname(cases[i]['home']), '<ROOT>')
        res.disagreements.append(Failure('correspondence', info, 'model (verdict / created path / contents read) differs from the '
                                                                 'real program'))
    res.evaluations += len(cases)
    if cases:
        res.samples.append(info_of(cases[min(len(cases) - 1, len(E_CORPUS) + 3)]))


# ---------------------------------------------------------------------------------------------
# a way of running: the case as the 2nd / 3rd MEMBER of a suite whose suite file carries the instruction and the newer
# definitions (parsed once, shared by all cases) while every case binds the older symbols itself, differently
# ---------------------------------------------------------------------------------------------
import re as _re
_SUITE_CASE_LINE = _re.compile(r'^case  (.*): \([0-9.]+s\) ([A-Z_]+)$')
S_COMPONENTS = ['a', 'b', 'sub', '.', 'c', 'd.e']


def has_unknown(defs, arg):
    return any(d[1] == 'path' and d[2][0][0] in ('unknown',) for d in defs) or arg[0][0] == 'unknown'


def gen_suite(rng, i):
    """-> (phase, head variants [defs per member], tail defs, instruction kind, argument)"""
    _GEN['components'], _GEN['abs_prefixes'] = S_COMPONENTS, 'none'
    try:
        while True:
            defs = gen_defs(rng)
            arg = gen_arg(rng, defs, False)
            paths = [k for k, d in enumerate(defs) if d[1] == 'path']
            if not paths or any(d[1] == 'path' and d[2][1] is None for d in defs) or has_unknown(defs, arg):
                continue
            if len({d[0] for d in defs}) != len(defs):
                continue
            if count_dotdot(defs, arg) > 0 or not stays_inside('/nonexistent-root', defs, arg):
                continue  # no "..", no absolute strings in suite members: nothing may then appear outside a sandbox
            break
    finally:
        _GEN['components'], _GEN['abs_prefixes'] = COMPONENTS, None
    if rng.chance(0.7):
        # directed: the suite file continues the chain of the case's newest path symbol by 1-2 definitions and uses the end of it
        head, tail, cur = defs, [], defs[paths[-1]][0]
        _GEN['components'], _GEN['abs_prefixes'] = S_COMPONENTS, 'none'
        try:
            for t in range(rng.randint(1, 2)):
                tail.append(('P%d' % (100 + t), 'path', ref_form(rng, cur)))
                cur = tail[-1][0]
            cand = ref_form(rng, cur) if rng.chance(0.8) else arg
        finally:
            _GEN['components'], _GEN['abs_prefixes'] = COMPONENTS, None
        if count_dotdot(tail, cand) == 0 and stays_inside('/nonexistent-root', tail, cand):
            arg = cand
        else:
            tail = []
    else:
        k = rng.randint(paths[0] + 1, len(defs))  # the head holds at least the first path definition
        head, tail = defs[:k], defs[k:]
    n_members = rng.randint(2, 3)
    heads = []
    for j in range(n_members):
        h = []
        for d in head:
            if d[1] == 'path' and d[2][0][0] == 'opt' and (j > 0 or rng.chance(0.5)):
                # the same definition with another relativity: half of them legal for a destination
                r = rng.choice(['RAct', 'RTmp', 'RCwd']) if rng.chance(0.5) else rng.choice(['RHdsCase', 'RHdsAct', 'RResult'])
                h.append((d[0], 'path', (('opt', r), d[2][1])))
            else:
                h.append(d)
        heads.append(h)
    ph = rng.choice(['before-assert', 'assert', 'cleanup'])
    instr = rng.choice(['file', 'dir', 'copy'])
    arg = with_final(arg, 'MARK%d' % i)
    return ph, heads, tail, instr, arg


def suite_files(ph, heads, tail, instr, arg):
    line = {'file': "file %s = 'M'", 'dir': 'dir %s', 'copy': 'copy -rel-home src.txt %s'}[instr] % render_arg(arg)
    files = {'the.suite': '\n'.join(['[cases]'] + ['m%d.case' % j for j in range(len(heads))] + ['[%s]' % ph] +
                                    ['def ' + render_def(d) for d in tail] + [line]) + '\n'}
    for j, h in enumerate(heads):
        files['m%d.case' % j] = '\n'.join(['[setup]'] + ['def ' + render_def(d) for d in h] + ['[act]', '$ true']) + '\n'
    return files


S_CORPUS = [
    # the relativity of a suite-level definition is that of the symbol THIS case binds: act first, then home; and the reverse
    ('before-assert', [[('P1', 'path', (('opt', 'RAct'), ('plain', [('c', 'd')])))], [('P1', 'path', (('opt', 'RHdsCase'), ('plain', [('c', 'h')])))]],
     [('P2', 'path', (('sym', 'P1'), ('plain', [('c', 'sub')])))], 'file', (('sym', 'P2'), ('plain', [('c', 'MARK')]))),
    ('cleanup', [[('P1', 'path', (('opt', 'RHdsCase'), ('plain', [('c', 'h')])))], [('P1', 'path', (('opt', 'RTmp'), ('plain', [('c', 'd')])))],
                 [('P1', 'path', (('opt', 'RHdsAct'), ('plain', [('c', 'h')])))]],
     [('P2', 'path', (('none',), ('plain', [('s', 'P1'), ('c', '/sub')])))], 'dir', (('none',), ('plain', [('s', 'P2'), ('c', '/MARK')]))),
]


def run_scases(ctx, res, im, scratch):
    rng = ctx.rng
    n = size_of(ctx, 70, 900)
    conf_by_label = {c[0]: c for c in im.confs}
    sbx = os.path.join(scratch, 'suite-sandboxes')
    os.makedirs(sbx)
    mp = impl.main_program(sbx)
    members = []
    for i in range(len(S_CORPUS) + n):
        ph, heads, tail, instr, arg = S_CORPUS[i] if i < len(S_CORPUS) else gen_suite(rng, i)
        marker = 'MARK' if i < len(S_CORPUS) else 'MARK%d' % i
        # safety net and judged set: resolve every member in process first; a resolved path with a ".." component (possible through
        # string concatenation) or an absolute one could put something outside a sandbox without any violation
        skip = False
        for h in heads:
            _, pre = im.observe(h + tail, conf_by_label[instr + ':destination'][2], arg)
            if pre[0] == 'AResolved' and ('..' in pre[3].split('/') or not any(
                    (pre[3] + '/').startswith(b + '/') for b in ('/S', scratch))):
                skip = True
        if skip:
            res.count('suite skipped: a member path has a ".." component or is not below a sandbox directory')
            continue
        root = os.path.join(scratch, 's%d' % i)
        home = os.path.join(root, 'home')
        os.makedirs(home)
        with open(os.path.join(home, 'src.txt'), 'w') as f:
            f.write('HOME')
        files = suite_files(ph, heads, tail, instr, arg)
        for fn, txt in files.items():
            with open(os.path.join(home, fn), 'w') as f:
                f.write(txt)
        before = snapshot(home)
        pr = impl.run_main(mp, ['suite', 'the.suite'], home, root)
        after = snapshot(home)
        found = sorted(os.path.join(dp, x) for dp, dn, fn in os.walk(scratch) for x in dn + fn if x == marker)
        verdicts = {}
        for line in pr.out.splitlines():
            m = _SUITE_CASE_LINE.match(line)
            if m:
                verdicts[m.group(1)] = VERDICTS.get(m.group(2), 'EOther')
        invalid = pr.out.strip().endswith('INVALID_SUITE')
        for j, h in enumerate(heads):
            v = 'ESyntax' if invalid else verdicts.get('m%d.case' % j, 'EOther')
            if pr.exception is not None:
                v = 'EOther'
            members.append({'suite': i, 'member': j, 'defs': h + tail, 'arg': arg, 'label': instr + ':destination', 'home': home,
                            'verdict': v, 'created': found, 'home_changed': before != after, 'files': files, 'phase': ph,
                            'stdout': pr.out[-600:], 'stderr': pr.err[-400:].replace(root, '<ROOT>')})
            res.count('suite member #%d verdict %s' % (j, v))
        res.count('suite of %d cases, instruction in %s' % (len(heads), ph))
        res.nontrivial.add(('s', repr(files)))
        for x in os.listdir(sbx):
            shutil.rmtree(os.path.join(sbx, x), ignore_errors=True)
        shutil.rmtree(root, ignore_errors=True)

    def term(mb):
        conf = conf_by_label[mb['label']][3]
        env = '(Env (parse_pp %s) (parse_pp %s) (parse_pp %s) (parse_pp %s))' % (ctext(mb['home']), ctext(mb['home']),
                                                                                 ctext('/SANDBOX'), ctext('/SANDBOX/act'))
        return '(ECase EKCreate %s %s %s %s %s (@nil (text * N)) %s %s None %s)' % (
            ctext(mb['home']), clist([c_def(d) for d in mb['defs']]) if mb['defs'] else '(@nil (sym * sdef))', c_conf(conf),
            c_arg(mb['arg']), env, mb['verdict'],
            clist([ctext(p) for p in mb['created']]) if mb['created'] else '(@nil text)', cbool(mb['home_changed']))

    def info_of(mb):
        root = os.path.dirname(mb['home'])
        return {'level': 'suite', 'input': {'defs': mb['defs'], 'label': mb['label'], 'arg': mb['arg']},
                'suite_directory': {k: v for k, v in mb['files'].items()}, 'run': 'exactly suite the.suite (in the suite directory; '
                'add a file src.txt)', 'judged_member': 'm%d.case' % mb['member'], 'instruction_in_suite_file_phase': mb['phase'],
                'observed': {'verdict_of_member': mb['verdict'], 'stdout': mb['stdout'],
                             'visible_after_the_run': [p.replace(root, '<ROOT>') for p in mb['created']],
                             'home_directory_changed': mb['home_changed']}}
    terms = [term(mb) for mb in members]
    cb, pb, errs = common.run_shards('C12', ['Model.Paths', 'Spec.C12'], 'check_mcase', terms, tag='mcases', shard_size=200)
    res.errors += errs
    for i in pb:
        mb = members[i]
        known = kf_applies(mb['defs'], mb['arg'], True)
        info = info_of(mb)
        info['known_finding_predicate_holds'] = known
        res.prop_failures.append(Failure(
            'property', info, 'run as a member of a suite, a destination whose documented relativity (with the definitions of THIS case) '
            'is not act/tmp/cd was not rejected before execution, or something was created outside the sandbox / in the home directory',
            finding=KF if known else None))
    for i in cb:
        res.disagreements.append(Failure('correspondence', info_of(members[i]),
                                         'the verdict of the case as member of a suite differs from the model of the case run alone'))
    res.evaluations += len(members)
    if members:
        res.samples.append(info_of(members[min(len(members) - 1, 7)]))


def _e(kind, ph, after, defs, arg, label, cd, line_fmt):
    def mk(root):
        home = os.path.join(root, 'home')
        ds = [(d[0], d[1], _subst_root(d[2], home)) if len(d) > 2 else d for d in defs]
        a = _subst_root(arg, home)
        lines = ['[conf]', 'act-home = ../acthome', '[setup]', "file -rel-act src.txt = 'ACT'", "file -rel-tmp src.txt = 'TMP'"]
        lines += ['def ' + render_def(d) for d in ds]
        body = (['dir w', 'cd w', "file src.txt = 'CWD'"] if cd else []) + [line_fmt % render_arg(a)]
        if ph == 'setup':
            lines += body + ['[act]', '$ true']
        else:
            lines += ['[act]', '$ true', '[%s]' % ph] + body
        return {'kind': kind, 'phase': ph, 'after': after, 'defs': ds, 'arg': a, 'label': label, 'cd': cd, 'marker': 'MARK',
                'src': None, 'src_label': None, 'dst_first': False,
                'text': '\n'.join(lines) + '\n', 'instruction': body[-1]}
    return mk


def _e2(ph, after, defs, src, dst, instr, cd):
    def mk(root):
        home = os.path.join(root, 'home')
        ds = [(d[0], d[1], _subst_root(d[2], home)) if len(d) > 2 else d for d in defs]
        a, sa = _subst_root(dst, home), _subst_root(src, home)
        line = ('copy %(src)s %(dst)s' if instr == 'copy' else 'file %(dst)s = -contents-of %(src)s') % {
            'src': render_arg(sa), 'dst': render_arg(a)}
        lines = ['[conf]', 'act-home = ../acthome', '[setup]', "file -rel-act src.txt = 'ACT'", "file -rel-tmp src.txt = 'TMP'"]
        lines += ['def ' + render_def(d) for d in ds]
        body = (['dir w', 'cd w', "file src.txt = 'CWD'"] if cd else []) + [line]
        if ph == 'setup':
            lines += body + ['[act]', '$ true']
        else:
            lines += ['[act]', '$ true', '[%s]' % ph] + body
        return {'kind': 'both', 'phase': ph, 'after': after, 'defs': ds, 'arg': a, 'label': instr + ':destination', 'cd': cd,
                'marker': 'MARK', 'src': sa, 'dst_first': instr == 'file',
                'src_label': ('copy:source:' if instr == 'copy' else 'contents-of:source:') + ('after-act' if after else 'before-act'),
                'text': '\n'.join(lines) + '\n', 'instruction': line}
    return mk


def _subst_root(x, home):
    """replace the placeholder <HOME> in constants of a token / argument"""
    if x is None:
        return None
    if isinstance(x, tuple) and len(x) == 2 and isinstance(x[1], list):  # token
        return (x[0], [(k, v.replace('<HOME>', home)) for k, v in x[1]])
    if isinstance(x, tuple) and len(x) == 2:  # argument
        return (x[0], _subst_root(x[1], home))
    return x


_CONCAT = lambda f: [('S1', 'string', ('soft', [])), ('P2', 'path', f),
                     ('S3', 'string', ('plain', [('s', 'S1'), ('s', 'P2'), ('c', '/new')]))]
_SRC = lambda n: (('none',), ('plain', [('s', n), ('c', '/src.txt')]))
_DST = lambda n: (('none',), ('plain', [('s', n), ('c', '/MARK')]))
E_CORPUS = [
    # regression of a corrected false alarm: the source tmp/sub/../src.txt ("." + "." through a string symbol) - tmp/sub does not
    # exist, the OS says "File does not exist"; the case must be kept out of the judged set by the source guard
    lambda root: _e('read', 'assert', True, [('S2', 'string', ('plain', [('c', '.')]))],
                    (('opt', 'RTmp'), ('plain', [('c', 'sub/.'), ('s', 'S2'), ('c', '/src.txt')])), 'contents-of:source:after-act', False,
                    'file -rel-act a/MARK = -contents-of %s')(root),
    # a forbidden path symbol second in a concatenating string symbol, the string used as path component of a destination
    lambda root: _e('create', 'setup', False, _CONCAT((('here',), ('plain', [('c', '.')]))),
                    (('opt', 'RAct'), ('plain', [('s', 'S3'), ('c', '/MARK')])), 'file:destination', False, "file %s = 'M'")(root),
    lambda root: _e('create', 'cleanup', True, _CONCAT((('opt', 'RHdsCase'), ('plain', [('c', '.')]))),
                    (('none',), ('plain', [('s', 'S3'), ('c', '/MARK')])), 'dir:destination', False, 'dir %s')(root),
    # source and destination through ONE symbol: home (must be VALIDATION_ERROR), absolute home via -rel-here, chain; legal act
    _e2('setup', False, [('P1', 'path', (('opt', 'RHdsCase'), ('plain', [('c', '.')])))], _SRC('P1'), _DST('P1'), 'copy', False),
    _e2('before-assert', True, [('P1', 'path', (('here',), ('plain', [('c', '.')])))], _SRC('P1'),
        (('sym', 'P1'), ('plain', [('c', 'MARK')])), 'copy', False),
    _e2('cleanup', True, [('P1', 'path', (('opt', 'RHdsAct'), ('plain', [('c', '.')]))),
                          ('P2', 'path', (('sym', 'P1'), ('plain', [('c', '.')])))],
        (('sym', 'P2'), ('plain', [('c', 'src.txt')])), _DST('P2'), 'copy', True),
    _e2('assert', True, [('P1', 'path', (('opt', 'RHdsCase'), ('plain', [('c', '.')])))], _SRC('P1'), _DST('P1'), 'file', False),
    _e2('setup', False, [('P1', 'path', (('opt', 'RAct'), ('plain', [('c', '.')])))], _SRC('P1'), _DST('P1'), 'copy', False),
    # Appendix A6: escapes into the home directory (known finding)
    _e('create', 'setup', False, [], (('opt', 'RAct'), ('plain', [('c', '<HOME>/MARK')])), 'file:destination', False, "file %s = 'M'"),
    _e('create', 'setup', False, [('S1', 'string', ('plain', [('c', '<HOME>/MARK')]))], (('opt', 'RAct'), ('plain', [('s', 'S1')])),
       'file:destination', False, "file %s = 'M'"),
    _e('create', 'setup', False, [], (('none',), ('plain', [('c', '<HOME>/MARK')])), 'file:destination', False, "file %s = 'M'"),
    # must be rejected: home relativity through a symbol; through a chain of three
    _e('create', 'setup', False, [('P1', 'path', (('opt', 'RHdsCase'), ('plain', [('c', 'sub')])))],
       (('none',), ('plain', [('s', 'P1'), ('c', '/MARK')])), 'file:destination', False, "file %s = 'M'"),
    _e('create', 'cleanup', True, [('P1', 'path', (('opt', 'RHdsAct'), ('plain', [('c', 'h')]))),
                                  ('P2', 'path', (('sym', 'P1'), ('plain', [('c', 'a')]))),
                                  ('P3', 'path', (('none',), ('plain', [('s', 'P2'), ('c', '/b')])))],
       (('sym', 'P3'), ('plain', [('c', 'MARK')])), 'dir:destination', False, 'dir %s'),
    _e('create', 'assert', True, [], (('opt', 'RHdsCase'), ('plain', [('c', 'MARK')])), 'copy:destination', False,
       'copy -rel-home src.txt %s'),
    # -rel-cd of a symbol is the directory current at the time of use
    _e('create', 'before-assert', True, [('P1', 'path', (('opt', 'RCwd'), ('plain', [('c', 'x')])))],
       (('none',), ('plain', [('s', 'P1'), ('c', '/MARK')])), 'file:destination', True, "file %s = 'M'"),
    _e('read', 'assert', True, [('P1', 'path', (('opt', 'RCwd'), ('plain', [('c', 'src.txt')])))],
       (('none',), ('plain', [('s', 'P1')])), 'copy:source:after-act', True, 'copy %s -rel-tmp MARK'),
    _e('read', 'assert', True, [], (('opt', 'RResult'), ('plain', [('c', 'exit-code')])), 'contents-of:source:after-act', False,
       'file -rel-tmp MARK = -contents-of %s'),
]


def decode_texts(s):
    """make lists of code points in a printed Coq term readable"""
    import re

    def rep(m):
        try:
            return '"' + ''.join(chr(int(x)) for x in re.findall(r'(\d+)(?:%N)?', m.group(0))) + '"'
        except ValueError:
            return m.group(0)
    return re.sub(r'\[\d+(?:%N)?(?:; \d+(?:%N)?)*\](?:%N)?', rep, s)


def chain_depth(defs, arg):
    tbl = _table(defs)

    def nxt(a):
        rel, tok = a
        if rel[0] == 'sym':
            return rel[1]
        if rel[0] == 'none' and tok is not None and tok[1] and tok[1][0][0] == 's':
            return tok[1][0][1]
        return None

    d, a, seen = 0, arg, set()
    while True:
        n = nxt(a)
        if n is None or n in seen or tbl.get(n, (0, ''))[1] != 'path':
            return d
        seen.add(n)
        d += 1
        a = tbl[n][2]


def size_of(ctx, quick, thorough):
    if getattr(ctx, 'c12_search', False):
        return quick * 4
    return quick if ctx.quick else thorough


def search(ctx, res):
    """failing-input search (a proof obligation or the correspondence broke): a larger run with fresh random choices;
    every input on which the property predicate fails on the implementation is returned"""
    ctx.c12_search = True
    # concentrate on the disagreeing inputs: their tables of definitions are reused (70% of the parser / instruction level
    # cases) with freshly generated arguments and argument pairs (60% of the pairs through one symbol)
    seeds = []
    for d in res.disagreements:
        inp = (d.case or {}).get('input') if isinstance(d.case, dict) else None
        if inp and inp.get('defs') and inp['defs'] not in seeds and '<ROOT>' not in repr(inp['defs']) \
                and common.WORK not in repr(inp['defs']):
            seeds.append(inp['defs'])
    ctx.c12_seed_defs = seeds[:60] or None
    r2 = common.Result()
    try:
        run(ctx, r2)
    finally:
        ctx.c12_search = False
        ctx.c12_seed_defs = None
    res.extra['search_seed_tables'] = len(seeds[:60])
    res.extra['search_evaluations'] = r2.evaluations
    return r2.prop_failures


def run(ctx, res):
    scratch = tempfile.mkdtemp(prefix='c12-', dir=ctx.work)
    old = os.getcwd()
    try:
        im = Impl(scratch)
        res.rule = ('PATH arguments generated as abstract syntax: relativity in {none, each of the 6 options, -rel SYMBOL, -rel-here, '
                    'unknown option} x PATH-STRING in {absent, constant of 0..3 components incl. "..", ".", empty, trailing and '
                    'doubled slashes, 10% absolute; leading symbol reference alone / with /suffix / with //suffix / with non-slash '
                    'text; constant with embedded string symbol; hard-quoted reference} x quoting {plain, soft, hard}; after 0..2 '
                    'string definitions (25% referring to an older string, 6% to a path), a chain of 0..3 path definitions '
                    '(each generated the same way, preferring the newest path symbol), rarely a list / line-matcher symbol, an '
                    'undefined symbol or a duplicate definition; argument configuration drawn from the live objects of file, dir, '
                    'copy destination (55%) and copy source, -contents-of, contents, exists, dir-contents, cd (both phases). '
                    'Corpus (Appendix A6 and the shapes of the brief) first. non-trivial := an explicit relativity or a path-symbol '
                    'chain of depth >= 1; distinct := distinct (definitions, argument role, argument)')
        pcases = run_pcases(ctx, res, im)
        run_icases(ctx, res, im, pcases)
        run_i2cases(ctx, res, im, getattr(ctx, 'c12_seed_defs', None))
        run_ecases(ctx, res, im, scratch)
        run_scases(ctx, res, im, scratch)
    finally:
        os.chdir(old)
        shutil.rmtree(scratch, ignore_errors=True)


def _from_json_tok(t):
    return None if t is None else (t[0], [tuple(f) for f in t[1]])


def _from_json_arg(a):
    return (tuple(a[0]), _from_json_tok(a[1]))


def _from_json_def(d):
    if d[1] == 'string':
        return (d[0], 'string', _from_json_tok(d[2]))
    if d[1] == 'path':
        return (d[0], 'path', _from_json_arg(d[2]))
    return tuple(d)


def replay(ctx, payload):
    """re-run one stored input: the stored description, then implementation (parser level) and model side by side"""
    case = payload.get('case') or (payload.get('correspondence_disagreements') or [{}])[0].get('case') or {}
    print(json.dumps({k: v for k, v in case.items() if k != 'input'}, indent=1, default=str))
    inp = case.get('input')
    if not inp:
        return 0
    defs = [_from_json_def(d) for d in inp['defs']]
    arg = _from_json_arg(inp['arg'])
    scratch = tempfile.mkdtemp(prefix='c12-replay-', dir=ctx.work)
    old = os.getcwd()
    try:
        im = Impl(scratch)
        label, creates, obj, conf = {c[0]: c for c in im.confs}[inp['label']]
        dfail, a = im.observe(defs, obj, arg)
        print('implementation now (parser level): definitions %s; argument %s' % (
            'all accepted' if dfail is None else 'definition #%d: %s' % dfail, list(a)))
        term = pcase_term(im, defs, conf, creates, arg, dfail, a)
        outs, raw = common.coq_eval_terms('C12', ['Model.Paths', 'Spec.C12'],
                                          ['model_run %s' % term, 'check_case %s' % term,
                                           'spec_meaning (pc_here %s) (pc_defs %s) (c_default (pc_conf %s)) (pc_arg %s)' % ((term,) * 4)],
                                          tag='replay')
        if outs:
            print('model                            :', decode_texts(outs[0]))
            print('(correspondence, property)       :', outs[1])
            print('documented meaning (spec_meaning):', decode_texts(outs[2]))
        else:
            print(raw[-800:])
        print('known-finding predicate KF-C12-1 holds for this input:', kf_applies(defs, arg, creates))
    finally:
        os.chdir(old)
        shutil.rmtree(scratch, ignore_errors=True)
    return 0
