"""C13, part 2 — `filter -line-nums RANGE...` keeps exactly the lines whose number lies in at least one range.

Implementation side: the real parser (`parse_string_transformer`), the real validator (which parses the
range expressions), the real transformer object (`SingleLineRangeTransformer` / `MultipleLineRangesTransformer`)
applied to constant string sources; ONE transformer object is applied to several texts of different length
(that is what `dir-contents D : every file : contents -transformed-by filter -line-nums ...` does).
Model side: Model/LineNums.v through Spec/C13b.v (`check_lnums_case`), evaluated by vm_compute.

Entry points: `run_part2(ctx, res)` (called at the end of c13.run) and `replay(ctx, payload)`.
"""
import json
import shutil
import tempfile

import common
from common import Failure, cZ, cN, clist
import impl

EXPLANATION_PART2 = ('filter -line-nums: theorems over the Gallina model of range_merge/sources/transformers (Props/C13b.v: '
                     'C13_line_nums_exact and the lemmas it rests on) + differential correspondence of that model with the '
                     'running code, one transformer object applied to several texts.')
ASSUMPTIONS_PART2 = ['filter -line-nums: a Python iterator of lines is modelled as the list of lines not yet consumed, a deque '
                     'as a list; how the resulting string source is stored/frozen (StringSourceWithCachedFrozen, mem_buff_size) '
                     'is outside the model (property C14)',
                     'filter -line-nums: range expressions are integer literals (the integer-expression evaluator is C18\'s)']

WORK_PROP = 'C13'  # work directory / shard prefix (the development driver uses its own)
UNKNOWN_ID = 999999  # an output line that is not one of the input lines
UNKNOWN_LM_ID = 99  # same, for the `filter LINE-MATCHER` cases (ids are indices into c13.CONTENTS)


# ---- ranges: ('s', n) ('l', lo) ('u', hi) ('b', lo, hi)
def src_of_range(r):
    if r[0] == 's':
        return '%d' % r[1]
    if r[0] == 'l':
        return '%d:' % r[1]
    if r[0] == 'u':
        return ':%d' % r[1]
    return '%d:%d' % (r[1], r[2])


def coq_of_range(r):
    if r[0] == 's':
        return '(RSingle %s)' % cZ(r[1])
    if r[0] == 'l':
        return '(RLower %s)' % cZ(r[1])
    if r[0] == 'u':
        return '(RUpper %s)' % cZ(r[1])
    return '(RBoth %s %s)' % (cZ(r[1]), cZ(r[2]))


def all_ranges(b):
    bs = list(range(-b, b + 1))
    return ([('s', a) for a in bs] + [('l', a) for a in bs] + [('u', a) for a in bs]
            + [('b', a, c) for a in bs for c in bs])


def gen_range(rng, n):
    lo, hi = -n - 2, n + 2
    k = rng.below(5)
    if k == 0:
        return ('s', rng.randint(lo, hi))
    if k == 1:
        return ('l', rng.randint(lo, hi))
    if k == 2:
        return ('u', rng.randint(lo, hi))
    return ('b', rng.randint(lo, hi), rng.randint(lo, hi))


def filter_src(ranges):
    return 'filter -line-nums ' + ' '.join(src_of_range(r) for r in ranges)


def text_of(n, final_newline=True):
    s = ''.join('L%d\n' % i for i in range(1, n + 1))
    return s if final_newline or not s else s[:-1]


def ids_of_output(out):
    """the output text as line identifiers (what the property talks about: WHICH lines are kept, in which order)"""
    if out == '':
        return []
    pieces = out.split('\n')
    if pieces[-1] == '':
        pieces.pop()
    ids = []
    for p in pieces:
        if p[:1] == 'L' and p[1:].isdigit() and len(p) < 7:
            ids.append(int(p[1:]))
        else:
            ids.append(UNKNOWN_ID)
    return ids


class LnImpl:
    def __init__(self, tmp):
        from exactly_lib.impls.types.string_transformer import parse_string_transformer
        from exactly_lib.util.symbol_table import SymbolTable
        self.pst, self.SymbolTable = parse_string_transformer, SymbolTable
        self.env = impl.app_env(tmp)

    def transformer(self, ranges):
        """what an instruction does: parse, resolve, validate (this parses the range expressions), make primitive"""
        sdv = impl.parse_full(self.pst, filter_src(ranges))
        ddv = sdv.resolve(self.SymbolTable())
        err = ddv.validator.validate_pre_sds_if_applicable(None)
        if err is not None:
            raise ValueError('validation error for ' + filter_src(ranges))
        err = ddv.validator.validate_post_sds_if_applicable(None)
        if err is not None:
            raise ValueError('post-sds validation error for ' + filter_src(ranges))
        return ddv.value_of_any_dependency(None).primitive(self.env)

    def apply(self, tr, n, final_newline, via):
        """-> (list of line ids | None if an exception escaped, exception text)"""
        try:
            contents = tr.transform(impl.str_source(text_of(n, final_newline), self.env)).contents()
            if via == 'lines':
                with contents.as_lines as lines:
                    out = ''.join(lines)
            else:
                out = contents.as_str
        except Exception as ex:  # an escaping exception is an observation
            return None, '%s: %s' % (type(ex).__name__, ex)
        return ids_of_output(out), None


SUPPLIES = ['file', 'here', 'stdout', 'run', 'chain-identity', 'chain-upper']
# how the text reaches the filter:        source                                   transformers before the filter
#   file            an existing file      -contents-of -rel-act inK.txt
#   here            here-document         <<EOF .. EOF
#   stdout          program output        -stdout-from % cat inK.txt
#   run             a `run` transformer   -contents-of -rel-act inK.txt            VIA_PROGRAM (= run % cat)
#   chain-identity  previous transformer  -contents-of -rel-act inK.txt            identity
#   chain-upper     previous transformer  -contents-of -rel-act inK.txt            char-case -to-upper (texts are upper case)


class E2E:
    """The whole program, in process: a test case file whose [setup] phase supplies texts in the ways the program
    can supply a text (SUPPLIES) and filters them: `file outK.txt = SOURCE -transformed-by ( [PREVIOUS |] filter ... )`;
    the sandbox is kept (--keep) and the output files are read from it.  A control file per text (the same supply
    without the filter) decides whether a failure can be attributed to the filter."""

    def __init__(self, root):
        self.root = root
        self.created = []
        self.mp = impl.main_program(root, on_create=self.created.append)

    @staticmethod
    def case_text(fsrc, texts, supplies, control_only=False):
        lines = ['[setup]', 'def text-transformer VIA_PROGRAM = run % cat']
        for j, (text, sup) in enumerate(zip(texts, supplies)):
            assert text == '' or text.endswith('\n')
            body = text.split('\n')[:-1]
            here = ['<<EOF'] + body + ['EOF']
            lines += ['file in%d.txt = %s' % (j, here[0])] + here[1:]
            src = {'here': '\n'.join(here), 'stdout': '-stdout-from % cat in' + str(j) + '.txt'}.get(
                sup, '-contents-of -rel-act in%d.txt' % j)
            prev = {'run': 'VIA_PROGRAM', 'chain-identity': 'identity', 'chain-upper': 'char-case -to-upper'}.get(sup)
            lines.append('file ctl%d.txt = %s' % (j, src))
            if prev:
                lines.append('  -transformed-by %s' % prev)
            if not control_only:
                lines.append('file out%d.txt = %s' % (j, src))
                if prev:
                    lines += ['  -transformed-by ( %s | %s' % (prev, fsrc), '  )']
                else:
                    lines.append('  -transformed-by %s' % fsrc)
        return '\n'.join(lines) + '\n'

    def _exec(self, text):
        import os
        del self.created[:]
        case = os.path.join(self.root, 'c.case')
        with open(case, 'w') as f:
            f.write(text)
        r = impl.run_main(self.mp, ['--keep', case], self.root, self.root)
        ok = r.exception is None and r.exit_code == 0 and len(self.created) == 1
        return ok, r

    def _cleanup(self):
        for d in self.created:
            shutil.rmtree(d, ignore_errors=True)

    def run_texts(self, fsrc, texts, supplies):
        """-> [(output text | None, detail)] per text, or None if the program cannot even supply the texts without
        the filter (control: not attributed to `filter`)."""
        import os
        ok, r = self._exec(self.case_text(fsrc, texts, supplies))
        if not ok:
            detail = 'exit code %s, stdout %r, exception %r' % (r.exit_code, r.out[-200:], r.exception)
            self._cleanup()
            ok_ctl, _ = self._exec(self.case_text(fsrc, texts, supplies, control_only=True))
            self._cleanup()
            if not ok_ctl:
                return None
            return [(None, detail) for _ in texts]
        act = os.path.join(self.created[0], 'act')
        outs = []
        for j, text in enumerate(texts):
            try:
                with open(os.path.join(act, 'ctl%d.txt' % j)) as f:
                    if f.read() != text:
                        self._cleanup()
                        return None
            except OSError:
                self._cleanup()
                return None
            try:
                with open(os.path.join(act, 'out%d.txt' % j)) as f:
                    outs.append((f.read(), None))
            except OSError as ex:
                outs.append((None, 'output file missing: %s' % ex))
        self._cleanup()
        return outs

    def run(self, ranges, lengths, supplies):
        """`filter -line-nums`: -> runs [(n, True, 'main-program:SUPPLY', ids | None, detail)] or None (control fails)"""
        outs = self.run_texts(filter_src(ranges), [text_of(n) for n in lengths], supplies)
        if outs is None:
            return None
        return [(n, True, 'main-program:' + sup, None if out is None else ids_of_output(out), detail)
                for n, sup, (out, detail) in zip(lengths, supplies, outs)]


def is_e2e(via):
    return via.startswith('main-program')


def gen_supplies(rng, k, choices=SUPPLIES):
    # program output (stdout / run) gets half of the weight: it is the only producer of some string-source classes
    return [rng.choice(['stdout', 'run']) if rng.chance(0.5) and 'stdout' in choices else rng.choice(choices) for _ in range(k)]


def cNlist(xs):
    return clist([str(x) for x in xs], 'N') if xs else '(@nil N)'


def case_term(ranges, runs):
    rs = clist([coq_of_range(r) for r in ranges]) if ranges else '(@nil range)'
    items = []
    for (n, _fnl, _via, obs, _exc) in runs:
        o = 'None' if obs is None else '(Some %s)' % cNlist(obs)
        items.append('(%s, %s)' % (cNlist(list(range(1, n + 1))), o))
    return '(LNCase %s %s)' % (rs, clist(items))


def case_json(ranges, runs):
    e2e = bool(runs) and is_e2e(runs[0][2])
    return {'level': 'line-nums', 'transformer': filter_src(ranges), 'ranges': [list(r) for r in ranges],
            'route': ('test case file run by the main program in process (one transformer object per text)' if e2e
                      else 'one transformer object applied to the texts in order'),
            'test_case_file': (E2E.case_text(filter_src(ranges), [text_of(r[0]) for r in runs],
                                             [r[2].split(':', 1)[1] for r in runs]) if e2e else None),
            'runs_of_one_transformer_object_in_order': [
                {'text_lines': n, 'final_newline': fnl, 'read_via': via,
                 'impl_output_line_numbers': obs, 'impl_exception': exc} for (n, fnl, via, obs, exc) in runs]}


CORPUS = [
    # (ranges, text lengths in order)
    ([('u', -4), ('s', -1)], [5, 3, 5, 0]),  # negative ranges, texts of different length through one object
    ([('s', 1), ('s', 2)], [0, 1, 2, 3]),  # (1,1) becomes head, adjacent single lines
    ([('b', 2, 3), ('l', 4)], [5, 3]),  # body segment adjacent to tail -> merged
    ([('u', 2), ('l', 3)], [4]),  # head + 1 >= tail -> everything
    ([('b', -3, 2), ('b', 2, -3)], [0, 1, 4, 6]),
    ([('s', 0), ('u', 0), ('b', 0, 0)], [0, 2]),  # only zero: empty
    ([('l', 0), ('s', 3)], [0, 2, 4]),
    ([('b', 5, 2), ('b', -2, -5), ('s', 2)], [3, 6]),  # reversed bounds
    ([('s', -9), ('l', -9)], [3]),  # negative beyond the start
    ([('b', 2, 2), ('b', 4, 5), ('b', 7, 9), ('s', -1)], [12, 6, 3]),
]


def run_part2(ctx, res):
    rng = ctx.rng
    quick = ctx.quick
    tmp = tempfile.mkdtemp(prefix='c13b-', dir=ctx.work)
    im = LnImpl(tmp)
    cases = []  # (ranges, runs)

    def add(ranges, lengths, kind, fnl_p=0.0):
        tr = im.transformer(ranges)
        runs = []
        for n in lengths:
            fnl = not (n > 0 and fnl_p and rng.chance(fnl_p))
            via = 'lines' if rng.chance(0.3) else 'str'
            obs, exc = im.apply(tr, n, fnl, via)
            runs.append((n, fnl, via, obs, exc))
        cases.append((ranges, runs))
        res.count('line-nums: ' + kind)
        res.count('line-nums: applications of a transformer to a text', len(runs))
        proper = [1 for (n, _f, _v, obs, _e) in runs if obs is not None and 0 < len(obs) < n]
        if proper:
            res.nontrivial.add(('n', tuple(ranges), tuple(lengths)))

    for ranges, lengths in CORPUS:
        add(ranges, lengths, 'corpus')
    # 1. every single range with bounds in [-B, B] x every text of 0..B-2 lines
    b1 = 7 if quick else 10
    for r in all_ranges(b1):
        lengths = list(range(0, b1 - 1))
        rng.shuffle(lengths)
        add([r], lengths, 'single range (exhaustive, bounds in [-%d,%d], texts of 0..%d lines)' % (b1, b1, b1 - 2))
    # 1b. random single ranges with larger bounds on longer texts (pockets of up to ~45 lines)
    for _ in range(600 if quick else 6000):
        n = rng.randint(8, 40)
        r = gen_range(rng, n)
        lengths = [n] + [rng.randint(0, n + 3) for _ in range(2)]
        rng.shuffle(lengths)
        add([r], lengths, 'single range (random, bounds in [-N-2,N+2], N in 8..40)', fnl_p=0.2)
    # 2. every pair of ranges with bounds in [-B2, B2] x every text of 0..B2+1 lines
    b2 = 3 if quick else 4
    small = all_ranges(b2)
    for r1 in small:
        for r2 in small:
            lengths = list(range(0, b2 + 2))
            rng.shuffle(lengths)
            add([r1, r2], lengths, 'two ranges (exhaustive, bounds in [-%d,%d], texts of 0..%d lines)' % (b2, b2, b2 + 1))
    # 3. random lists of 2..4 ranges (sometimes 5..6), bounds in [-N-2, N+2], texts of 0..N lines
    for _ in range(3000 if quick else 40000):
        n = rng.randint(0, 12)
        k = rng.randint(2, 4) if not rng.chance(0.1) else rng.randint(5, 6)
        ranges = [gen_range(rng, n) for _ in range(k)]
        lengths = [n] + [rng.randint(0, n) for _ in range(rng.randint(1, 3))]
        rng.shuffle(lengths)
        add(ranges, lengths, 'random list of %d ranges' % k, fnl_p=0.2)
    # 4. the whole program: test case files run by the main program (parser, symbol resolution, validation, file
    #    sources instead of constant strings)
    e2e = E2E(tmp)
    for j in range(150 if quick else 1500):
        n = rng.randint(0, 9)
        k = rng.randint(1, 4)
        ranges = [gen_range(rng, n) for _ in range(k)]
        lengths = [n] + [rng.randint(0, n) for _ in range(2)]
        rng.shuffle(lengths)
        runs = e2e.run(ranges, lengths, gen_supplies(rng, len(lengths)))
        if runs is None:
            res.count('line-nums: main-program runs dropped because the control (same case without the filter) fails')
            continue
        cases.append((ranges, runs))
        res.count('line-nums: test case file run by the main program, %d range(s)' % k)
        for r in runs:
            res.count('line-nums: main program, text supplied by: ' + r[2].split(':', 1)[1])
        res.count('line-nums: applications of a transformer to a text', len(runs))
        if [1 for (m, _f, _v, obs, _e) in runs if obs is not None and 0 < len(obs) < m]:
            res.nontrivial.add(('e', tuple(ranges), tuple(lengths)))
    # 5. `filter LINE-MATCHER` through the whole program with the same "how the text is supplied" dimension
    #    (expected value: Model/Interval.v through Spec/C13.v check_lcase, as in part 1)
    import c13
    lm_impl = c13.Impl(tmp)
    lm_cases = []  # (e, ids, iv, truth, out_ids, supply, detail, case file)
    for j in range(60 if quick else 600):
        n = rng.randint(0, 8)
        e = c13.gen_lm(rng, rng.randint(1, 3), n)
        id_lists = [[rng.below(len(c13.CONTENTS)) for _ in range(m)] for m in (n, rng.randint(0, n))]
        supplies = gen_supplies(rng, len(id_lists), ['file', 'here', 'stdout', 'run', 'chain-identity'])
        texts = [''.join(c13.CONTENTS[c] + '\n' for c in ids) for ids in id_lists]
        fsrc = 'filter ' + c13.src_of(e)
        outs = e2e.run_texts(fsrc, texts, supplies)
        if outs is None:
            res.count('line-matcher: main-program runs dropped because the control (same case without the filter) fails')
            continue
        for ids, sup, (out, detail) in zip(id_lists, supplies, outs):
            iv, truth, _out_of_object = lm_impl.obs_lm(e, ids)
            if out is None:
                out_ids = [UNKNOWN_LM_ID]
            else:
                pieces = out.split('\n')
                if pieces[-1] == '':
                    pieces.pop()
                out_ids = [c13.CONTENTS.index(x) if x in c13.CONTENTS else UNKNOWN_LM_ID for x in pieces]
            lm_cases.append((e, ids, iv, truth, out_ids, sup, detail, E2E.case_text(fsrc, texts, supplies)))
            res.count('line-matcher: main program, text supplied by: ' + sup)
            if c13.nontrivial(e):
                res.nontrivial.add(('le', repr(e), tuple(ids), sup))
    shutil.rmtree(tmp, ignore_errors=True)
    res.evaluations += len(lm_cases)
    cb, pb, errs = common.run_shards(WORK_PROP, ['Model.Interval', 'Spec.C13'], 'check_lcase',
                                     [c13.lcase_term(*c[:5]) for c in lm_cases], tag='lcases_e2e')
    res.errors += errs

    def lm_json(c):
        e, ids, iv, truth, out_ids, sup, detail, case_file = c
        return {'level': 'line-matcher', 'route': 'test case file run by the main program in process',
                'filter': c13.src_of(e), 'lines': [c13.CONTENTS[i] for i in ids], 'text_supplied_by': sup,
                'impl_interval': str(iv), 'matcher_truth_per_line': truth,
                'impl_output': [c13.CONTENTS[i] if i < len(c13.CONTENTS) else '<not an input line / no output>' for i in out_ids],
                'impl_failure': detail, 'test_case_file': case_file}
    for i in pb:
        res.prop_failures.append(Failure('property', lm_json(lm_cases[i]),
                                         'filter output (whole program) differs from the lines the real matcher accepts'))
    for i in cb:
        res.disagreements.append(Failure('correspondence', lm_json(lm_cases[i]),
                                         'model filter output differs from the whole program\'s output'))

    res.evaluations += len(cases)
    res.rule += (' || part 2 (filter -line-nums): every single range (4 forms) with bounds in [-B,B] x every text of 0..B-2 lines; '
                 'every pair of ranges with small bounds x every short text; random lists of 2..6 ranges with bounds in '
                 '[-N-2,N+2], N <= 12; each transformer OBJECT is applied to several texts of different length in random '
                 'order (one case = one object); non-trivial := some application keeps a non-empty proper subset of the '
                 'lines; distinct := distinct (ranges, text lengths); plus random single ranges on texts of up to 43 lines, and test '
                 'case files run by the whole program in process (`file out = SOURCE -transformed-by ( [PREVIOUS |] filter ... )`, both '
                 '`filter -line-nums` and `filter LINE-MATCHER`), the text supplied as existing file / here-document / program '
                 'stdout / output of a `run` transformer / output of a previous transformer')
    ex = cases[len(CORPUS) + 100]
    res.samples.append({'transformer': filter_src(cases[0][0]),
                        'runs (text lines -> kept line numbers)': [[n, obs] for (n, _f, _v, obs, _e) in cases[0][1]]})
    res.samples.append({'transformer': filter_src(ex[0]),
                        'runs (text lines -> kept line numbers)': [[n, obs] for (n, _f, _v, obs, _e) in ex[1]]})
    cb, pb, errs = common.run_shards(WORK_PROP, ['Model.LineNums', 'Spec.C13b'], 'check_lnums_case',
                                     [case_term(*c) for c in cases], tag='lncases')
    res.errors += errs
    for i in pb:
        res.prop_failures.append(Failure('property', case_json(*cases[i]),
                                         'the output of `filter -line-nums` is not exactly the lines whose number lies in '
                                         'at least one of the ranges (negative numbers counting from the end)'))
    for i in cb:
        res.disagreements.append(Failure('correspondence', case_json(*cases[i]),
                                         'model line_nums_transform differs from the implementation'))


def replay(ctx, payload):
    """Re-run one stored case on the implementation (a fresh transformer object, the stored texts in order)
    and on the model / reference semantics."""
    case = payload.get('case') or (payload.get('correspondence_disagreements') or [{}])[0].get('case')
    print(json.dumps(case, indent=1, default=str))
    if not case or case.get('level') != 'line-nums':
        return 0
    ranges = [tuple(r) for r in case['ranges']]
    tmp = tempfile.mkdtemp(prefix='c13b-replay-', dir=ctx.work)
    im = LnImpl(tmp)
    stored = case['runs_of_one_transformer_object_in_order']
    if stored and is_e2e(stored[0]['read_via']):
        runs = E2E(tmp).run(ranges, [r['text_lines'] for r in stored], [r['read_via'].split(':', 1)[1] for r in stored])
        if runs is None:
            print('the control case (same test case without the filter) fails: not attributable to filter -line-nums')
            return 0
    else:
        tr = im.transformer(ranges)
        runs = []
        for r in stored:
            obs, exc = im.apply(tr, r['text_lines'], r['final_newline'], r['read_via'])
            runs.append((r['text_lines'], r['final_newline'], r['read_via'], obs, exc))
    shutil.rmtree(tmp, ignore_errors=True)
    rs = clist([coq_of_range(r) for r in ranges])
    terms = []
    for (n, *_rest) in runs:
        ls = cNlist(list(range(1, n + 1)))
        terms.append('(line_nums_transform %s %s, line_nums_spec %s %s)' % (rs, ls, rs, ls))
    vals, raw = common.coq_eval_terms(WORK_PROP, ['Model.LineNums', 'Spec.C13b'], terms, tag='lnreplay')
    rc = 0
    for k, (n, fnl, via, obs, exc) in enumerate(runs):
        print('text of %d lines: implementation now -> %s%s' % (n, obs, '' if exc is None else ' (' + exc + ')'))
        print('   (model line_nums_transform, reference line_nums_spec) = %s' % (vals[k] if vals else raw[-300:]))
    term = case_term(ranges, runs)
    v, raw = common.coq_eval_terms(WORK_PROP, ['Model.LineNums', 'Spec.C13b'], ['check_lnums_case %s' % term], tag='lnreplay2')
    print('(correspondence, property) =', v[0] if v else raw[-300:])
    if not v or 'false' in v[0]:
        rc = 1
    return rc


if __name__ == '__main__':  # development driver: part 2 alone (needs coq/Model/LineNums.vo, coq/Spec/C13b.vo)
    import sys
    WORK_PROP = 'C13b_dev'
    c = common.Ctx(WORK_PROP, sys.argv[1] if len(sys.argv) > 1 else 'quick', 20260926)
    r = common.Result()
    run_part2(c, r)
    print('evaluations', r.evaluations, 'nontrivial', len(r.nontrivial), 'disagreements', len(r.disagreements),
          'prop_failures', len(r.prop_failures), 'errors', r.errors[:2])
    for f in (r.disagreements + r.prop_failures)[:3]:
        print(f.kind, json.dumps(f.case)[:600])
    print(json.dumps(r.distribution, indent=1))
