import importlib
import sys

import common

if __name__ == '__main__':
    if len(sys.argv) < 2:
        print('usage: check Cxx [--tier quick|thorough] [--replay FILE]')
        sys.exit(2)
    prop = sys.argv[1].upper()
    module = importlib.import_module(prop.lower())
    sys.exit(common.main_check(prop, module, sys.argv[2:]))
