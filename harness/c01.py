"""C01 — phased execution protocol.  Correspondence harness.

Implementation side: `full_execution.execute` driven with recording stub instructions (subclasses of the public
instruction base classes) and a stub Actor / ActionToCheck, passed through the public `test_case_doc.TestCase`.
Every stub method records (phase, step, index[, previous phase]) and then behaves as planned: returns success / validation
error / hard error / fail, raises HardErrorException, or raises another exception.  Model side: Model/Exec.v
(`full_execute`) and the property predicate `P_C01` of Spec/C01.v, evaluated by vm_compute.

Also used by C04 (cwd / environ / sandbox directory observations are recorded for every execution).
"""
import os
import pathlib
import shutil
import tempfile

import common
from common import Failure, cnat, cbool, clist, copt
import impl  # noqa: F401  (sets sys.path)

EXPLANATION = ('Theorems (Props/C01.v): the Gallina model of _PartialExecutor / full_execution refines a declarative protocol '
               'specification for all instruction lists and all failure placements; corollaries are the clauses of C01.')
ASSUMPTIONS = ['instructions are stubs: what a real instruction does inside a step is outside this property',
               'act/validate-exe-input is driven through the setup settings (stdin installed by the first setup instruction); with '
               'zero setup instructions the step cannot fail and its event is inserted before act/prepare by the harness']

PHASES = ['Conf', 'Setup', 'Act', 'BeforeAssert', 'Assert', 'Cleanup']
STEPS = {'0:act-parse': 'SActParse', '1:validate-symbols': 'SValSym', '2:validate-pre-sds': 'SValPre',
         '3:validate-post-setup': 'SValPost', '4:act-validate-exe-input': 'SValExeInput', '5:act-prepare': 'SPrepare',
         '6:act-execute': 'SExecute', '9:main': 'SMain'}
PHASE_ID = {'conf': 'Conf', 'setup': 'Setup', 'act': 'Act', 'before-assert': 'BeforeAssert', 'assert': 'Assert',
            'cleanup': 'Cleanup'}
STEPS_OF = {
    'Conf': ['SMain'],
    'Setup': ['SValSym', 'SValPre', 'SMain', 'SValPost'],
    'Act': ['SActParse', 'SValSym', 'SValPre', 'SValPost', 'SValExeInput', 'SPrepare', 'SExecute'],
    'BeforeAssert': ['SValSym', 'SValPre', 'SValPost', 'SMain'],
    'Assert': ['SValSym', 'SValPre', 'SValPost', 'SMain'],
    'Cleanup': ['SValSym', 'SValPre', 'SMain'],
}


def admissible(p, k):
    """behaviours the return type of the step admits (mirrors Model/Exec.v [admissible])"""
    out = ['BHardRaise', 'BExn']
    if (p, k) == ('Act', 'SActParse'):
        out.append('BSyntax')
    if k in ('SValSym', 'SValPre', 'SValPost') or (p, k) == ('Conf', 'SMain'):
        out.append('BValErr')
    if k not in ('SValSym', 'SActParse'):
        out.append('BHardRet')
    if (p, k) == ('Assert', 'SMain'):
        out.append('BFail')
    return out


class World:
    """what the stubs record during one execution"""

    def __init__(self):
        self.trace = []
        self.cwd_at = {}
        self.sandbox_seen = False


def build_case(plan, world, home):
    """plan: {'counts': {phase: n}, 'faults': {(phase, idx, step): beh}, 'status': 'PASS|FAIL|SKIP', 'act_only': bool}"""
    from exactly_lib.test_case.phases.configuration import ConfigurationPhaseInstruction
    from exactly_lib.test_case.phases.setup.instruction import SetupPhaseInstruction
    from exactly_lib.test_case.phases.before_assert import BeforeAssertPhaseInstruction
    from exactly_lib.test_case.phases.assert_ import AssertPhaseInstruction
    from exactly_lib.test_case.phases.cleanup import CleanupPhaseInstruction, PreviousPhase
    from exactly_lib.test_case.phases.act.actor import Actor, ActionToCheck, ParseException
    from exactly_lib.test_case.phases.act.adv_w_validation import AdvWValidation
    from exactly_lib.test_case.result import svh, sh, pfh, eh
    from exactly_lib.test_case.result.failure_details import FailureDetails
    from exactly_lib.test_case.hard_error import HardErrorException
    from exactly_lib.test_case.test_case_status import TestCaseStatus
    from exactly_lib.test_case import test_case_doc
    from exactly_lib.common.report_rendering import text_docs
    from exactly_lib.symbol.sdv_structure import SymbolReference
    from exactly_lib.type_val_deps.sym_ref.w_str_rend_restrictions import reference_restrictions
    from exactly_lib.section_document.model import SectionContents
    from exactly_lib.section_document.element_builder import SectionContentElementBuilder
    from exactly_lib.section_document.source_location import FileLocationInfo
    from exactly_lib.util.line_source import LineSequence

    faults = plan['faults']
    msg = text_docs.single_pre_formatted_line_object('planned failure')

    def beh(p, i, k):
        return faults.get((p, i, k), 'BOk')

    class PlannedError(Exception):
        pass

    # "any other exception": the class must not matter (OS errors, look-up errors, custom classes, ...)
    # ... and the program's own exception classes, which have a meaning only at ONE kind of step (ParseException: act/parse;
    # SingleInstructionInvalidArgumentException: instruction parsing) and are "any other exception" everywhere else
    from exactly_lib.test_case.phases.act.actor import ParseException
    from exactly_lib.section_document.element_parsers.instruction_parser_exceptions import \
        SingleInstructionInvalidArgumentException
    exn_classes = [ValueError, FileNotFoundError, KeyError, PermissionError, RuntimeError, PlannedError, OSError, IndexError,
                   NotImplementedError, AssertionError, UnicodeDecodeError, TimeoutError, ParseException,
                   SingleInstructionInvalidArgumentException]
    exn_counter = [plan.get('exn_offset', 0)]

    def raise_if(b, at_act_parse=False):
        if b == 'BHardRaise':
            raise HardErrorException(msg)
        if b == 'BExn':
            cls = exn_classes[exn_counter[0] % len(exn_classes)]
            exn_counter[0] += 1
            if cls is ParseException and at_act_parse:
                cls = PlannedError  # at act/parse a ParseException is the documented way to report a syntax error
            if cls is UnicodeDecodeError:
                raise UnicodeDecodeError('utf-8', b'\xff', 0, 1, 'planned exception')
            if cls is ParseException:
                raise ParseException(msg)
            raise cls('planned exception')

    def rec(p, k, i, prev=None):
        world.trace.append((p, k, i, prev))
        world.cwd_at[len(world.trace)] = os.getcwd()
        if (p, i, k) in plan.get('chdir', ()):  # an instruction that changes the current directory (used by C04)
            os.chdir(plan['chdir_target'])

    def r_svh(b):
        raise_if(b)
        return {'BOk': svh.new_svh_success, 'BValErr': lambda: svh.new_svh_validation_error(msg),
                'BHardRet': lambda: svh.new_svh_hard_error(msg)}[b]()

    def r_sh(b):
        raise_if(b)
        return sh.new_sh_success() if b == 'BOk' else sh.new_sh_hard_error(msg)

    def r_pfh(b):
        raise_if(b)
        return {'BOk': pfh.new_pfh_pass, 'BFail': lambda: pfh.new_pfh_fail(msg),
                'BHardRet': lambda: pfh.new_pfh_hard_error(msg)}[b]()

    def usages(b):
        raise_if(b)
        if b == 'BValErr':
            return [SymbolReference('UNDEFINED_SYMBOL', reference_restrictions.is_any_type_w_str_rendering())]
        return []

    class ExeInputStdin(AdvWValidation):
        def validate(self):
            rec('Act', 'SValExeInput', 0)
            b = beh('Act', 0, 'SValExeInput')
            raise_if(b)
            return msg if b == 'BHardRet' else None

        def resolve(self, environment):
            return None

    def mk(p, i):
        class Common:
            def symbol_usages(self):
                rec(p, 'SValSym', i)
                return usages(beh(p, i, 'SValSym'))

            def validate_pre_sds(self, environment):
                rec(p, 'SValPre', i)
                return r_svh(beh(p, i, 'SValPre'))

            def validate_post_setup(self, environment):
                rec(p, 'SValPost', i)
                return r_svh(beh(p, i, 'SValPost'))

        if p == 'Conf':
            class I(ConfigurationPhaseInstruction):
                def main(self, configuration_builder):
                    rec(p, 'SMain', i)
                    if plan['status'] != 'PASS' and i == plan.get('status_at', 0):
                        configuration_builder.set_test_case_status(TestCaseStatus[plan['status']])
                    return r_svh(beh(p, i, 'SMain'))
            return I()
        if p == 'Setup':
            class I(Common, SetupPhaseInstruction):
                def main(self, environment, settings, os_services, settings_builder):
                    rec(p, 'SMain', i)
                    world.sds_root = str(environment.sds.root_dir)
                    if i == 0:
                        settings_builder.stdin = ExeInputStdin()
                    return r_sh(beh(p, i, 'SMain'))
            return I()
        if p == 'BeforeAssert':
            class I(Common, BeforeAssertPhaseInstruction):
                def main(self, environment, settings, os_services):
                    rec(p, 'SMain', i)
                    return r_sh(beh(p, i, 'SMain'))
            return I()
        if p == 'Assert':
            class I(Common, AssertPhaseInstruction):
                def main(self, environment, settings, os_services):
                    rec(p, 'SMain', i)
                    return r_pfh(beh(p, i, 'SMain'))
            return I()
        if p == 'Cleanup':
            class I(Common, CleanupPhaseInstruction):
                def main(self, environment, settings, os_services, previous_phase):
                    rec(p, 'SMain', i, {PreviousPhase.SETUP: 'PSetup', PreviousPhase.ACT: 'PAct',
                                        PreviousPhase.BEFORE_ASSERT: 'PBeforeAssert',
                                        PreviousPhase.ASSERT: 'PAssert'}[previous_phase])
                    world.sds_root = str(environment.sds.root_dir)
                    world.sds_exists_in_cleanup = os.path.isdir(world.sds_root)
                    return r_sh(beh(p, i, 'SMain'))
            return I()
        raise ValueError(p)

    class Atc(ActionToCheck):
        def symbol_usages(self):
            rec('Act', 'SValSym', 0)
            return usages(beh('Act', 0, 'SValSym'))

        def validate_pre_sds(self, environment):
            rec('Act', 'SValPre', 0)
            return r_svh(beh('Act', 0, 'SValPre'))

        def validate_post_setup(self, environment):
            rec('Act', 'SValPost', 0)
            return r_svh(beh('Act', 0, 'SValPost'))

        def prepare(self, environment, os_services):
            rec('Act', 'SPrepare', 0)
            return r_sh(beh('Act', 0, 'SPrepare'))

        def execute(self, environment, os_services, atc_input, output):
            rec('Act', 'SExecute', 0)
            world.cwd_at_execute = os.getcwd()
            world.sds_root = str(environment.sds.root_dir)
            world.sds_layout = sorted(os.path.relpath(os.path.join(dp, d), world.sds_root)
                                      for dp, ds, fs in os.walk(world.sds_root) for d in ds)
            b = beh('Act', 0, 'SExecute')
            raise_if(b)
            if b == 'BHardRet':
                return eh.new_eh_hard_error(FailureDetails.new_constant_message('planned'))
            output.out.write('ATC-STDOUT')
            return eh.new_eh_exit_code(plan.get('exit_code', 0))

    class TheActor(Actor):
        def parse(self, instructions):
            rec('Act', 'SActParse', 0)
            b = beh('Act', 0, 'SActParse')
            if b == 'BSyntax':
                raise ParseException(msg)
            raise_if(b, at_act_parse=True)
            return Atc()

    def section(p):
        b = SectionContentElementBuilder(FileLocationInfo(pathlib.Path(home)))
        return SectionContents(tuple(b.new_instruction(LineSequence(n + 1, ('%s %d' % (p, n),)), mk(p, n))
                                     for n in range(plan['counts'][p])))

    tc = test_case_doc.TestCase(section('Conf'), section('Setup'), SectionContents(()), section('BeforeAssert'),
                                section('Assert'), section('Cleanup'))
    return tc, TheActor()


def execute_plan(plan, sandbox_root, home, keep=False):
    from exactly_lib.execution.full_execution import execution as full_execution
    from exactly_lib.execution.configuration import ExecutionConfiguration
    from exactly_lib.test_case.phases.configuration import ConfigurationBuilder
    from exactly_lib.impls.os_services import os_services_access
    from exactly_lib.util.name_and_value import NameAndValue
    from exactly_lib.util.file_utils.std import StdOutputFiles
    world = World()
    world.sandbox_dir_probe = None
    world.sds_root = None
    world.sds_layout = None
    world.cwd_at_execute = None
    world.sds_exists_in_cleanup = None
    tc, actor = build_case(plan, world, home)
    created = []

    def mk_sds_dir():
        d = tempfile.mkdtemp(prefix='sds-', dir=sandbox_root)
        created.append(d)
        world.trace.append(('SANDBOX',))
        return d

    act_files = None
    fo = fe = None
    if plan['act_only']:
        fo = open(os.path.join(sandbox_root, 'act-out'), 'w')
        fe = open(os.path.join(sandbox_root, 'act-err'), 'w')
        act_files = StdOutputFiles(fo, fe)
    conf = ExecutionConfiguration(lambda: dict(os.environ), None, 5, os_services_access.new_for_current_os(), mk_sds_dir,
                                  2 ** 10, None, act_files)
    cb = ConfigurationBuilder(pathlib.Path(home), pathlib.Path(home), NameAndValue('stub actor', actor))
    cwd0 = os.getcwd()
    env0 = dict(os.environ)
    exc = None
    result = None
    try:
        result = full_execution.execute(conf, cb, keep, tc)
    except BaseException as ex:
        if isinstance(ex, KeyboardInterrupt):
            raise
        exc = ex
    finally:
        if fo:
            fo.close()
            fe.close()
    world.cwd_after = os.getcwd()
    world.cwd_restored = world.cwd_after == cwd0
    if not world.cwd_restored:
        os.chdir(cwd0)
    world.environ_same = dict(os.environ) == env0
    if not world.environ_same:
        os.environ.clear()
        os.environ.update(env0)
    world.created = created
    world.exists_after = [os.path.isdir(d) for d in created]
    return world, result, exc


def c_plan(plan):
    def instr(p, i):
        fs = [(k, b) for (pp, ii, k), b in plan['faults'].items() if pp == p and ii == i]
        if not fs:
            return 'ok_instr'
        body = 'BOk'
        for k, b in fs:
            body = 'if stepk_eqb k %s then %s else %s' % (k, b, body)
        return '(fun k => %s)' % body

    def lst(p):
        n = plan['counts'][p]
        return clist([instr(p, i) for i in range(n)]) if n else '(@nil instr)'

    return '(TC %s %s %s %s %s %s %s %s)' % (lst('Conf'), lst('Setup'), instr('Act', 0), lst('BeforeAssert'), lst('Assert'),
                                            lst('Cleanup'), {'PASS': 'TPass', 'FAIL': 'TFail', 'SKIP': 'TSkip'}[plan['status']],
                                            cbool(plan['act_only']))


def c_event(e):
    if e[0] == 'SANDBOX':
        return 'ESandbox'
    p, k, i, prev = e
    return '(EInstr %s %s %s %s)' % (p, k, cnat(i), 'None' if prev is None else '(Some %s)' % prev)


def observe(world, result, plan=None):
    if plan is not None and plan['counts']['Setup'] == 0:
        # no setup instruction installed the recording stdin: the (always succeeding) act/validate-exe-input step is
        # not visible; it happens immediately before act/prepare
        tr = []
        for e in world.trace:
            if e[:2] == ('Act', 'SPrepare'):
                tr.append(('Act', 'SValExeInput', 0, None))
            tr.append(e)
        world.trace = tr
    step = None
    if result.failure_info is not None:
        ps = result.failure_info.phase_step
        step = (PHASE_ID[ps.phase.identifier], STEPS[ps.step])
    return {'trace': world.trace, 'status': result.status.name, 'failing': step, 'has_sds': bool(result.has_sds),
            'has_atc': bool(result.has_action_to_check_outcome)}


def c_obs(o):
    return '(C01Obs %s %s %s %s %s)' % (clist([c_event(e) for e in o['trace']]) if o['trace'] else '(@nil event)', o['status'],
                                        'None' if o['failing'] is None else '(Some (%s, %s))' % o['failing'],
                                        cbool(o['has_sds']), cbool(o['has_atc']))


def plan_desc(plan):
    return {'counts': plan['counts'], 'faults': {'%s[%d].%s' % k: v for k, v in plan['faults'].items()},
            'status': plan['status'], 'act_only': plan['act_only'], 'status_set_by_conf_instruction': plan.get('status_at', 0)}


def gen_plans(ctx):
    """exhaustive single faults (x optional cleanup fault) over small counts, then random multi-fault plans"""
    rng = ctx.rng
    plans = []
    count_choices = [dict(Conf=1, Setup=2, BeforeAssert=2, Assert=2, Cleanup=2),
                     dict(Conf=2, Setup=1, BeforeAssert=1, Assert=1, Cleanup=1)]
    if not ctx.quick:
        count_choices += [dict(Conf=1, Setup=3, BeforeAssert=0, Assert=3, Cleanup=2),
                          dict(Conf=0, Setup=1, BeforeAssert=2, Assert=0, Cleanup=3)]
    for counts in count_choices:
        counts = dict(counts, Act=1)
        single = [None]
        for p in PHASES:
            for k in STEPS_OF[p]:
                for i in range(counts[p]):
                    for b in admissible(p, k):
                        single.append(((p, i, k), b))
        cleanup_faults = [None] + [(('Cleanup', i, 'SMain'), b) for i in range(counts['Cleanup']) for b in ('BHardRet', 'BHardRaise', 'BExn')]
        for s in single:
            for cf in cleanup_faults:
                if s is not None and cf is not None and s[0] == cf[0]:
                    continue
                faults = {}
                if s:
                    faults[s[0]] = s[1]
                if cf:
                    faults[cf[0]] = cf[1]
                combos = [('PASS', False)]
                if ctx.quick:
                    combos.append(rng.choice([('FAIL', False), ('SKIP', False), ('PASS', True), ('FAIL', True)]))
                else:
                    combos += [('FAIL', False), ('SKIP', False), ('PASS', True), ('FAIL', True), ('SKIP', True)]
                for status, act_only in combos:
                    plans.append({'counts': counts, 'faults': dict(faults), 'status': status, 'act_only': act_only,
                                  'status_at': 0})
    # random plans: counts 0..3, 0..4 faults anywhere
    for _ in range(1500 if ctx.quick else 40000):
        counts = {p: rng.randint(0, 3) for p in PHASES}
        counts['Act'] = 1
        if rng.chance(0.7):
            counts['Setup'] = max(counts['Setup'], 1)
        faults = {}
        for _ in range(rng.choice([0, 1, 1, 2, 2, 3, 4])):
            p = rng.choice(PHASES)
            if counts[p] == 0:
                continue
            k = rng.choice(STEPS_OF[p])
            faults[(p, rng.below(counts[p]), k)] = rng.choice(admissible(p, k))
        status = rng.choice(['PASS', 'PASS', 'FAIL', 'SKIP'])
        plan = {'counts': counts, 'faults': faults, 'status': status, 'act_only': rng.chance(0.2),
                'status_at': rng.below(max(1, counts['Conf']))}
        plans.append(plan)
    # normalise: status can only be set by a conf instruction; exe-input fault needs a setup instruction
    out = []
    for n_plan, pl in enumerate(plans):
        pl['exn_offset'] = n_plan
        if pl['status'] != 'PASS' and pl['counts']['Conf'] == 0:
            pl['status'] = 'PASS'
        if ('Act', 0, 'SValExeInput') in pl['faults'] and pl['counts']['Setup'] == 0:
            del pl['faults'][('Act', 0, 'SValExeInput')]
        # a status set by conf instruction n is only in force if no earlier-or-same conf instruction fails
        out.append(pl)
    return out


def effective_status(pl):
    return pl['status']


def run_plans(ctx, res, plans, prop='C01'):
    root = tempfile.mkdtemp(prefix='c01-', dir=ctx.work)
    home = os.path.join(root, 'home')
    sbx = os.path.join(root, 'sandboxes')
    os.makedirs(home)
    os.makedirs(sbx)
    records = []
    old = os.getcwd()
    os.chdir(home)
    try:
        for pl in plans:
            world, result, exc = execute_plan(pl, sbx, home)
            records.append((pl, world, result, exc))
            for d in world.created:
                shutil.rmtree(d, ignore_errors=True)
    finally:
        os.chdir(old)
        shutil.rmtree(root, ignore_errors=True)
    return records


def gen_tables(ctx):
    common.source_tie('C01')  # small pure functions translated from the source and proved equal to the model (DESIGN 12.8)


def run(ctx, res):
    plans = gen_plans(ctx)
    res.rule = ('exhaustive single faults: every phase step x every instruction position x every failure kind admissible at that '
                'step, alone and combined with every failing cleanup instruction (position x kind), for two shapes of instruction '
                'counts, under status PASS (+ one of FAIL/SKIP/--act per plan in quick, all in thorough); then random plans with 0..3 '
                'instructions per phase and 0..4 faults anywhere. non-trivial := at least one fault; distinct := distinct plan')
    records = run_plans(ctx, res, plans)
    terms, meta = [], []
    for pl, world, result, exc in records:
        d = plan_desc(pl)
        if exc is not None or result is None:
            res.prop_failures.append(Failure('property', d, 'exception escaped full_execution.execute: %r' % exc))
            continue
        o = observe(world, result, pl)
        terms.append('(C01Case %s %s)' % (c_plan(pl), c_obs(o)))
        meta.append({'plan': d, 'observed': {**o, 'trace': ['%s' % (e,) for e in o['trace']]}})
        res.count('faults: %d' % len(pl['faults']))
        res.count('status %s%s' % (pl['status'], ' --act' if pl['act_only'] else ''))
        if pl['faults']:
            res.nontrivial.add(repr(sorted(d.items(), key=str)))
    res.evaluations = len(terms)
    res.samples = [meta[3], meta[len(meta) // 3], meta[-1]]
    cb, pb, errs = common.run_shards('C01', ['Model.Outcome', 'Model.Exec', 'Spec.C01', 'Props.C01'], 'check_c01', terms, shard_size=300)
    res.errors += errs
    for i in pb:
        res.prop_failures.append(Failure('property', meta[i], 'observed trace/result violates the protocol (validation first, halt at '
                                                              'first failure, cleanup exactly once iff sandbox, outcome names a failing step, '
                                                              'never pass after a failure)'))
    for i in cb:
        res.disagreements.append(Failure('correspondence', meta[i], 'model full_execute differs from full_execution.execute'))
    if not ctx.quick:
        run_coqchk(res)


def run_coqchk(res):
    """thorough tier: re-check every compiled Props file and all it depends on with the independent checker"""
    import re
    import subprocess
    # bring EVERY compiled file up to date first (each check builds only its own cone; a .vo outside this cone may be older than
    # a model it imports, which the independent checker rightly refuses as "inconsistent assumptions")
    br = common.coq_build(keep_going=True)
    if br.ok:
        mods = ['Exactly.Props.' + fn[:-2] for fn in sorted(os.listdir(os.path.join(common.COQ, 'Props')))
                if fn.endswith('.v') and os.path.exists(os.path.join(common.COQ, 'Props', fn + 'o'))]
    else:
        # something outside this property's cone does not build (reported by that property's own check): re-check this cone only
        mods = ['Exactly.Props.C01', 'Exactly.Props.SrcTie_C01']
        res.extra['coqchk_scope'] = 'C01 cone only: the full project does not build (%s)' % '; '.join(
            '%s:%s' % (b[0], b[1]) for b in br.broken[:5])
    try:
        p = subprocess.run(['timeout', '3000', 'coqchk', '-silent', '-o', '-R', '.', 'Exactly'] + mods, cwd=common.COQ,
                           stdout=subprocess.PIPE, stderr=subprocess.STDOUT, text=True)
        out = p.stdout
        m = re.search(r'CONTEXT SUMMARY.*', out, re.S)
        res.extra['coqchk'] = {'modules': mods, 'exit': p.returncode, 'summary': ' '.join((m.group(0) if m else out[-1500:]).split())}
        if p.returncode != 0:
            res.errors.append('coqchk failed: ' + out[-800:])
    except OSError as ex:
        res.errors.append('coqchk could not be run: %r' % ex)


def replay(ctx, payload):
    import json
    print(json.dumps(payload.get('case'), indent=1, default=str))
    return 0
