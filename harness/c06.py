"""C06 — expression grammar: precedence, associativity, parentheses and layout.  Correspondence harness.

Implementation side: the real `GrammarParsers` (`.full` / `.simple`, `parsers(must_be_on_current_line)`) of the six host
types (integer, line, text, file, files matchers; text transformers) applied to source text rendered from generated
token sequences; the structure that was built is read back through the public `structure()` tree of the resolved
primitive, the unconsumed source through `ParseSource.remaining_source`; matchers are evaluated with `matches_w_trace`
(laziness = which operand traces are present), transformers with `transform`.  A second stream runs whole test cases
through the real main program (`exit-code`, `contents`, `exists`, `dir-contents`, `-transformed-by`) and observes the verdict.
Model side: Model/Expr.v through Spec/C06.v (`check_case`, `check_ecase`), evaluated by vm_compute.

`gen_tables` writes coq/Gen/C06_grammar.v: operator tables and operator truth tables read from the live `Grammar` objects.
"""
import json
import os
import pathlib
import shutil
import tempfile

import common
from common import Failure, cN, cnat, cbool, clist
import impl

EXPLANATION = ('Theorems over the Gallina model of expression/parser.py (_Parser), the TokenParser primitives it uses and '
               'combinator_matchers / sequence.py (Props/C06.v): every permitted rendering of every tree parses to that tree '
               'modulo flatten (any number of precedence levels), everything the parser accepts is such a rendering, '
               'lazy left-to-right evaluation, left-to-right composition; operator tables of the six host types regenerated '
               'from the live Grammar objects; differential correspondence of the model with the running parser.')
ASSUMPTIONS = ['token level: a primitive together with its arguments is one word, rendered on one line; tokenisation (shlex, '
               'quoting) is property C09',
               'the set of permitted line breaks is the one fixed in DESIGN.md section 6 C06 (the manual does not define it)',
               'leaf matchers/transformers are oracles: their values on the model used are computed with the real leaf alone']
TRUSTED_EXTRA = ['harness/c06.py: rendering of tokens to source text, read-back of the structure() tree, alignment of the '
                 'matching trace with the structure']

W_LP, W_RP, W_NOT, W_OR, W_AND, W_PIPE = 0, 1, 2, 3, 4, 5
SIZES = {}
OP_WORD = {'(': W_LP, ')': W_RP, '!': W_NOT, '||': W_OR, '&&': W_AND, '|': W_PIPE}
WORD_STR = {v: k for k, v in OP_WORD.items()}
JUNK = {300: 'no-such-primitive', 301: '%junk', 302: '-x', 303: '&', 304: '||x', 305: '&&&', 306: '|||'}
# damaged operators that are valid symbol NAMES: only ever put in operator position (see [mutate]), where the parser does
# not classify the word
WORD_LIKE_OPS = {307: 'and', 308: 'or'}
DAMAGED = {W_AND: [303, 305, 307, W_PIPE], W_OR: [W_PIPE, 306, 308, 303], W_PIPE: [W_OR, 303, 308, 306]}

HOSTS = [
    dict(name='integer-matcher', mod='exactly_lib.impls.types.integer_matcher.parse_integer_matcher', vt='INTEGER_MATCHER',
         matcher=True, leaves=['== 1', '!= 2', '< 3', '>= 2', 'constant true', 'constant false', '<= 2', '> 3'],
         syms=['== 71', '<= 72', '== 73', '<= 74', '>= 75']),
    dict(name='line-matcher', mod='exactly_lib.impls.types.line_matcher.parse_line_matcher', vt='LINE_MATCHER',
         # (no leaf takes a TEXT-SOURCE: `equals X` would accept a following `-transformed-by ...` token as its own option,
         #  so a leaf would not be one word when another leaf is put next to it in the malformed stream)
         matcher=True, leaves=['line-num == 1', 'line-num > 1', 'contents is-empty', "contents matches ^a$", 'constant true',
                               'constant false', 'line-num <= 2', 'line-num >= 3'],
         syms=['line-num == 71', 'line-num <= 72', 'line-num == 73', 'line-num <= 74', 'line-num >= 75']),
    dict(name='text-matcher', mod='exactly_lib.impls.types.string_matcher.parse_string_matcher', vt='STRING_MATCHER',
         matcher=True, leaves=['is-empty', 'num-lines == 1', 'num-lines > 1', 'matches ^a', 'matches b', 'constant true',
                               'constant false',
                               # primitives whose LAST argument is a simple expression (of this or another type)
                               "-transformed-by char-case -to-upper matches A", "every line : contents matches ^a$",
                               'any line : line-num > 1'],
         syms=['num-lines == 71', 'num-lines <= 72', 'num-lines == 73', 'num-lines <= 74', 'num-lines >= 75']),
    dict(name='file-matcher', mod='exactly_lib.impls.types.file_matcher.parse_file_matcher', vt='FILE_MATCHER',
         matcher=True, leaves=['type file', 'type dir', 'name f.txt', "name '*.txt'", 'constant true', 'constant false',
                               "contents matches ^a$", 'dir-contents num-files == 1', 'dir-contents -recursive is-empty'],
         syms=['name no-such-name', 'type symlink', 'name other-73', 'name g.txt', 'name other-75']),
    dict(name='files-matcher', mod='exactly_lib.impls.types.files_matcher.parse_files_matcher', vt='FILES_MATCHER',
         matcher=True, leaves=['is-empty', 'num-files == 1', 'num-files > 1', 'constant true', 'constant false',
                               '-selection name f.txt num-files == 1', '-selection type dir is-empty',
                               '-with-pruned name sub num-files > 1', 'every file : type file', 'any file : name g.txt'],
         syms=['num-files == 71', 'num-files <= 72', 'num-files == 73', 'num-files <= 74', 'num-files >= 75']),
    dict(name='text-transformer', mod='exactly_lib.impls.types.string_transformer.parse_string_transformer',
         vt='STRING_TRANSFORMER', matcher=False,
         leaves=['identity', 'char-case -to-upper', 'char-case -to-lower', 'replace a b', 'replace b c', 'replace c a',
                 'filter line-num == 1', "filter contents matches ^a$", 'replace -at line-num == 1 a b'],
         struct_only=[6, 7, 8],   # not character maps: used for the structure only, never evaluated
         syms=['replace A c', 'replace B a', 'replace C b', 'replace b A', 'replace a C']),
]
SYM_NAMES = ['SYM_A', 'SYM_B']   # the symbols every host defines, referenced by their plain names
_HOST_SYMBOLS = {}


def host_symbols(host):
    """[(source text of the reference, symbol name, source of the definition)] = the words 200, 201, ...:
    two symbols referenced by plain name, one referenced as @[NAME]@, and symbols whose NAMES are names of primitives
    of the same host type (taken from the live grammar; up to two, argument-less primitives first), which can only be
    referenced as @[NAME]@ (the plain name is the primitive) and are defined with a value that differs from the
    primitive's"""
    if host['name'] not in _HOST_SYMBOLS:
        import importlib
        from exactly_lib.symbol import symbol_syntax
        g = importlib.import_module(host['mod']).GRAMMAR
        homonyms = sorted((n for n in g.primitives if symbol_syntax.is_symbol_name(n)),
                          key=lambda n: (n not in ('identity', 'strip', 'constant'), n))[:2]
        if not homonyms:
            raise RuntimeError('no primitive of %s has a name that is a symbol name' % host['name'])
        syms = [('SYM_A', 'SYM_A'), ('SYM_B', 'SYM_B'), ('@[SYM_C]@', 'SYM_C')] + [('@[%s]@' % n, n) for n in homonyms]
        for text, name in syms:
            assert symbol_syntax.parse_symbol_reference__from_str(text) == (name if text != name else None), text
        _HOST_SYMBOLS[host['name']] = [(t, n, body) for (t, n), body in zip(syms, host['syms'])]
    return _HOST_SYMBOLS[host['name']]
ALPHABET = 'abcABC \n'

# contexts that take a SIMPLE expression of another type: (outer host, source before, inner host, path of child indices from
# the root of the outer structure tree to the inner tree)
NESTED = [
    # outer host, source before, inner host, path to the inner tree (int = child, ('d', i) = tree detail i), source after
    ('line-matcher', 'line-num', 'integer-matcher', [0], ''),
    ('text-matcher', 'num-lines', 'integer-matcher', [0], ''),
    ('files-matcher', 'num-files', 'integer-matcher', [0], ''),
    ('line-matcher', 'contents', 'text-matcher', [0], ''),
    ('file-matcher', 'contents', 'text-matcher', [0], ''),
    ('text-transformer', 'filter', 'line-matcher', [0], ''),
    ('text-matcher', 'every line :', 'line-matcher', [0], ''),
    ('text-matcher', 'any line :', 'line-matcher', [0], ''),
    ('file-matcher', 'dir-contents', 'files-matcher', [0], ''),
    ('file-matcher', 'dir-contents -recursive', 'files-matcher', [0], ''),
    ('text-matcher', '-transformed-by', 'text-transformer', [('d', 0)], 'is-empty'),
    ('files-matcher', '-selection', 'file-matcher', [('d', 0)], 'is-empty'),
    ('files-matcher', '-with-pruned', 'file-matcher', [('d', 0)], 'is-empty'),
    ('files-matcher', 'every file :', 'file-matcher', [0], ''),
    ('files-matcher', 'any file :', 'file-matcher', [0], ''),
    ('text-transformer', 'replace -at', 'line-matcher', [('hv', 0, 0)], 'a b'),
    # the same type again as the last argument
    ('files-matcher', '-selection name f.txt', 'files-matcher', [0], ''),
    ('files-matcher', '-with-pruned name sub', 'files-matcher', [0], ''),
    ('text-matcher', '-transformed-by char-case -to-upper', 'text-matcher', [0], ''),
]
W_CTX = 150


# ---------------------------------------------------------------------------------------------
# expressions, decorated expressions, tokens (Python mirrors used ONLY to generate and to print; every judgement is made
# by the Coq functions of Spec/C06.v on the emitted terms)
#   expr : ('L', w) | ('P', op, e) | ('I', op, [e..])
#   dexpr: ('W', nl, w) | ('P', nl, op, d) | ('R', nl, d, nl_close) | ('I', op, d0, [(nl, d)..])
#   token: ('w', quoted, w) | ('nl',)
# ---------------------------------------------------------------------------------------------
def levels_of(host):
    return [W_OR, W_AND] if host['matcher'] else [W_PIPE]


def gen_expr(rng, host, depth, width, syms=True):
    lv = levels_of(host)
    r = rng.below(10)
    if depth <= 0 or r < 3:
        if syms and rng.chance(0.12):
            return ('L', 200 + rng.below(len(host_symbols(host))))
        return ('L', 100 + rng.below(len(host['leaves'])))
    if host['matcher'] and r < 5:
        return ('P', W_NOT, gen_expr(rng, host, depth - 1, width, syms))
    op = rng.choice(lv)
    return ('I', op, [gen_expr(rng, host, depth - 1, width, syms) for _ in range(rng.randint(2, width))])


def level_of_expr(host, e):
    lv = levels_of(host)
    return lv.index(e[1]) if e[0] == 'I' else len(lv)


def decorate(rng, host, e, k, nl_p, paren_p):
    """a decorated tree for [e] that may stand at level k; every token gets line breaks with probability nl_p"""
    def nl():
        return rng.randint(1, 2) if rng.chance(nl_p) else 0

    n_lv = len(levels_of(host))
    if e[0] == 'L':
        d = ('W', nl(), e[1])
        j = n_lv
    elif e[0] == 'P':
        d = ('P', nl(), e[1], decorate(rng, host, e[2], n_lv, nl_p, paren_p))
        j = n_lv
    else:
        j = levels_of(host).index(e[1])
        ds = [decorate(rng, host, x, j + 1, nl_p, paren_p) for x in e[2]]
        d = ('I', e[1], ds[0], [(nl(), x) for x in ds[1:]])
    need = j < k
    n_par = (1 if need else 0) + (rng.weighted([(0, 6), (1, 3), (2, 1)]) if rng.chance(paren_p) else 0)
    for _ in range(n_par):
        d = ('R', nl(), d, nl())
    return d


def set_leading_nl(d, n):
    if d[0] == 'W':
        return ('W', n, d[2])
    if d[0] == 'P':
        return ('P', n, d[2], d[3])
    if d[0] == 'R':
        return ('R', n, d[2], d[3])
    return ('I', d[1], set_leading_nl(d[2], n), d[3])


def make_permitted(host, d, free, k):
    """remove the line breaks that DESIGN C06 does not permit (mirror of Spec/C06.v [lay]; the Coq function decides)"""
    n_lv = len(levels_of(host))
    if d[0] == 'W':
        return d
    if d[0] == 'P':
        return ('P', d[1], d[2], make_permitted(host, d[3], True, n_lv))
    if d[0] == 'R':
        return ('R', d[1], make_permitted(host, d[2], True, 0), d[3])
    j = levels_of(host).index(d[1])
    free_here = free if j == k else True
    return ('I', d[1], make_permitted(host, d[2], True, j + 1),
            [(nl if free_here else 0, make_permitted(host, x, False, j + 1)) for nl, x in d[3]])


def make_unpermitted(rng, host, d, free, k):
    """put a line break before an operator where DESIGN C06 does not permit one (if the tree has such a place)"""
    n_lv = len(levels_of(host))
    if d[0] == 'W':
        return d
    if d[0] == 'P':
        return ('P', d[1], d[2], make_unpermitted(rng, host, d[3], True, n_lv))
    if d[0] == 'R':
        return ('R', d[1], make_unpermitted(rng, host, d[2], True, 0), d[3])
    j = levels_of(host).index(d[1])
    free_here = free if j == k else True
    rest = [(nl, make_unpermitted(rng, host, x, False, j + 1)) for nl, x in d[3]]
    if not free_here:
        i = rng.below(len(rest))
        rest[i] = (rng.randint(1, 2), rest[i][1])
    return ('I', d[1], make_unpermitted(rng, host, d[2], True, j + 1), rest)


def render(d):
    if d[0] == 'W':
        return [('nl',)] * d[1] + [('w', False, d[2])]
    if d[0] == 'P':
        return [('nl',)] * d[1] + [('w', False, d[2])] + render(d[3])
    if d[0] == 'R':
        return [('nl',)] * d[1] + [('w', False, W_LP)] + render(d[2]) + [('nl',)] * d[3] + [('w', False, W_RP)]
    out = render(d[2])
    for nl, x in d[3]:
        out += [('nl',)] * nl + [('w', False, d[1])] + render(x)
    return out


def erase(d):
    if d[0] == 'W':
        return ('L', d[2])
    if d[0] == 'P':
        return ('P', d[2], erase(d[3]))
    if d[0] == 'R':
        return erase(d[2])
    return ('I', d[1], [erase(d[2])] + [erase(x) for _, x in d[3]])


def n_ops(e):
    if e[0] == 'L':
        return set()
    if e[0] == 'P':
        return {e[1]} | n_ops(e[2])
    s = {e[1]}
    for x in e[2]:
        s |= n_ops(x)
    return s


def word_source(host, w):
    if w in WORD_STR:
        return WORD_STR[w]
    if w == 999:
        return '<unknown-node>'
    if 100 <= w < 200:
        return host['leaves'][w - 100]
    if 200 <= w < 300:
        return host_symbols(host)[w - 200][0]
    return JUNK[w] if w in JUNK else WORD_LIKE_OPS[w]


def to_source(rng, host, toks):
    """source text and the offset at which each token starts"""
    out, offs = [], []
    pos = 0

    def emit(s):
        nonlocal pos
        out.append(s)
        pos += len(s)

    if rng.chance(0.2):
        emit(' ' * rng.randint(1, 2))
    for i, t in enumerate(toks):
        if t[0] == 'nl':
            if rng.chance(0.3):
                emit(rng.choice([' ', '  ', '\t']))
            offs.append(pos)
            emit('\n')
            if rng.chance(0.4):
                emit(' ' * rng.randint(1, 3))
        else:
            if i > 0 and toks[i - 1][0] != 'nl':
                emit(rng.choice([' ', ' ', ' ', '  ', ' \t']))
            offs.append(pos)
            s = word_source(host, t[2])
            if t[1]:
                s = rng.choice(["'%s'", '"%s"']) % s
            emit(s)
    if rng.chance(0.15):
        emit(' ')
    return ''.join(out), offs


def c_tok(t):
    return 'TNL' if t[0] == 'nl' else '(TW %s %s)' % (cbool(t[1]), cN(t[2]))


def c_toks(ts):
    return clist([c_tok(t) for t in ts]) if ts else '(@nil tok)'


def c_expr(e):
    if e[0] == 'L':
        return '(ELeaf %s)' % cN(e[1])
    if e[0] == 'P':
        return '(EPre %s %s)' % (cN(e[1]), c_expr(e[2]))
    return '(EInf %s %s)' % (cN(e[1]), clist([c_expr(x) for x in e[2]]))


def c_dexpr(d):
    if d[0] == 'W':
        return '(DWord %s %s)' % (cnat(d[1]), cN(d[2]))
    if d[0] == 'P':
        return '(DPre %s %s %s)' % (cnat(d[1]), cN(d[2]), c_dexpr(d[3]))
    if d[0] == 'R':
        return '(DPar %s %s %s)' % (cnat(d[1]), c_dexpr(d[2]), cnat(d[3]))
    return '(DInf %s %s %s)' % (cN(d[1]), c_dexpr(d[2]),
                                clist(['(%s, %s)' % (cnat(nl), c_dexpr(x)) for nl, x in d[3]]) if d[3] else '(@nil (nat * dexpr))')


def c_trace(t):
    return '(TR %s %s %s)' % (cN(t[0]), cbool(t[1]), clist([c_trace(x) for x in t[2]]) if t[2] else '(@nil trace)')


def src_of_expr(host, e):
    """one-line source, fully parenthesised (for messages)"""
    if e[0] == 'L':
        return word_source(host, e[1])
    if e[0] == 'P':
        return '! ' + src_of_expr(host, e[2])
    return '( ' + (' ' + WORD_STR[e[1]] + ' ').join(src_of_expr(host, x) for x in e[2]) + ' )'


# ---------------------------------------------------------------------------------------------
# the implementation
# ---------------------------------------------------------------------------------------------
def detail_sig(d):
    from exactly_lib.util.description_tree import tree
    if isinstance(d, tree.StringDetail):
        return 'S(%s)' % str(d.string)
    if isinstance(d, tree.PreFormattedStringDetail):
        return 'F(%s)' % str(d.object_with_to_string)
    if isinstance(d, tree.HeaderAndValueDetail):
        return 'H(%s:%s)' % (str(d.header), ','.join(detail_sig(x) for x in d.values))
    if isinstance(d, tree.IndentedDetail):
        return 'I(%s)' % ','.join(detail_sig(x) for x in d.details)
    if isinstance(d, tree.TreeDetail):
        return 'T(%s)' % node_sig(d.tree)
    raise ValueError('unknown detail %r' % d)


def trace_data(n):
    """a trace node as plain data; every detail object is rendered exactly ONCE (some render lazily from generators)"""
    return (n.header, bool(n.data), ';'.join(detail_sig(d) for d in n.details), [trace_data(c) for c in n.children])


def sig_of_data(t):
    return '%s=%s[%s]{%s}' % (t[0], t[1], t[2], ';'.join(sig_of_data(c) for c in t[3]))


def trace_sig(n):
    return sig_of_data(trace_data(n))


def node_sig(n):
    return '%s[%s]{%s}' % (n.header, ';'.join(detail_sig(d) for d in n.details), ';'.join(node_sig(c) for c in n.children))


class HostImpl:
    def __init__(self, host, tmp, env):
        import importlib
        from exactly_lib.symbol.sdv_structure import container_of_builtin
        from exactly_lib.symbol.value_type import ValueType
        from exactly_lib.util.symbol_table import SymbolTable
        self.host = host
        self.env = env
        self.mod = importlib.import_module(host['mod'])
        g = self.mod.GRAMMAR
        # the words the generator uses must be classified by the real grammar as the model's [std_class] says
        from exactly_lib.symbol import symbol_syntax
        prim0 = lambda s: s.split()[0]  # noqa: E731
        for s in host['leaves']:
            assert prim0(s) in g.primitives, (host['name'], s)
        for s in SYM_NAMES:
            assert symbol_syntax.is_symbol_name(s) and s not in g.primitives and s not in g.custom_reserved_words, s
        for s in list(JUNK.values()) + list(OP_WORD):
            assert not symbol_syntax.is_symbol_name(s) and s not in g.primitives, s
            assert symbol_syntax.parse_symbol_reference__from_str(s) is None, s
        assert not g.custom_reserved_words, 'reserved words appeared: extend the generator'
        self.symbols = SymbolTable({})
        self.symbols = SymbolTable({
            nm: container_of_builtin(getattr(ValueType, host['vt']), self.parse_alone(body))
            for _, nm, body in host_symbols(host)})
        self.sig2leaf = {}
        self.leaf_prim = {}
        self.unparseable = set()
        # the oracle for a symbol is its DEFINITION (the value of a reference is the value of what the symbol was defined as)
        for i, s in list(enumerate(host['leaves'], 100)) + list(enumerate([x[2] for x in host_symbols(host)], 200)):
            try:
                p = self.primitive(self.parse_alone(s))
            except Exception:
                # the operand cannot even be parsed alone.  It stays in the repertoire: the cases that contain it are then
                # syntax errors where the model reads a leaf - failing inputs, not a harness error
                self.unparseable.add(i)
                continue
            sig = node_sig(p.structure().render())
            assert sig not in self.sig2leaf, 'leaves not distinguishable: %s' % sig
            assert p.structure().render().header not in OP_WORD, sig
            self.sig2leaf[sig] = i
            self.leaf_prim[i] = p
        self.models = self.make_models(tmp)
        self.leaf_tab = {}
        self.tsig2leaf = {}
        if host['matcher']:
            for mi in range(len(self.models)):
                self.leaf_tab[mi] = {i: False for i in self.unparseable}
                self.tsig2leaf[mi] = {}
                for i, p in self.leaf_prim.items():
                    try:
                        r = p.matches_w_trace(self.model(mi))
                    except Exception:
                        # the leaf cannot be applied to this model (e.g. `contents` on a directory).  An evaluation that
                        # raises is dropped (see observe); if it does not raise the leaf was not evaluated, and the value
                        # of an expression does not depend on operands lazy evaluation skips: any placeholder will do.
                        self.leaf_tab[mi][i] = False
                        continue
                    self.leaf_tab[mi][i] = bool(r.value)
                    sig = trace_sig(r.trace.render())
                    assert sig not in self.tsig2leaf[mi], 'leaf traces not distinguishable: %s' % sig
                    assert r.trace.render().header not in OP_WORD, sig
                    self.tsig2leaf[mi][sig] = i
        else:
            self.leaf_tab = {i: (False, []) for i in self.unparseable}
            for i, p in self.leaf_prim.items():
                if i - 100 in host.get('struct_only', ()):
                    continue
                m = []
                for ch in ALPHABET:
                    o = p.transform(impl.str_source(ch, self.env)).contents().as_str
                    assert len(o) == 1, (host['leaves'], ch, o)
                    if o != ch:
                        m.append((ord(ch), ord(o)))
                self.leaf_tab[i] = (bool(p.is_identity_transformer), m)

    def parse_alone(self, s):
        from exactly_lib.section_document.parse_source import ParseSource
        return self.mod.parsers(False).full.parse(ParseSource(s))

    def primitive(self, sdv):
        return sdv.resolve(self.symbols).value_of_any_dependency(None).primitive(self.env)

    def make_models(self, tmp):
        nm = self.host['name']
        if nm == 'integer-matcher':
            return [0, 1, 2, 3, 71]
        if nm == 'line-matcher':
            return [(1, 'a'), (1, ''), (2, 'a'), (3, 'b'), (71, '')]
        if nm == 'text-matcher':
            return ['', 'a', 'a\nb\n', 'b\n']
        if nm in ('file-matcher', 'files-matcher'):
            from exactly_lib.type_val_deps.types.path import path_ddvs
            root = pathlib.Path(tmp) / ('m-' + nm)
            (root / 'd0').mkdir(parents=True)
            (root / 'd1').mkdir()
            (root / 'd1' / 'f.txt').write_text('a')
            (root / 'd2').mkdir()
            (root / 'd2' / 'f.txt').write_text('a')
            (root / 'd2' / 'g.txt').write_text('')
            (root / 'd2' / 'sub').mkdir()
            ps = ([root / 'd1' / 'f.txt', root / 'd2' / 'g.txt', root / 'd0', root / 'no-such-file']
                  if nm == 'file-matcher' else [root / 'd0', root / 'd1', root / 'd2'])
            return [path_ddvs.absolute_path(p).value_when_no_dir_dependencies__d() for p in ps]
        return None

    def model(self, mi):
        nm = self.host['name']
        m = self.models[mi]
        if nm == 'text-matcher':
            return impl.str_source(m, self.env)
        if nm == 'file-matcher':
            from exactly_lib.impls.types.file_matcher import file_matcher_models
            return file_matcher_models.FileMatcherModelForDescribedPath(m)
        if nm == 'files-matcher':
            from exactly_lib.impls.types.files_matcher import models
            return models.non_recursive(m)
        return m

    # ---- observation -----------------------------------------------------------------------
    def expr_of_node(self, n):
        h = n.header
        if h == '!' and len(n.children) == 1 and not n.details:
            return ('P', W_NOT, self.expr_of_node(n.children[0]))
        if h in ('&&', '||', '|') and not n.details and len(n.children) >= 1 and node_sig(n) not in self.sig2leaf:
            return ('I', OP_WORD[h], [self.expr_of_node(c) for c in n.children])
        # a node that is neither an operator nor a known leaf gets the word 999: the Coq check then fails for the
        # case (a failing input is reported), it is not a harness error
        return ('L', self.sig2leaf.get(node_sig(n), 999))

    def trace_of(self, mi, n):
        """the matching trace, canonicalised WITHOUT reference to the structure: (label, value, children);
        a node that is not an operator node is a leaf, identified by the trace the leaf alone gives on model mi
        (an unknown trace gets label 999: the Coq check then fails for the case, it is not a harness error)"""
        return self._canon_trace(mi, trace_data(n))

    def _canon_trace(self, mi, t):
        h, value, details, children = t
        if h == '!' and len(children) == 1 and not details:
            return (W_NOT, value, [self._canon_trace(mi, children[0])])
        if h in ('&&', '||') and not details and children and sig_of_data(t) not in self.tsig2leaf[mi]:
            return (OP_WORD[h], value, [self._canon_trace(mi, c) for c in children])
        return (self.tsig2leaf[mi].get(sig_of_data(t), 999), value, [])

    def parse(self, source, simple, must_cur, path=()):
        """('err',) | ('ok', expr, number of chars consumed, primitive of the expression or None)"""
        from exactly_lib.section_document.parse_source import ParseSource
        from exactly_lib.section_document.element_parsers.instruction_parser_exceptions import \
            SingleInstructionInvalidArgumentException
        src = ParseSource(source)
        ps = self.mod.parsers(must_cur)
        try:
            sdv = (ps.simple if simple else ps.full).parse(src)
        except SingleInstructionInvalidArgumentException:
            return ('err',)
        consumed = len(source) - len(src.remaining_source)
        try:
            p = self.primitive(sdv)
            n = p.structure().render()
            for i in path:
                n = follow_path(n, i)
        except Exception:
            # what was parsed cannot be resolved / has no such part (e.g. a primitive name read as a symbol reference):
            # an accepted input with an unknown structure - the Coq check fails for the case, not a harness error
            return ('ok', None, consumed, None)
        return ('ok', self.expr_of_node(n) if not path else n, consumed, p)


def follow_path(n, i):
    if isinstance(i, tuple) and i[0] == 'd':
        return n.details[i[1]].tree
    if isinstance(i, tuple) and i[0] == 'hv':
        return n.details[i[1]].values[i[2]].tree
    return n.children[i]


def rest_tokens(toks, offs, consumed):
    return [t for t, o in zip(toks, offs) if o >= consumed]


# ---------------------------------------------------------------------------------------------
# gen_tables (T)
# ---------------------------------------------------------------------------------------------
def gen_tables(ctx):
    common.source_tie('C06')  # util/interval combinations translated from the source and proved equal to Model/Interval.v
    import importlib
    from exactly_lib.section_document.parse_source import ParseSource
    from exactly_lib.util.symbol_table import SymbolTable
    from exactly_lib.symbol import symbol_syntax
    rows, truth = [], []
    tmp = tempfile.mkdtemp(prefix='c06-gen-', dir=ctx.work)
    try:
        env = impl.app_env(tmp)
        for hi, host in enumerate(HOSTS):
            mod = importlib.import_module(host['mod'])
            g = mod.GRAMMAR
            levels = [[OP_WORD[nv.name] for nv in lvl] for lvl in g.infix_ops_inc_precedence__seq]
            # the dict view the parser uses must agree with the sequence view
            assert [sorted(d.keys()) for d in g.infix_ops_inc_precedence] == \
                   [sorted(nv.name for nv in lvl) for lvl in g.infix_ops_inc_precedence__seq]
            prefix = [OP_WORD[k] for k in g.prefix_operators]
            for nm in [nv.name for lvl in g.infix_ops_inc_precedence__seq for nv in lvl] + list(g.prefix_operators) + ['(', ')']:
                assert not symbol_syntax.is_symbol_name(nm) and nm not in g.primitives, nm
            rows.append('(%s, (%s, %s, %s))' % (cnat(hi), cbool(host['matcher']),
                                                clist([clist([cN(w) for w in lvl]) for lvl in levels]),
                                                clist([cN(w) for w in prefix]) if prefix else '(@nil N)'))
            if host['matcher']:
                # truth tables of the operators as built by mk_expression, on constant operands
                def val(src):
                    sdv = mod.parsers(False).full.parse(ParseSource(src))
                    return sdv.resolve(SymbolTable()).value_of_any_dependency(None).primitive(env)
                hm = HostImpl(host, os.path.join(tmp, 'h%d' % hi), env)
                for lvl in g.infix_ops_inc_precedence__seq:
                    for nv in lvl:
                        for a in (False, True):
                            for b in (False, True):
                                for c in (False, True):
                                    s = 'constant %s %s constant %s %s constant %s' % (
                                        str(a).lower(), nv.name, str(b).lower(), nv.name, str(c).lower())
                                    v = bool(val(s).matches_w_trace(hm.model(0)).value)
                                    truth.append('(%s, %s, %s, %s)' % (cnat(hi), cN(OP_WORD[nv.name]),
                                                                      clist([cbool(a), cbool(b), cbool(c)]), cbool(v)))
                for k in g.prefix_operators:
                    for a in (False, True):
                        v = bool(val('%s constant %s' % (k, str(a).lower())).matches_w_trace(hm.model(0)).value)
                        truth.append('(%s, %s, %s, %s)' % (cnat(hi), cN(OP_WORD[k]), clist([cbool(a)]), cbool(v)))
    finally:
        shutil.rmtree(tmp, ignore_errors=True)
    ctx_rows = []
    by_name = {h['name']: i for i, h in enumerate(HOSTS)}
    for ci, (outer, before, inner, path, after) in enumerate(NESTED):
        mod = importlib.import_module(HOSTS[by_name[outer]]['mod'])
        inner_host = HOSTS[by_name[inner]]
        a, b = ('constant true', 'constant false') if inner_host['matcher'] else ('identity', 'strip')
        for op in levels_of(inner_host):
            src = '%s %s %s %s %s' % (before, a, WORD_STR[op], b, after)
            try:
                sdv = mod.parsers(False).full.parse(ParseSource(src))
            except Exception as ex:
                from exactly_lib.section_document.element_parsers.instruction_parser_exceptions import \
                    SingleInstructionInvalidArgumentException
                if not isinstance(ex, SingleInstructionInvalidArgumentException):
                    raise
                ends_before = True    # the operator was not taken as part of the argument (and nothing else wants it)
            else:
                n = sdv.resolve(SymbolTable()).structure().render()
                while n.header in OP_WORD:     # the outer structure: ( CTX a ) op b
                    n = n.children[0]
                for i in path:
                    n = follow_path(n, i)
                ends_before = n.header not in OP_WORD
            ctx_rows.append('(%s, %s, %s)' % (cnat(ci), cN(op), cbool(ends_before)))
    txt = ('(* GENERATED on every run by harness/c06.py from the live Grammar objects under /repo/src. Do not edit. *)\n'
           'From Coq Require Import NArith List Bool.\nImport ListNotations.\nLocal Open Scope N_scope.\n\n'
           '(* host type index, (is a matcher grammar, infix operator names per level in order of increasing precedence,\n'
           '   prefix operator names);  words: 0 "("  1 ")"  2 "!"  3 "||"  4 "&&"  5 "|" *)\n'
           'Definition gen_grammars : list (nat * (bool * list (list N) * list N)) :=\n  %s.\n\n'
           '(* host type index, operator, constant operands, value of the expression built by mk_expression *)\n'
           'Definition gen_truth : list (nat * N * list bool * bool) :=\n  %s.\n\n'
           '(* context that takes a SIMPLE expression as argument (index into harness/c06.py NESTED), operator of the\n'
           '   argument\'s grammar, does  CTX a op b  leave the operator outside the argument? *)\n'
           'Definition gen_simple_contexts : list (nat * N * bool) :=\n  %s.\n' % (clist(rows), clist(truth), clist(ctx_rows)))
    common.write_if_changed(os.path.join(common.COQ, 'Gen', 'C06_grammar.v'), txt)


# ---------------------------------------------------------------------------------------------
# case generation
# ---------------------------------------------------------------------------------------------
def damage_operator(rng, host, toks):
    """replace an infix operator that is NOT the first one by a damaged spelling (&, |, &&&, |||, and, or);
    None if there is no such operator"""
    idx = [i for i, t in enumerate(toks) if t[0] == 'w' and not t[1] and t[2] in levels_of(host)]
    if len(idx) < 2:
        return None
    i = rng.choice(idx[1:])
    toks = list(toks)
    toks[i] = ('w', False, rng.choice(DAMAGED[toks[i][2]]))
    return toks


def mutate(rng, host, toks):
    """a malformed / arbitrary variant of a token sequence"""
    if rng.chance(0.2):
        t2 = damage_operator(rng, host, toks)
        if t2 is not None:
            return t2       # no further change: a word-like damaged operator must stay in operator position
    toks = list(toks)
    ops = levels_of(host) + ([W_NOT] if host['matcher'] else [])
    for _ in range(rng.randint(1, 2)):
        k = rng.below(9)
        i = rng.below(len(toks) + 1)
        if k == 0 and toks:
            del toks[min(i, len(toks) - 1)]
        elif k == 1:
            toks.insert(i, ('w', False, rng.choice([W_LP, W_RP])))
        elif k == 2:
            toks.insert(i, ('w', False, rng.choice(ops)))
        elif k == 3:
            toks.insert(i, ('nl',))
        elif k == 4 and toks:
            j = min(i, len(toks) - 1)
            if toks[j][0] == 'w':
                toks[j] = ('w', True, toks[j][2])
        elif k == 5:
            toks.insert(i, ('w', False, rng.choice(list(JUNK))))
        elif k == 6 and len(toks) >= 2:
            j = min(i, len(toks) - 2)
            toks[j], toks[j + 1] = toks[j + 1], toks[j]
        elif k == 7:
            # an operator first on a line
            toks[i:i] = [('nl',), ('w', False, rng.choice(levels_of(host)))]
        elif k == 8:
            toks.insert(i, ('w', False, 100 + rng.below(len(host['leaves']))))
    return toks


FOLLOWS = [[], [], [], [('nl',)], [('nl',), ('w', False, 300)], [('w', False, 301)], [('w', True, W_AND)],
           [('nl',), ('w', False, 100)], [('w', False, W_RP)], [('nl',), ('w', False, W_AND)], [('nl',), ('w', False, W_OR)],
           [('nl',), ('w', False, W_PIPE)]]


class Case:
    __slots__ = ('hi', 'simple', 'must_cur', 'toks', 'gen', 'follow', 'source', 'offs', 'obs', 'ev', 'kind', 'nested')

    def describe(self):
        host = HOSTS[self.hi]
        d = {'host_type': host['name'], 'parser': ('simple' if self.simple else 'full'),
             'must_be_on_current_line': self.must_cur, 'source': self.source, 'stream': self.kind}
        if self.nested:
            d['context'] = self.nested
        if self.gen is not None:
            d['generating_tree'] = src_of_expr(host, erase(self.gen))
        if self.obs[0] == 'err':
            d['observed'] = 'syntax error'
        else:
            d['observed'] = {'structure': src_of_expr(host, self.obs[1]),
                             'unconsumed_tokens': [('\\n' if t[0] == 'nl' else word_source(host, t[2])) for t in self.obs[2]]}
        if self.ev:
            d['evaluations_of_the_same_object'] = [v[-1] for v in self.ev]
        return d

    def term(self):
        host = HOSTS[self.hi]
        gen = 'None' if self.gen is None else '(Some (%s, %s))' % (c_dexpr(self.gen), c_toks(self.follow))
        obs = 'OErr' if self.obs[0] == 'err' else '(OOk %s %s)' % (c_expr(self.obs[1]), c_toks(self.obs[2]))
        evs = []
        for v in self.ev or []:
            if v[0] == 'filter':
                evs.append('(VFilter %s %s)' % (
                    clist(['(%s, %s)' % (clist(['(%s, %s)' % (cN(w), cbool(b)) for w, b in sorted(tab.items())]), cN(k))
                           for tab, k in v[1]]) if v[1] else '(@nil (list (N * bool) * N))',
                    clist([cN(x) for x in v[2]]) if v[2] else '(@nil N)'))
            elif v[0] == 'match':
                evs.append('(VMatch %s %s)' % (clist(['(%s, %s)' % (cN(w), cbool(b)) for w, b in sorted(v[1].items())]),
                                               c_trace(v[2])))
            else:
                tab = clist(['(%s, (%s, %s))' % (cN(w), cbool(idt), clist(['(%s, %s)' % (cN(a), cN(b)) for a, b in m])
                                                 if m else '(@nil (N * N))') for w, (idt, m) in sorted(v[1].items())])
                evs.append('(VTrans %s %s %s)' % (tab, common.ctext(v[2]), common.ctext(v[3])))
        ev = clist(evs) if evs else '(@nil obs_eval)'
        return '(Case %s %s %s %s %s %s %s)' % (cbool(host['matcher']), cbool(self.simple), cbool(self.must_cur),
                                                c_toks(self.toks), gen, obs, ev)


def observe(rng, hosts, c):
    host = HOSTS[c.hi]
    hi = hosts[c.hi]
    c.source, c.offs = to_source(rng, host, c.toks)
    r = hi.parse(c.source, c.simple, c.must_cur)
    c.ev = None
    if r[0] == 'err':
        c.obs = ('err',)
        return
    e = r[1] if r[1] is not None else ('L', 999)
    c.obs = ('ok', e, rest_tokens(c.toks, c.offs, r[2]))
    p = r[3]
    if p is None:
        c.ev = []
        return
    c.ev = []
    if not host['matcher'] and any(w - 100 in host.get('struct_only', ()) for w in leaves_of_expr(e)):
        return
    for _ in range(rng.randint(1, 3)):   # the SAME parsed object is applied again
        if host['matcher']:
            mi = rng.below(len(hi.models))
            try:
                res = p.matches_w_trace(hi.model(mi))
            except Exception:
                continue   # a leaf that cannot be applied to this model (hard error): no observation
            t = hi.trace_of(mi, res.trace.render())
            assert bool(res.value) == t[1]
            c.ev.append(('match', hi.leaf_tab[mi], t,
                         {'model': repr(hi.models[mi]) if c.hi < 3 else str(hi.models[mi].primitive.name),
                          'value': bool(res.value)}))
        else:
            text = ''.join(rng.choice(ALPHABET) for _ in range(rng.randint(0, 8)))
            out = p.transform(impl.str_source(text, hi.env)).contents().as_str
            c.ev.append(('trans', hi.leaf_tab, text, out, {'input': text, 'output': out}))
    if c.hi in (0, 1) and not c.obs[2] and 999 not in leaves_of_expr(e) and (c.kind == 'filter' or rng.chance(0.5)):
        v = filter_evaluation(rng, hosts, c.hi, e)
        if v is not None:
            c.ev.append(v)


LINE_CONTENTS = ['a', '', 'b']


def filter_evaluation(rng, hosts, hi_idx, e):
    """the structure that was read, used as `filter E` (line matcher) / `filter line-num ( E )` (integer matcher) on a
    small text: per line the truth of every leaf on that line, and the output"""
    from exactly_lib.section_document.parse_source import ParseSource
    hi, st = hosts[hi_idx], hosts[5]
    host = HOSTS[hi_idx]
    src = '( ' + src_of_expr(host, e) + ' )'
    src = 'filter ' + (src if hi_idx == 1 else 'line-num ' + src)
    tr = st.mod.parsers(False).full.parse(ParseSource(src)).resolve(hi.symbols).value_of_any_dependency(None).primitive(st.env)
    lines = [rng.below(len(LINE_CONTENTS)) for _ in range(rng.randint(0, 5))]
    text = ''.join(LINE_CONTENTS[k] + '\n' for k in lines)
    out = tr.transform(impl.str_source(text, st.env)).contents().as_str
    out_lines = out.split('\n')
    if out_lines[-1] != '' or any(x not in LINE_CONTENTS for x in out_lines[:-1]):
        out_ids = [999]
    else:
        out_ids = [LINE_CONTENTS.index(x) for x in out_lines[:-1]]
    rows = []
    for n, k in enumerate(lines, 1):
        model = n if hi_idx == 0 else (n, LINE_CONTENTS[k])
        rows.append(({w: bool(p.matches_w_trace(model).value) for w, p in hi.leaf_prim.items()}, k))
    return ('filter', rows, out_ids, {'filter': src, 'text': text, 'output': out})


def leaves_of_expr(x):
    if x[0] == 'L':
        return [x[1]]
    if x[0] == 'P':
        return leaves_of_expr(x[2])
    return [w for y in x[2] for w in leaves_of_expr(y)]


def new_case(hi, simple, must_cur, toks, gen, follow, kind):
    c = Case()
    c.hi, c.simple, c.must_cur, c.toks, c.gen, c.follow, c.kind, c.nested = hi, simple, must_cur, toks, gen, follow, kind, None
    return c


def load_corpus():
    """harness/corpus/C06/*.json -> [(host index, simple, tokens, end_to_end tail or None)]"""
    out = []
    d = os.path.join(os.path.dirname(os.path.abspath(__file__)), 'corpus', 'C06')
    for fn in sorted(os.listdir(d)):
        if not fn.endswith('.json'):
            continue
        for c in json.load(open(os.path.join(d, fn)))['cases']:
            toks = []
            for t in c['tokens']:
                quoted = t.startswith('q:')
                t = t[2:] if quoted else t
                if t == 'NL':
                    toks.append(('nl',))
                elif t in OP_WORD:
                    toks.append(('w', quoted, OP_WORD[t]))
                elif t[0] == 'J':
                    assert int(t[1:]) in JUNK, t
                    toks.append(('w', quoted, int(t[1:])))
                else:
                    assert t[0] == 'L' and int(t[1:]) < len(HOSTS[c['host']]['leaves']), t
                    toks.append(('w', quoted, 100 + int(t[1:])))
            out.append((c['host'], c['simple'], toks, c.get('tail') if c.get('end_to_end') else None))
    if not out:
        raise RuntimeError('regression corpus is empty')
    return out


CORPUS = load_corpus()


def generate(ctx, res, hosts):
    rng = ctx.rng
    # per host: permitted, any layout, malformed; per context: nested
    n_per = SIZES.get('override') or ((260, 200, 200, 60) if ctx.quick else (3000, 2500, 2500, 400))
    cases = []
    for hi, simple, toks, _ in CORPUS:
        cases.append(new_case(hi, simple, False, toks, None, [], 'corpus'))
    for hi, host in enumerate(HOSTS):
        n_lv = len(levels_of(host))
        for stream, n in zip(('permitted', 'any-layout', 'malformed'), n_per):
            for _ in range(n):
                simple = rng.chance(0.3)
                must_cur = rng.chance(0.25)
                depth = rng.weighted([(0, 1), (1, 3), (2, 6), (3, 5), (4, 3)])
                e = gen_expr(rng, host, depth, rng.randint(2, 4))
                k = n_lv if simple else 0
                d = decorate(rng, host, e, k, rng.choice([0.0, 0.15, 0.4]) if stream != 'any-layout' else rng.choice([0.2, 0.5]),
                             rng.choice([0.0, 0.3, 0.6]))
                if stream == 'permitted':
                    d = make_permitted(host, d, False, k)
                    if must_cur:
                        d = set_leading_nl(d, 0)
                elif stream == 'any-layout' and rng.chance(0.5):
                    d = make_unpermitted(rng, host, make_permitted(host, d, False, k), False, k)
                follow = rng.choice(FOLLOWS) if rng.chance(0.4) else []
                toks = render(d) + follow
                if stream == 'malformed':
                    cases.append(new_case(hi, simple, must_cur, mutate(rng, host, toks), None, [], stream))
                else:
                    cases.append(new_case(hi, simple, must_cur, toks, d, follow, stream))
    # the value inside `filter` (which derives a line-number interval from the STRUCTURE): conjunctions / negated
    # disjunctions of every pair of leaves, so that intervals meeting in exactly one line are well represented
    for hi in (0, 1):
        host = HOSTS[hi]
        ids = list(range(100, 100 + len(host['leaves']))) + [200, 201]
        pairs = [(a, b) for a in ids for b in ids]
        if ctx.quick:
            pairs = rng.sample(pairs, 50)
        for a, b in pairs:
            for e in (('I', W_AND, [('L', a), ('L', b)]), ('P', W_NOT, ('I', W_OR, [('P', W_NOT, ('L', a)), ('P', W_NOT, ('L', b))])),
                      ('P', W_NOT, ('I', W_OR, [('L', a), ('L', b)]))):
                d = decorate(rng, host, e, 0, 0.0, rng.choice([0.0, 0.3]))
                cases.append(new_case(hi, False, False, render(d), d, [], 'filter'))
    for c in cases:
        observe(rng, hosts, c)
    # simple-expression contexts inside primitives of other types
    by_name = {h['name']: i for i, h in enumerate(HOSTS)}
    for outer, before, inner, path, after in NESTED:
        ho, hin = hosts[by_name[outer]], hosts[by_name[inner]]
        host = HOSTS[by_name[inner]]
        n_lv = len(levels_of(host))
        for _ in range(n_per[3]):
            e = gen_expr(rng, host, rng.randint(0, 3), rng.randint(2, 3), syms=False)
            d = decorate(rng, host, e, n_lv, rng.choice([0.0, 0.2, 0.5]), rng.choice([0.0, 0.4]))
            if rng.chance(0.6):
                d = make_permitted(host, d, False, n_lv)
            follow = [] if after else rng.choice([[], [], [('nl',)], [('nl',), ('w', False, 300)]])
            c = new_case(by_name[inner], True, False, render(d) + follow, d, follow, 'nested')
            c.nested = '%s: %s SIMPLE-%s' % (outer, before, inner.upper())
            src, offs = to_source(rng, host, c.toks)
            pre = before + ' '
            c.source, c.offs = pre + src + (' ' + after if after else ''), [o + len(pre) for o in offs]
            r = ho.parse(c.source, False, False, path)
            c.ev = None
            if r[0] == 'err':
                c.obs = ('err',)
            else:
                c.obs = ('ok', hin.expr_of_node(r[1]) if r[1] is not None else ('L', 999), rest_tokens(c.toks, c.offs, r[2]))
            cases.append(c)
    return cases



# ---------------------------------------------------------------------------------------------
# end-to-end stream: whole test cases through the real main program
# ---------------------------------------------------------------------------------------------
EXPECTED_TAIL = ' equals <<EOF_EXPECTED\n%sEOF_EXPECTED'
E2E = [
    # host index, simple context?, the instruction up to the expression, text after the expression, symbol type name,
    # primary (leaf truth / distinguishing triples are measured once per entry; triples only for primary entries)
    (0, False, 'exit-code ', '', 'integer-matcher', True),
    (0, False, 'def integer-matcher M9 = ', '\nexit-code M9', 'integer-matcher', False),
    (1, True, 'contents f.txt : every line : ', '', 'line-matcher', True),
    (1, False, 'def line-matcher M9 = ', '\ncontents f.txt : every line : M9', 'line-matcher', False),
    (2, False, 'contents f.txt : ', '', 'text-matcher', True),
    (2, False, 'stdout ', '', 'text-matcher', False),
    (2, False, 'stderr ', '', 'text-matcher', False),
    (2, False, 'def text-matcher M9 = ', '\ncontents f.txt : M9', 'text-matcher', False),
    (3, False, 'exists f.txt : ', '', 'file-matcher', True),
    (3, False, 'def file-matcher M9 = ', '\nexists f.txt : M9', 'file-matcher', False),
    (4, False, 'dir-contents d1 : ', '', 'files-matcher', True),
    (4, False, 'def files-matcher M9 = ', '\ndir-contents d1 : M9', 'files-matcher', False),
    (5, True, 'contents f.txt : -transformed-by ', EXPECTED_TAIL, 'text-transformer', True),
    (5, False, 'def text-transformer M9 = ', '\ncontents f.txt : -transformed-by M9' + EXPECTED_TAIL, 'text-transformer', False),
]
E2E_FILE_TEXT = 'abcA\n'


class E2e:
    def __init__(self, tmp):
        self.tmp = tmp
        self.sandbox = os.path.join(tmp, 'sandboxes')
        self.cases = os.path.join(tmp, 'cases')
        os.makedirs(self.sandbox)
        os.makedirs(self.cases)
        self.mp = impl.main_program(self.sandbox)
        self.n = 0
        self.leaf_truth = {}   # host index -> {leaf id: bool}  (matcher hosts)

    def run(self, hi, instruction_text):
        host = HOSTS[hi]
        sym_type = [x[4] for x in E2E if x[0] == hi][0]
        lines = ['[setup]', 'file f.txt = <<EOF_F', E2E_FILE_TEXT.rstrip('\n') if hi == 5 else 'a', 'EOF_F', 'dir d1', 'file d1/g.txt = "a"']
        for _, nm, body in host_symbols(host):
            lines.append('def %s %s = %s' % (sym_type, nm, body))
        lines += ['[act]', '$ exit 3', '[assert]', instruction_text]
        self.n += 1
        path = os.path.join(self.cases, 'c%d.case' % self.n)
        with open(path, 'w') as f:
            f.write('\n'.join(lines) + '\n')
        r = impl.run_main(self.mp, [path], self.cases, self.tmp)
        os.remove(path)
        out = r.out.strip().splitlines()
        first = out[0] if out else ''
        if r.exception is not None:
            return 'VOther'
        return {'PASS': 'VPass', 'FAIL': 'VFail', 'SYNTAX_ERROR': 'VSyntax'}.get(first, 'VOther')

    def init_entry(self, entry):
        hi, simple, pre, post, _, _ = entry
        host = HOSTS[hi]
        tab = {}
        # (for a symbol: its definition stands in the instruction - the value of a reference is the value of the definition)
        for i, s in list(enumerate(host['leaves'], 100)) + list(enumerate([x[2] for x in host_symbols(host)], 200)):
            v = self.run(hi, pre + s + (post % E2E_FILE_TEXT if '%s' in post else post))
            if v in ('VPass', 'VFail'):
                tab[i] = (v == 'VPass')
        return tab


class ECase:
    __slots__ = ('hi', 'simple', 'toks', 'gen', 'source', 'spec', 'verdict', 'instruction', 'entry', 'kind')

    def describe(self):
        host = HOSTS[self.hi]
        return {'host_type': host['name'], 'stream': 'end-to-end', 'host_instruction': self.entry,
                'instruction': self.instruction,
                'generating_tree': src_of_expr(host, erase(self.gen)) if self.gen is not None else None,
                'verdict': self.verdict[1:],
                'model_of_the_case': ('exit code 3; f.txt = "a\\n"; d1 = {g.txt}' if self.hi != 5 else
                                      {'f.txt': E2E_FILE_TEXT, 'expected': self.spec[2]})}

    def term(self):
        host = HOSTS[self.hi]
        if self.spec[0] == 'match':
            spec = '(SMatch %s)' % clist(['(%s, %s)' % (cN(w), cbool(b)) for w, b in sorted(self.spec[1].items())])
        else:
            tab = clist(['(%s, (%s, %s))' % (cN(w), cbool(idt), clist(['(%s, %s)' % (cN(a), cN(b)) for a, b in m])
                                             if m else '(@nil (N * N))') for w, (idt, m) in sorted(self.spec[1].items())])
            spec = '(STrans %s %s %s)' % (tab, common.ctext(E2E_FILE_TEXT), common.ctext(self.spec[2]))
        return '(ECase %s %s %s %s %s %s)' % (cbool(host['matcher']), cbool(self.simple), c_toks(self.toks),
                                              'None' if self.gen is None else '(Some %s)' % c_dexpr(self.gen), spec, self.verdict)


def apply_maps(host_impl, e, text):
    """left-to-right composition of the leaf character maps (only used to PROPOSE an expected text; Coq judges)"""
    def leaves_of(x):
        if x[0] == 'L':
            return [x[1]]
        if x[0] == 'P':
            return leaves_of(x[2])
        return [w for y in x[2] for w in leaves_of(y)]
    for w in leaves_of(e):
        m = dict(host_impl.leaf_tab[w][1])
        text = ''.join(chr(m.get(ord(ch), ord(ch))) for ch in text)
    return text


CONTEXT_PREFIXES = ['-selection name f.txt', '-selection type dir', '-with-pruned name sub', '-transformed-by char-case -to-upper',
                    'every line :', 'any line :', 'every file :', 'any file :', 'dir-contents -recursive', 'dir-contents',
                    'line-num', 'num-lines', 'num-files', 'contents']


def context_split(src):
    """(CTX, ARG) if the leaf is a primitive whose last argument is itself a (simple) expression, else None"""
    for pfx in CONTEXT_PREFIXES:
        if src.startswith(pfx + ' '):
            return pfx, src[len(pfx) + 1:]
    return None


def distinguishing_triples(e2e, entry, tab):
    """(context leaf C = CTX ARG, op, leaf R) for which the real program gives the explicitly parenthesised OTHER reading
    CTX ( ARG op R ) a verdict different from the value of ( CTX ARG ) op R: inputs on which a parser that lets the
    argument swallow the operator changes the verdict"""
    hi, simple, pre, post, _, primary = entry
    host = HOSTS[hi]
    out = []
    if not host['matcher'] or not primary:
        return out
    for c in sorted(tab):
        sp = context_split(word_source(host, c)) if 100 <= c < 200 else None
        if sp is None:
            continue
        for op in levels_of(host):
            for r in sorted(tab):
                expected = (tab[c] and tab[r]) if op == W_AND else (tab[c] or tab[r])
                alt = '%s ( %s %s %s )' % (sp[0], sp[1], WORD_STR[op], word_source(host, r))
                v = e2e.run(hi, pre + (('( %s )' % alt) if simple else alt))
                if v != ('VPass' if expected else 'VFail'):
                    out.append((c, op, r))
    return out


def trailing_damage(rng, host, restricted):
    """what may NOT follow a complete expression on the same line: a stray ')', a second complete expression, a
    primitive without operator, a dangling word"""
    leaf = ('w', False, 100 + rng.below(len(host['leaves'])))
    options = [[('w', False, W_RP)], [('w', False, rng.choice([300, 301]))]]
    if not restricted:
        options += [[leaf], [('w', False, W_LP), leaf, ('w', False, W_RP)], [('w', False, 200 + rng.below(len(host_symbols(host))))],
                    [leaf, ('w', False, rng.choice(levels_of(host))), ('w', False, 100 + rng.below(len(host['leaves'])))],
                    [('w', False, W_RP), ('w', False, rng.choice(levels_of(host))), leaf]]
        if host['matcher']:
            options.append([('w', False, W_NOT), leaf])
    return rng.choice(options)


def generate_e2e(ctx, hosts, tmp, res_counts):
    rng = ctx.rng
    scale = SIZES.get('override_e2e') or (48 if ctx.quick else 500)
    e2e = E2e(tmp)
    out = []
    for entry in E2E:
        hi, simple, pre, post, _, primary = entry
        host = HOSTS[hi]
        tab = e2e.init_entry(entry)
        name = pre.strip().rstrip(':=').strip()

        def instruction(src, expected=None):
            return pre + src + (post % expected if '%s' in post else post)

        if hi == 0 and primary:
            # regression corpus: the two reproductions of FIX-C06-1 (must be SYNTAX_ERROR)
            for toks, tail in [(x[2], x[3]) for x in CORPUS if x[0] == 0 and x[3] is not None]:
                c = ECase()
                c.hi, c.simple, c.gen, c.toks, c.spec, c.entry = 0, False, None, toks, ('match', tab), name
                c.instruction = pre + to_source(rng, host, toks)[0] + tail
                c.verdict = e2e.run(0, c.instruction)
                out.append(c)
        usable = sorted(tab) if host['matcher'] else sorted(hosts[hi].leaf_tab)
        triples = distinguishing_triples(e2e, entry, tab)
        if primary:
            res_counts['end-to-end: distinguishing (CTX ARG, op, REST) triples, ' + host['name']] = len(triples)
        if len(usable) < 4:
            raise RuntimeError('end-to-end: too few leaves usable for %s in `%s`: %r' % (host['name'], name, usable))
        n_lv = len(levels_of(host))
        k = n_lv if simple else 0

        def leaf_ok(x):
            if x[0] == 'L':
                return x[1] in usable
            if x[0] == 'P':
                return leaf_ok(x[2])
            return all(leaf_ok(y) for y in x[2])

        def spec_and_instruction(c, e, src):
            if host['matcher']:
                c.spec = ('match', tab)
                c.instruction = instruction(src)
            else:
                right = apply_maps(hosts[hi], e, E2E_FILE_TEXT)
                expected = right if rng.chance(0.6) else apply_maps(
                    hosts[hi], ('I', W_PIPE, list(reversed(e[2]))) if e[0] == 'I' else e, E2E_FILE_TEXT)
                c.spec = ('trans', hosts[hi].leaf_tab, expected)
                c.instruction = instruction(src, expected)

        # --- well-formed expressions (permitted and unpermitted layouts): the verdict is the value of the tree
        for _ in range(scale * 2 // 3 if primary else scale // 3):
            while True:
                if triples and rng.chance(0.5):
                    # CTX ARG op REST with REST chosen so that the two readings give different verdicts
                    # (context first, so that every context gets the same share)
                    cw = rng.choice(sorted({t[0] for t in triples}))
                    cw, op, rw = rng.choice([t for t in triples if t[0] == cw])
                    operands = [('L', cw), ('L', rw)]
                    if rng.chance(0.4):
                        operands.append(gen_expr(rng, host, rng.randint(0, 1), 2))
                    e = ('I', op, operands)
                    if rng.chance(0.25):
                        e = ('P', W_NOT, e)
                else:
                    e = gen_expr(rng, host, rng.weighted([(1, 3), (2, 6), (3, 4)]), rng.randint(2, 3))
                if leaf_ok(e):
                    break
            d = decorate(rng, host, e, k, rng.choice([0.0, 0.2, 0.4]), rng.choice([0.0, 0.3, 0.6]))
            d = set_leading_nl(d, 0) if rng.chance(0.7) else d
            r = rng.below(100)
            if r < 60:
                d = make_permitted(host, d, False, k)
            elif r < 85:
                d = make_unpermitted(rng, host, make_permitted(host, d, False, k), False, k)
            c = ECase()
            c.hi, c.simple, c.gen, c.toks, c.entry = hi, simple, d, render(d), name
            spec_and_instruction(c, e, to_source(rng, host, c.toks)[0])
            c.verdict = e2e.run(hi, c.instruction)
            out.append(c)
        # --- a complete expression followed by trailing damage on the same line: must be a syntax error in EVERY host
        #     instruction (the expression parser stops before the damage and relies on the host to refuse what is left)
        for _ in range(max(10, scale // 5)):
            while True:
                e = gen_expr(rng, host, rng.randint(0, 2), 2)
                if leaf_ok(e):
                    break
            d = make_permitted(host, decorate(rng, host, e, k, rng.choice([0.0, 0.0, 0.2]), rng.choice([0.0, 0.3])), False, k)
            d = set_leading_nl(d, 0)
            c = ECase()
            c.hi, c.simple, c.gen, c.entry = hi, simple, None, name
            c.toks = render(d) + trailing_damage(rng, host, restricted=(simple and bool(post)))
            spec_and_instruction(c, e, to_source(rng, host, c.toks)[0].rstrip(' '))
            c.verdict = e2e.run(hi, c.instruction)
            c.kind = 'trailing damage'
            out.append(c)
    return out


# ---------------------------------------------------------------------------------------------
# context stream:  CTX ARG op REST  (the argument of CTX is a SIMPLE expression: the operator is not part of it)
# ---------------------------------------------------------------------------------------------
class CtxCase:
    __slots__ = ('outer', 'inner', 'context', 'toks', 'gen', 'post', 'source', 'obs')

    def describe(self):
        hin, hout = HOSTS[self.inner], HOSTS[self.outer]
        d = {'stream': 'context', 'context': '%s: %s SIMPLE-%s' % (hout['name'], self.context, hin['name'].upper()),
             'source': self.source, 'argument_generated': src_of_expr(hin, erase(self.gen))}
        if self.obs is None:
            d['observed'] = 'syntax error'
        else:
            d['observed'] = {'argument': src_of_expr(hin, self.obs[0]),
                             'outer_structure (context = CTX)': src_of_ctx_expr(hout, self.obs[1]),
                             'unconsumed_tokens': len(self.obs[2])}
        return d

    def term(self):
        obs = 'None' if self.obs is None else '(Some (%s, %s, %s))' % (c_expr(self.obs[0]), c_expr(self.obs[1]), c_toks(self.obs[2]))
        return '(CtxCase %s %s %s (Some (%s, %s)) %s)' % (cbool(HOSTS[self.outer]['matcher']), cbool(HOSTS[self.inner]['matcher']),
                                                          c_toks(self.toks), c_dexpr(self.gen), c_toks(self.post), obs)


def src_of_ctx_expr(host, e):
    if e[0] == 'L':
        return 'CTX' if e[1] == W_CTX else word_source(host, e[1])
    if e[0] == 'P':
        return '! ' + src_of_ctx_expr(host, e[2])
    return '( ' + (' ' + WORD_STR[e[1]] + ' ').join(src_of_ctx_expr(host, x) for x in e[2]) + ' )'


def generate_ctx(ctx, hosts):
    from exactly_lib.section_document.parse_source import ParseSource
    from exactly_lib.section_document.element_parsers.instruction_parser_exceptions import \
        SingleInstructionInvalidArgumentException
    rng = ctx.rng
    n_per = SIZES.get('override_ctx') or (40 if ctx.quick else 400)
    by_name = {h['name']: i for i, h in enumerate(HOSTS)}
    out = []
    for outer, before, inner, path, after in NESTED:
        if after:
            continue   # the argument is not the last one: covered by the 'nested' stream and by the (T) table
        oi, ii = by_name[outer], by_name[inner]
        ho, hin = hosts[oi], hosts[ii]
        hout, hinn = HOSTS[oi], HOSTS[ii]
        n_lv = len(levels_of(hinn))
        alone = 'constant true' if hinn['matcher'] else 'identity'
        ctx_header = ho.primitive(ho.parse_alone(before + ' ' + alone)).structure().render().header
        assert ctx_header not in OP_WORD

        def outer_expr(n, found):
            if n.header == ctx_header and not found:
                found.append(n)
                return ('L', W_CTX)
            if n.header == '!' and len(n.children) == 1 and not n.details:
                return ('P', W_NOT, outer_expr(n.children[0], found))
            if n.header in ('&&', '||', '|') and not n.details and n.children and node_sig(n) not in ho.sig2leaf:
                return ('I', OP_WORD[n.header], [outer_expr(c, found) for c in n.children])
            return ('L', ho.sig2leaf.get(node_sig(n), 999))

        for _ in range(n_per):
            e = gen_expr(rng, hinn, rng.randint(0, 3), rng.randint(2, 3), syms=False)
            d = decorate(rng, hinn, e, n_lv, rng.choice([0.0, 0.2, 0.5]), rng.choice([0.0, 0.4]))
            if rng.chance(0.75):
                d = make_permitted(hinn, d, False, n_lv)
            op = rng.choice(sorted(set(levels_of(hout)) | set(levels_of(hinn))))
            rest_host = hout if op in levels_of(hout) else hinn
            rest_src = rng.choice(['constant true', 'constant false'] if rest_host['matcher'] else ['identity', 'replace a b'])
            rest_id = 100 + rest_host['leaves'].index(rest_src)
            nl_after_op = rng.chance(0.3)
            c = CtxCase()
            c.outer, c.inner, c.context, c.gen = oi, ii, before, d
            c.post = [('w', False, op)] + ([('nl',)] if nl_after_op else []) + [('w', False, rest_id)]
            arg_toks = render(d)
            c.toks = arg_toks + c.post
            src, offs = to_source(rng, hinn, arg_toks)
            src = src.rstrip(' ')
            pre = before + ' '
            offs = [o + len(pre) for o in offs]
            text = pre + src + ' '
            offs.append(len(text))
            text += WORD_STR[op]
            if nl_after_op:
                offs.append(len(text))
                text += '\n  '
            else:
                text += ' '
            offs.append(len(text))
            text += rest_src
            c.source = text
            psrc = ParseSource(text)
            try:
                sdv = ho.mod.parsers(False).full.parse(psrc)
            except SingleInstructionInvalidArgumentException:
                c.obs = None
            else:
                consumed = len(text) - len(psrc.remaining_source)
                found = []
                oe, ie = ('L', 999), ('L', 999)
                try:
                    oe = outer_expr(ho.primitive(sdv).structure().render(), found)
                    n = found[0]
                    for i in path:
                        n = follow_path(n, i)
                    ie = hin.expr_of_node(n)
                except Exception:
                    pass   # unknown structure: the Coq check fails for the case
                c.obs = (ie, oe, rest_tokens(c.toks, offs, consumed))
            out.append(c)
    return out


def nontrivial_key(c):
    """>= 2 different operators, or a redundant parenthesis, or a line break inside the expression"""
    if c.gen is None:
        return None
    e = erase(c.gen)
    toks = render(c.gen)
    has_nl = any(t[0] == 'nl' for t in toks[1:])
    n_par = sum(1 for t in toks if t == ('w', False, W_LP))
    if len(n_ops(e)) >= 2 or has_nl or n_par > 0:
        return (c.hi, c.simple, c.must_cur, repr(c.gen), repr(c.follow))
    return None


def run(ctx, res):
    tmp = tempfile.mkdtemp(prefix='c06-', dir=ctx.work)
    try:
        env = impl.app_env(tmp)
        hosts = [HostImpl(h, os.path.join(tmp, 'h%d' % i), env) for i, h in enumerate(HOSTS)]
        cases = generate(ctx, res, hosts)
        e2e_counts = {}
        ecases = generate_e2e(ctx, hosts, tmp, e2e_counts)
        xcases = generate_ctx(ctx, hosts)
    finally:
        shutil.rmtree(tmp, ignore_errors=True)
    res.rule = ('random trees (depth <= 4, width <= 4) over the real primitives and two defined symbols of each of the six host '
                'types x decorations (0-2 redundant parentheses per node, 0-2 line breaks before any token, extra spaces/tabs) x '
                '{full, simple} x {must_be_on_current_line} x what follows; streams: permitted layouts, arbitrary layouts, '
                'token-level mutations (malformed), simple-expression contexts inside primitives of other types; corpus first. '
                'non-trivial := rendering of a tree with >= 2 different operators, or a parenthesis, or a line break inside the '
                'expression; distinct := distinct (host type, parser, decorated tree, follow)')
    for c in cases:
        res.count('stream: ' + c.kind)
        res.count('host: ' + HOSTS[c.hi]['name'])
        res.count('parser: ' + ('simple' if c.simple else 'full'))
        res.count('observed: ' + ('syntax error' if c.obs[0] == 'err' else
                                  ('accepted, all consumed' if not c.obs[2] else 'accepted, rest left')))
        k = nontrivial_key(c)
        if k is not None:
            res.nontrivial.add(k)
    res.extra['end_to_end_distinguishing_triples'] = e2e_counts
    for c in ecases:
        res.count('stream: end-to-end')
        res.count('end-to-end verdict: ' + c.verdict[1:])
        res.count('end-to-end host instruction: ' + c.entry)
        if c.gen is None:
            res.count('end-to-end: complete expression + trailing damage / corpus')
        if c.gen is not None and (len(n_ops(erase(c.gen))) >= 2 or any(t[0] == 'nl' for t in c.toks)):
            res.nontrivial.add(('e2e', c.hi, repr(c.gen)))
    for c in xcases:
        res.count('stream: context (CTX ARG op REST)')
        res.count('context observed: ' + ('syntax error' if c.obs is None else 'accepted'))
        res.nontrivial.add(('ctx', c.outer, c.context, repr(c.gen), repr(c.post)))
    res.evaluations = len(cases) + len(ecases) + len(xcases)
    res.samples = [c.describe() for c in (cases[0], cases[3], cases[len(CORPUS) + 5], cases[len(cases) // 2], cases[-1])]
    cb, pb, errs = common.run_shards('C06', ['Model.Expr', 'Spec.C06'], 'check_case', [c.term() for c in cases])
    res.errors += errs
    # how many cases the Coq predicate classifies as permitted renderings (property clause (1) is not vacuous)
    gb, _, errs2 = common.run_shards('C06', ['Model.Expr', 'Spec.C06'], 'is_permitted_case', [c.term() for c in cases],
                                     tag='permitted')
    res.errors += errs2
    res.extra['cases_that_are_permitted_renderings'] = len(gb)
    if len(gb) < len(cases) // 5:
        res.errors.append('too few permitted renderings among the cases: %d of %d' % (len(gb), len(cases)))
    for i in pb:
        res.prop_failures.append(Failure('property', cases[i].describe(),
                                         'a permitted rendering was not read as its tree, or what was accepted is not a '
                                         'well-formed expression with the structure that was built, or the value / evaluation '
                                         'order differs from lazy left-to-right evaluation of that structure'))
    for i in cb:
        res.disagreements.append(Failure('correspondence', cases[i].describe(),
                                         'the model of the parser / of the combinators gives a different result'))
    cb, pb, errs = common.run_shards('C06', ['Model.Expr', 'Spec.C06'], 'check_ctxcase', [c.term() for c in xcases], tag='ctx')
    res.errors += errs
    res.samples.append(xcases[len(xcases) // 2].describe())
    for i in pb:
        res.prop_failures.append(Failure('property', xcases[i].describe(),
                                         'in CTX ARG op REST the argument of the context is not the simple expression ARG, or '
                                         'the outer expression is not ( CTX ARG ) op REST'))
    for i in cb:
        res.disagreements.append(Failure('correspondence', xcases[i].describe(),
                                         'the composition (simple parser of the argument, then the outer parser) predicts a '
                                         'different result'))
    cb, pb, errs = common.run_shards('C06', ['Model.Expr', 'Spec.C06'], 'check_ecase', [c.term() for c in ecases], tag='e2e')
    res.errors += errs
    res.samples.append(ecases[len(ecases) // 3].describe())
    for i in pb:
        res.prop_failures.append(Failure('property', ecases[i].describe(),
                                         'the verdict of the real program differs from the value of the generating tree '
                                         '(permitted rendering), or a rendering with an unpermitted line break was neither '
                                         'rejected nor read as its tree'))
    for i in cb:
        res.disagreements.append(Failure('correspondence', ecases[i].describe(),
                                         'the verdict predicted by the model differs from the verdict of the real program'))


def search(ctx, res):
    """failing-input search (a proof obligation / the correspondence / the tie broke, no property failure seen yet):
    a larger run of the same generators, with more arbitrary layouts and malformed inputs"""
    SIZES['override'] = (600, 1500, 1500, 100)
    SIZES['override_e2e'] = 120
    SIZES['override_ctx'] = 120
    try:
        r2 = common.Result()
        run(ctx, r2)
        return r2.prop_failures
    finally:
        SIZES.clear()


def replay(ctx, payload):
    case = payload.get('case') or (payload.get('correspondence_disagreements') or [{}])[0].get('case')
    print(json.dumps(case, indent=1, default=str))
    if not case or 'source' not in case:
        return 0
    tmp = tempfile.mkdtemp(prefix='c06-replay-', dir=ctx.work)
    try:
        env = impl.app_env(tmp)
        hi = [i for i, h in enumerate(HOSTS) if h['name'] == case['host_type']][0]
        h = HostImpl(HOSTS[hi], os.path.join(tmp, 'h'), env)
        if case.get('context'):
            print('nested context: re-run by parsing the source with the outer type')
            return 0
        r = h.parse(case['source'], case['parser'] == 'simple', case['must_be_on_current_line'])
        print('real parser now:', 'syntax error' if r[0] == 'err' else
              {'structure': src_of_expr(HOSTS[hi], r[1]), 'unconsumed_source': case['source'][r[2]:]})
    finally:
        shutil.rmtree(tmp, ignore_errors=True)
    return 0
